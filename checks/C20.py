"""C20 -- sorting, chunking and progress/parallel wrappers preserve items and order."""
import ast
import copy

from vcheck import rules
from vcheck.core import PyRepo, AnalysisError, call_name, dotted_name, kwarg, norm, walk_no_nested
from vcheck.nullness import Nullness
from vcheck.rules import cfg_of

MANIFEST = dict(
    text="Structural rule checking (not a behavioural proof). Generator wrappers: a path rule on the loop body decides that every "
         "path from the loop head to the back edge yields exactly once, the loop's own item, that no other yield exists, that the "
         "wrapped iterable is iterated directly (never materialised) and that the loop has no early exit; public wrappers forward the "
         "iterable in role. Nullness analysis (interprocedural) decides that a total that may be None never reaches an ordering "
         "comparison or arithmetic without a dominating None test. Parallel map: the result is list(...) over the executor's ordered "
         "map inside its with-block; unordered collection APIs are forbidden. Key-value partition: every store to the key array is "
         "paired with the same-index store to the value array and the skeleton equals the plain partition. Chunking: the divmod "
         "section table, cumulative division points and [i*nper,(i+1)*nper) slices are checked against their documented forms.",
    note="Not decided: that the partition-exchange sort sorts (a proof obligation about the algorithm), process scheduling (delegated "
         "to Executor.map's documented ordering). Trusted: concurrent.futures.Executor.map order, divmod identity.",
    technique="static analysis: CFG path rules on loop bodies, interprocedural nullness dataflow, who-may-call, sibling skeleton comparison",
)


# rules that keep their verdict however the code is laid out (decided by term equality, effect analysis or dominance over
# resolved calls); every other rule of this check is a template rule (vcheck.core.Check.obt)
SEMANTIC = ('R20.gen', 'R20.isplit', 'R20.null', 'R20.pmap')


def run(chk):
    repo = PyRepo()
    chk.set_templates(repo, semantic=SEMANTIC)
    chk.explanation = MANIFEST["text"]
    chk.trusted = ["concurrent.futures.Executor.map preserves input order", "CPython ast"]
    chk.floor = 40
    generators(chk, repo)
    nullness(chk, repo)
    pmap(chk, repo)
    keyvalue(chk, repo)
    chunking(chk, repo)
    quicksort(chk, repo)


# ---------------------------------------------------------------------------
def generators(chk, repo):
    for q in ("esutil.pbar._pbar_full", "esutil.pbar.sbar"):
        fi = repo.func(q)
        chk.analysed_unit(q)
        fn = fi.node
        it = fi.params[0]
        cfg = cfg_of(fi)
        loops = [n for n in cfg.nodes if n.kind == "loop" and isinstance(n.ast, ast.For)]
        yields = [x for x in walk_no_nested(fn) if isinstance(x, (ast.Yield, ast.YieldFrom))]
        chk.ob("R20.gen", q + "::is-generator", len(yields) >= 1, fi.where(), "wrapper is a generator (lazy evaluation)")
        in_loops = []
        for lp in loops:
            a = lp.ast
            direct = norm(a.iter) == it
            enum = isinstance(a.iter, ast.Call) and call_name(a.iter) == "enumerate" and len(a.iter.args) == 1 and norm(a.iter.args[0]) == it
            chk.ob("R20.gen", "%s::iterates-the-iterable-directly::L%s" % (q, _loop_key(a)), direct or enum, fi.where(a),
                   "the loop iterates `%s` itself (found `%s`): nothing is materialised or reordered first" % (it, norm(a.iter)))
            obj = norm(a.target) if direct else (norm(a.target.elts[1]) if enum and isinstance(a.target, ast.Tuple) else None)
            # path rule: every path through the body yields exactly once, the item
            counts = _yield_counts(a.body, obj)
            chk.ob("R20.gen", "%s::exactly-one-yield-per-item::L%s" % (q, _loop_key(a)), counts == {1}, fi.where(a),
                   "every path through the loop body yields exactly once (yield counts over paths: %s)" % sorted(counts))
            ys = [x for x in ast.walk(a) if isinstance(x, ast.Yield)]
            in_loops += ys
            chk.ob("R20.gen", "%s::yields-the-loop-item::L%s" % (q, _loop_key(a)), bool(ys) and all(y.value is not None and norm(y.value) == obj for y in ys), fi.where(a),
                   "the yielded value is the loop's own item `%s`" % obj)
            early = [x for x in ast.walk(a) if isinstance(x, (ast.Break, ast.Return))]
            chk.ob("R20.gen", "%s::no-early-exit::L%s" % (q, _loop_key(a)), not early, fi.where(a), "no break/return inside the loop (no item is dropped)")
            # the loop item is not re-bound before the yield
            first = a.body[0] if a.body else None
            chk.ob("R20.gen", "%s::yield-first::L%s" % (q, _loop_key(a)), isinstance(first, ast.Expr) and isinstance(first.value, ast.Yield), fi.where(a),
                   "the item is yielded before any bookkeeping touches it")
        chk.ob("R20.gen", q + "::no-yield-outside-the-loops", len(in_loops) == len(yields), fi.where(), "no yield outside the item loops (no extra items)")
        # the iterable is not consumed by anything else (list(), sorted(), tuple(), iter+next) -- len() is allowed
        bad = []
        for x in walk_no_nested(fn):
            if isinstance(x, ast.Call) and call_name(x) not in ("len", "enumerate") and any(isinstance(a, ast.Name) and a.id == it for a in x.args):
                bad.append(norm(x))
        chk.ob("R20.gen", q + "::iterable-not-consumed-elsewhere", not bad, fi.where(), "the iterable is handed to nothing but len()/the loop (%s)" % bad)
    # public wrappers forward the iterable
    pb = repo.func("esutil.pbar.pbar")
    chk.analysed_unit(pb.qualname)
    rets = [x for x in walk_no_nested(pb.node) if isinstance(x, ast.Return)]
    ok = len(rets) == 2 and all(isinstance(r.value, ast.Call) and call_name(r.value) in ("sbar", "_pbar_full") and r.value.args and norm(r.value.args[0]) == "iterable" for r in rets)
    chk.ob("R20.fwd", pb.qualname + "::forwards-iterable", ok, pb.where(), "pbar returns sbar(iterable, ...) or _pbar_full(iterable, ...)")
    for r in rets:
        if isinstance(r.value, ast.Call):
            bad = [k.arg for k in r.value.keywords if k.arg and norm(k.value) != k.arg]
            chk.ob("R20.fwd", "%s::options-forwarded::%s" % (pb.qualname, call_name(r.value)), not bad, pb.where(r), "options are forwarded under their own names (%s)" % bad)
    cfg = cfg_of(pb)
    view = cfg.view()
    for n in rules.return_nodes(cfg):
        ts = dict(rules.controlling_tests(view, n))
        want = "T" if call_name(n.ast.value) == "sbar" else "F"
        chk.ob("R20.fwd", "%s::simple-dispatch::%s" % (pb.qualname, call_name(n.ast.value)), ts.get("simple") == want, pb.where(n.ast), "simple=%s selects %s" % (want == "T", call_name(n.ast.value)))
    chk.ob("R20.fwd", "esutil.pbar.PBar-is-pbar", norm(repo.module("esutil.pbar").consts.get("PBar", ast.Constant(value=None))) == "pbar", "esutil/pbar.py", "PBar is an alias of pbar")
    pr = repo.func("esutil.pbar.prange")
    chk.analysed_unit(pr.qualname)
    rets = [x for x in walk_no_nested(pr.node) if isinstance(x, ast.Return)]
    ok = len(rets) == 1 and norm(rets[0].value) == "pbar(range(*args), **kwargs)"
    chk.ob("R20.fwd", pr.qualname + "::is-pbar-of-range", ok, pr.where(), "prange(...) is pbar(range(*args), **kwargs)")


def _loop_key(a):
    return norm(a.iter)


def _yield_counts(stmts, obj):
    """set of yield counts over all paths through a statement list (loops inside count as 0/many -> reported as 99)"""
    counts = {0}
    for s in stmts:
        if isinstance(s, ast.If):
            c = _yield_counts(s.body, obj) | _yield_counts(s.orelse, obj) if s.orelse else _yield_counts(s.body, obj) | {0}
            c = {x + (1 if any(isinstance(y, ast.Yield) for y in ast.walk(s.test)) else 0) for x in c}
        elif isinstance(s, (ast.For, ast.While)):
            c = {0, 99} if any(isinstance(y, ast.Yield) for y in ast.walk(s)) else {0}
        elif isinstance(s, ast.Try):
            c = _yield_counts(s.body, obj)
            for h in s.handlers:
                c |= _yield_counts(h.body, obj)
        elif isinstance(s, ast.With):
            c = _yield_counts(s.body, obj)
        else:
            c = {sum(1 for y in ast.walk(s) if isinstance(y, (ast.Yield, ast.YieldFrom)))}
        counts = {a + b for a in counts for b in c}
    return counts


# ---------------------------------------------------------------------------
def nullness(chk, repo):
    nl = Nullness(repo)
    entries = [("esutil.pbar._pbar_full", {"total"}), ("esutil.pbar.sbar", {"total"})]
    for q, mn in entries:
        fi = repo.func(q)
        nl.analyse(fi, mn)
    chk.notes["nullness_functions_analysed"] = sorted(k[0] + str(list(k[1])) for k in nl.memo)
    seen = set()
    for fi, node, var, what, chain in nl.reports:
        key = "%s::%s::%s" % (fi.qualname, var, norm(node))
        if key in seen:
            continue
        seen.add(key)
        chk.ob("R20.null", key, False, fi.where(node),
               "%s in %s: `%s` is None for an iterable without len() when no total= is given (e.g. a generator, or the executor map inside pmap)%s"
               % (what, fi.qualname, var, "".join(" <- via %s" % c for c in chain)))
    for k in nl.memo:
        if not any(r[0].qualname == k[0] for r in nl.reports):
            chk.ob("R20.null", "%s%s::no-unguarded-use" % (k[0], list(k[1])), True, repo.func(k[0]).where(),
                   "a possibly-None %s never reaches an ordering comparison or arithmetic unguarded in %s" % (list(k[1]), k[0]))
    chk.ob("R20.null", "nullness::callee-reached", any(k[0] == "esutil.pbar.format_meter" for k in nl.memo), "esutil/pbar.py",
           "the analysis followed the possibly-None total into the meter formatter")


# ---------------------------------------------------------------------------
def pmap(chk, repo):
    fi = repo.func("esutil.pbar.pmap")
    chk.analysed_unit(fi.qualname)
    q = fi.qualname
    fn = fi.node
    withs = [x for x in walk_no_nested(fn) if isinstance(x, ast.With)]
    ok = len(withs) == 1 and isinstance(withs[0].items[0].context_expr, ast.Call) and call_name(withs[0].items[0].context_expr) in ("ProcessPoolExecutor", "ThreadPoolExecutor")
    chk.ob("R20.pmap", q + "::executor-with-block", ok, fi.where(), "work runs inside `with <Executor>(...) as ex`")
    if not ok:
        return
    w = withs[0]
    ex = norm(w.items[0].optional_vars)
    mw = kwarg(w.items[0].context_expr, "max_workers")
    chk.ob("R20.pmap", q + "::worker-count", mw is not None and norm(mw) == "nproc", fi.where(w), "max_workers is the requested nproc")
    maps = [x for x in ast.walk(w) if isinstance(x, ast.Call) and isinstance(x.func, ast.Attribute) and norm(x.func.value) == ex]
    chk.ob("R20.pmap", q + "::ordered-map-only", len(maps) == 1 and maps[0].func.attr == "map", fi.where(w),
           "the only executor API used is the order-preserving map (found %s)" % [m.func.attr for m in maps])
    forbidden = [norm(x.func) for x in walk_no_nested(fn) if isinstance(x, ast.Call) and call_name(x) in ("as_completed", "imap_unordered", "submit", "wait", "apply_async", "map_async")]
    chk.ob("R20.pmap", q + "::no-unordered-collection", not forbidden, fi.where(), "no completion-ordered collection API (%s)" % forbidden)
    if maps:
        m = maps[0]
        ok = [norm(a) for a in m.args[:2]] == ["fn", "iterable"]
        cs = kwarg(m, "chunksize")
        chk.ob("R20.pmap", q + "::map-roles", ok and cs is not None and norm(cs) == "chunksize", fi.where(m), "ex.map(fn, iterable, chunksize=chunksize)")
        # result = list( [pbar(] ex.map(...) [)] ) assigned inside the with, returned after
        res = [x for x in ast.walk(w) if isinstance(x, ast.Assign) and isinstance(x.value, ast.Call) and call_name(x.value) == "list"]
        ok = False
        if len(res) == 1:
            inner = res[0].value.args[0]
            if inner is m:
                ok = True
            elif isinstance(inner, ast.Call) and call_name(inner) in ("pbar", "PBar") and inner.args and inner.args[0] is m:
                ok = True
        chk.ob("R20.pmap", q + "::result-is-list-of-ordered-map", ok, fi.where(), "the result is list(pbar(ex.map(...))) evaluated inside the with-block (all items, input order)")
        rets = [x for x in walk_no_nested(fn) if isinstance(x, ast.Return)]
        ok = len(rets) == 1 and res and norm(rets[0].value) == norm(res[0].targets[0])
        chk.ob("R20.pmap", q + "::returns-that-list", bool(ok), fi.where(), "that list is returned unmodified")
        srt = [norm(x) for x in walk_no_nested(fn) if isinstance(x, ast.Call) and call_name(x) in ("sort", "sorted", "reverse", "reversed", "set", "shuffle")]
        chk.ob("R20.pmap", q + "::no-reordering", not srt, fi.where(), "nothing reorders or de-duplicates the results (%s)" % srt)


# ---------------------------------------------------------------------------
class _Rename(ast.NodeTransformer):
    def __init__(self, m):
        self.m = m

    def visit_Name(self, n):
        if n.id in self.m:
            return ast.copy_location(ast.Name(id=self.m[n.id], ctx=n.ctx), n)
        return n


def keyvalue(chk, repo):
    pk = repo.func("esutil.algorithm.partition_keyvalue")
    pp = repo.func("esutil.algorithm.partition")
    chk.analysed_unit(pk.qualname)
    chk.analysed_unit(pp.qualname)
    q = pk.qualname
    keys, vals = pk.params[0], pk.params[1]
    # pairing: every store keys[i] = keys[j] is immediately followed by vals[i] = vals[j]
    n_pairs = 0

    def visit(stmts):
        nonlocal n_pairs
        for i, s in enumerate(stmts):
            if isinstance(s, ast.Assign) and isinstance(s.targets[0], ast.Subscript) and norm(s.targets[0].value) == keys:
                nxt = stmts[i + 1] if i + 1 < len(stmts) else None
                idx = norm(s.targets[0].slice)
                ok = isinstance(nxt, ast.Assign) and isinstance(nxt.targets[0], ast.Subscript) and norm(nxt.targets[0].value) == vals \
                    and norm(nxt.targets[0].slice) == idx
                if ok:
                    # right-hand sides correspond: keys[j] <-> vals[j], pivot <-> pivot value
                    if isinstance(s.value, ast.Subscript) and norm(s.value.value) == keys:
                        ok = isinstance(nxt.value, ast.Subscript) and norm(nxt.value.value) == vals and norm(nxt.value.slice) == norm(s.value.slice)
                    else:
                        ok = isinstance(nxt.value, ast.Name) and isinstance(s.value, ast.Name)
                n_pairs += 1
                chk.ob("R20.kv", "%s::paired-store::%s" % (q, norm(s)), ok, pk.where(s),
                       "key store `%s` is paired with the same-index value store (next statement: `%s`)" % (norm(s), norm(nxt) if nxt is not None else None))
            for f in ("body", "orelse"):
                if hasattr(s, f) and isinstance(getattr(s, f), list):
                    visit(getattr(s, f))
    visit(pk.node.body)
    chk.ob("R20.kv", q + "::key-stores-found", n_pairs == 3, pk.where(), "three key stores (two exchanges and the pivot placement): %d" % n_pairs)
    # value stores without a key store are forbidden
    vstores = [x for x in ast.walk(pk.node) if isinstance(x, ast.Assign) and isinstance(x.targets[0], ast.Subscript) and norm(x.targets[0].value) == vals]
    chk.ob("R20.kv", q + "::no-unpaired-value-store", len(vstores) == n_pairs, pk.where(), "every value store belongs to a key store (%d vs %d)" % (len(vstores), n_pairs))
    # pivot value taken at the pivot position
    piv = {norm(x.targets[0]): norm(x.value) for x in pk.node.body if isinstance(x, ast.Assign) and isinstance(x.targets[0], ast.Name)}
    kp = [k for k, v in piv.items() if v == "%s[end]" % keys]
    vp = [k for k, v in piv.items() if v == "%s[end]" % vals]
    chk.ob("R20.kv", q + "::pivot-pair", len(kp) == 1 and len(vp) == 1, pk.where(), "pivot key and pivot value are read at the same position")
    # sibling skeleton: drop value statements, rename keys -> data, compare with the plain partition
    a = copy.deepcopy(pk.node)

    def strip_vals(stmts):
        out = []
        for s in stmts:
            if isinstance(s, ast.Assign):
                t = s.targets[0]
                if isinstance(t, ast.Subscript) and norm(t.value) == vals:
                    continue
                if isinstance(t, ast.Name) and vp and t.id == vp[0]:
                    continue
            for f in ("body", "orelse"):
                if hasattr(s, f) and isinstance(getattr(s, f), list):
                    setattr(s, f, strip_vals(getattr(s, f)))
            out.append(s)
        return out
    a.body = strip_vals(a.body)
    a = _Rename({keys: pp.params[0]}).visit(a)
    same = [ast.dump(x) for x in a.body if not _isdoc(x)] == [ast.dump(x) for x in pp.node.body if not _isdoc(x)]
    chk.ob("R20.kv", "partition-siblings-agree", same, pk.where(), "partition_keyvalue minus its value stores is the plain partition (comparisons, cursor moves and exits agree)")
    # recursion wrappers
    for q2, part, nargs in (("esutil.algorithm._quicksort", "partition", 1), ("esutil.algorithm._quicksort_keyvalue", "partition_keyvalue", 2)):
        fi = repo.func(q2)
        chk.analysed_unit(q2)
        arrs = fi.params[:nargs]
        calls = [x for x in walk_no_nested(fi.node) if isinstance(x, ast.Call)]
        texts = [norm(c) for c in calls]
        pre = ", ".join(arrs)
        want = ["%s(%s, start, end)" % (part, pre), "%s(%s, start, split - 1)" % (fi.name, pre), "%s(%s, split + 1, end)" % (fi.name, pre)]
        chk.ob("R20.sort", q2 + "::recursion", sorted(texts) == sorted(want), fi.where(), "partition, then recurse on [start, split-1] and [split+1, end] (%s)" % texts)
        cfg = cfg_of(fi)
        v = cfg.view()
        ok = all(dict(rules.controlling_tests(v, n)).get("start < end") == "T" for n in cfg.nodes for c in rules.stmts_calls(n))
        chk.ob("R20.sort", q2 + "::guard", ok, fi.where(), "recursion only for ranges of two or more elements (start < end)")


def _isdoc(x):
    return isinstance(x, ast.Expr) and isinstance(x.value, ast.Constant) and isinstance(x.value.value, str)


def quicksort(chk, repo):
    for q, callee, n in (("esutil.algorithm.quicksort", "_quicksort", 1), ("esutil.algorithm.quicksort_keyvalue", "_quicksort_keyvalue", 2)):
        fi = repo.func(q)
        chk.analysed_unit(q)
        env = {norm(x.targets[0]): norm(x.value) for x in walk_no_nested(fi.node) if isinstance(x, ast.Assign)}
        calls = [x for x in walk_no_nested(fi.node) if isinstance(x, ast.Call) and call_name(x) == callee]
        ok = len(calls) == 1 and [norm(a) for a in calls[0].args[:n]] == fi.params[:n]
        if ok:
            lo, hi = [env.get(norm(a), norm(a)) for a in calls[0].args[n:n + 2]]
            ok = lo == "0" and hi in ("len(%s) - 1" % p for p in fi.params[:n])
        chk.ob("R20.sort", q + "::whole-range", ok, fi.where(), "the public sort covers the whole input: %s(<arrays>, 0, len-1)" % callee)


# ---------------------------------------------------------------------------
def chunking(chk, repo):
    fi = repo.func("esutil.algorithm.isplit")
    chk.analysed_unit(fi.qualname)
    q = fi.qualname
    fn = fi.node
    env = {}
    for x in walk_no_nested(fn):
        if isinstance(x, ast.Assign):
            env[norm(x.targets[0])] = x.value
    dm = env.get("(neach_section, extras)")
    qn, rn = "neach_section", "extras"
    for k, v in env.items():
        if isinstance(v, ast.Call) and call_name(v) == "divmod" and k.startswith("("):
            dm = v
            qn, rn = [s.strip() for s in k.strip("()").split(",")]
    ok = dm is not None and [norm(a) for a in dm.args] == ["num", "nchunks"]
    chk.ob("R20.isplit", q + "::divmod", ok, fi.where(), "(q, r) = divmod(num, nchunks)")
    sizes = [v for k, v in env.items() if isinstance(v, ast.BinOp) and "[0]" in norm(v)]
    want = "[0] + %s * [%s + 1] + (nchunks - %s) * [%s]" % (rn, qn, rn, qn)
    ok = len(sizes) == 1 and norm(sizes[0]) == want
    chk.ob("R20.isplit", q + "::section-sizes", ok, fi.where(),
           "section sizes are [0] + r*[q+1] + (nchunks-r)*[q]: sizes differ by at most one, larger first, and sum to num by the divmod identity (found %s)" % [norm(s) for s in sizes])
    dp = [k for k, v in env.items() if isinstance(v, ast.Call) and call_name(v) == "cumsum"]
    chk.ob("R20.isplit", q + "::cumulative-division-points", len(dp) == 1, fi.where(), "division points are the cumulative sum of the sizes")
    loops = [x for x in walk_no_nested(fn) if isinstance(x, ast.For)]
    ok = False
    if len(loops) == 1 and dp:
        lp = loops[0]
        i = norm(lp.target)
        body = {norm(b.targets[0]): norm(b.value) for b in lp.body if isinstance(b, ast.Assign)}
        ok = norm(lp.iter) == "range(nchunks)" and body == {"subs['start'][%s]" % i: "%s[%s]" % (dp[0], i), "subs['end'][%s]" % i: "%s[%s + 1]" % (dp[0], i)}
    chk.ob("R20.isplit", q + "::contiguous-ranges", ok, fi.where(), "chunk i is [div[i], div[i+1]): contiguous, in order, covering 0..num")
    cfg = cfg_of(fi)
    okr = any(("nchunks <= 0", "T") in rules.controlling_tests(cfg.view(), n) for n in rules.raise_nodes(cfg))
    chk.ob("R20.isplit", q + "::rejects-nonpositive-nchunks", okr, fi.where(), "nchunks <= 0 is rejected")
    rets = [x for x in walk_no_nested(fn) if isinstance(x, ast.Return)]
    chk.ob("R20.isplit", q + "::returns-subs", len(rets) == 1 and norm(rets[0].value) == "subs" and "nchunks" in norm(env.get("subs", ast.Constant(value=0))), fi.where(),
           "returns the table of nchunks (start, end) ranges")
    # splitarray
    fi = repo.func("esutil.numpy_util.splitarray")
    chk.analysed_unit(fi.qualname)
    q = fi.qualname
    fn = fi.node
    env = {}
    for x in walk_no_nested(fn):
        if isinstance(x, ast.Assign):
            env.setdefault(norm(x.targets[0]), []).append(norm(x.value))
    var = [k for k, v in env.items() if any(s.startswith("np.atleast_1d(") for s in v)]
    ok = len(var) == 1
    v = var[0] if var else "var"
    chk.ob("R20.split", q + "::input-as-array", ok, fi.where(), "the input is viewed as an array (atleast_1d)")
    ok = env.get("nchunks") == ["%s.size // nper" % v]
    incs = [x for x in walk_no_nested(fn) if isinstance(x, ast.AugAssign) and norm(x.target) == "nchunks"]
    cfg = cfg_of(fi)
    view = cfg.view()
    ok2 = False
    if len(incs) == 1 and norm(incs[0].value) == "1":
        n = rules.node_of_stmt(cfg, incs[0])
        ok2 = rules.controlling_tests(view, n) == [("%s.size %% nper != 0" % v, "T")]
    chk.ob("R20.split", q + "::chunk-count-is-ceil", ok and ok2, fi.where(), "nchunks = size // nper, plus one exactly when size % nper != 0 (ceiling division)")
    loops = [x for x in walk_no_nested(fn) if isinstance(x, ast.For)]
    ok = False
    if len(loops) == 1:
        lp = loops[0]
        i = norm(lp.target)
        b = {norm(s.targets[0]): norm(s.value) for s in lp.body if isinstance(s, ast.Assign)}
        app = [s for s in lp.body if isinstance(s, ast.Expr) and isinstance(s.value, ast.Call) and call_name(s.value) == "append"]
        sl = None
        for k, val in b.items():
            if val.startswith(v + "["):
                sl = (k, val)
        start = b.get("start", "")
        end = b.get("end", "")
        ok = norm(lp.iter) == "range(nchunks)" and start in ("%s * nper" % i, "nper * %s" % i) and end in ("(%s + 1) * nper" % i, "nper * (%s + 1)" % i) \
            and sl is not None and sl[1] == "%s[start:end]" % v and len(app) == 1 and norm(app[0].value.args[0]) == sl[0] \
            and not any(isinstance(x, (ast.If, ast.Continue, ast.Break)) for x in ast.walk(lp))
    chk.ob("R20.split", q + "::consecutive-fixed-size-slices", ok, fi.where(), "chunk i is var[i*nper:(i+1)*nper], appended in order, none skipped")
    rets = [x for x in walk_no_nested(fn) if isinstance(x, ast.Return)]
    chk.ob("R20.split", q + "::returns-chunk-list", len(rets) == 1 and norm(rets[0].value) == "chunks", fi.where(), "the list of chunks is returned")
