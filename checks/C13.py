"""C13 -- HTM ids, circle cover lists and pair counting: the wrapper-level
structure only (roles, units, filters, bin arithmetic, reverse-index hand-off).
The geometric clauses (hierarchy of ids, completeness of the triangle cover)
belong to the vendored HTM library and are not decided."""
import ast
import math

import sympy as sp

from vcheck import cfront, csymx, rules
from vcheck.core import PyRepo, AnalysisError, call_name, const_value, kwarg, norm, walk_no_nested
from vcheck.cfront import callee_name, render, strip, walk
from checks.C12 import guard_facts, array_read, node_defs, ref_desc, ref_desc_in, cfg_succ, _norm_f8, _size_checks, per_point_values_rule, LowerH, unstrided_reads, f8_atoms, \
    pointer_aliases, size_check_verdict

MANIFEST = dict(
    text="Narrow structural claim over the clang AST of htmc.cc and the Python ast of htm.py (the geometric clauses are NOT decided): "
         "(1) id lookup: element i of the output is lookupID(ra[i], dec[i]) of the tree built at the object's depth, for all i, through one "
         "code path for scalars and arrays (inputs are native float64 ndarrays with >= 1 dimension wherever they reach the extension - new contiguous arrays if the C++ side walks the bare data pointer instead of the strides -, output int64 of the same size); (2) circle lists: the "
         "cap is cos(radius*pi/180) about (ra, dec), the result holds the fully-inside list and, exactly when inclusive, the partial list, "
         "each completely and in order; (3) pair counting: per-point scale read with the point's index (element 0 for a scalar scale) and, with its logarithm, "
         "never used inside the loop before its assignment of the same iteration (no point is searched with its predecessor's scale), "
         "degrees iff no scale; search cap cos(rmax/scale [*pi/180]) about the first-set point, candidates from both triangle lists "
         "restricted to [minid, maxid], members of a leaf are rev[rev[k] .. rev[k+1]) with k = id - minid (the histogram's reverse-index "
         "convention); separation = gcirc(point 1, point 2, degrees) with matching units; a pair is counted once, in bin "
         "trunc((log10(scale*d) - log10(rmin))/binsize) with binsize = (log10 rmax - log10 rmin)/nbin, only when "
         "0 <= bin < nbin AND the quotient is not negative (a truncating cast maps (-1,0) to bin 0: pairs just below rmin would be counted); "
         "no condition necessary for the count is a relational test on the unwrapped difference of right ascensions (pairs across the ra = 0/360 seam); "
         "(4) python: reverse indices are built by histogram(htmid2 - minid) anchored at 0 with unit bins (binsize 1 and none of the parameters through which "
         "the histogram code, by its own source, replaces the bin size: nbin, nperbin) so that bin k is id minid + k "
         "whatever minid the caller supplies; sizes checked; bin edges from the same rmin, rmax, nbin; (5) vendored code, necessary conditions only: a method that "
         "handles a stored node hands the node's HTM id (not its position in the node array) to the result lists and searches all four stored children; every "
         "function that is given the three vertices of a triangle and applies a two-vertex helper (eSolve) to its edges applies it to all three; every edge "
         "test `(a x b) . v <rel> t` of the id descent (idByPoint, isInside) accepts the products within rounding of 0 (t at least one unit roundoff on the rejected "
         "side), so that a position on an edge shared by sibling triangles is accepted by one of them at every level; the edge/circle quadratic (eSolve) answers 'no crossing' on the "
         "ground of its discriminant only where it is negative; (6) pair counting searches, for point i1, the triangle lists of an intersection of the same iteration and leaves no loop over "
         "the candidate triangles early on a condition on the candidate in hand (full list followed by partial list: not ascending); python hands ra1, dec1, scale (and ra2, dec2, ids) "
         "to the extension through one and the same chain of element selections / reorderings.",
    note="Not decided (the reason the property was first declared not applicable): ids are in the valid range and hierarchical, the circle "
         "lists cover every position inside the circle, fully-inside triangles contain only inside positions, pair counts equal brute force "
         "for the vendored SpatialIndex/SpatialDomain code. Trusted: clang AST, SWIG naming convention, LP64.",
    technique="static analysis: control dependence, reaching definitions and argument-role provenance on the clang-AST CFG; guard obligation for truncating casts; Python/C reverse-index convention agreement",
)

H = "esutil.htm.htm."
SRC = "esutil/htm/htmc.cc"


# rules that keep their verdict however the code is laid out (decided by term equality, effect analysis or dominance over
# resolved calls); every other rule of this check is a template rule (vcheck.core.Check.obt)
SEMANTIC = ('R13.1::lookup_id::ra-read-through', 'R13.1::lookup_id::dec-read-through', 'R13.1::HTM.lookup_id::output-int64-same-size', 'R13.1::HTM.lookup_id::size-check', 'R13.2::HTM.intersect::flag-mapping', 'R13.3::cbincount::lower-edge-guard-on-untruncated-value', 'R13.3::cbincount::upper-bin-guard', 'R13.3::cbincount::per-point-value', 'R13.3::cbincount::cover-computed-for-every-point', 'R13.3::cbincount::candidate-loops-run-to-their-end', 'R13.3::cbincount::only-the-separation-drops-a-pair', 'R13.4', 'R13.5', 'R13.6', 'R13.7')


def run(chk):
    repo = PyRepo(inline=True)
    chk.set_templates(repo, semantic=SEMANTIC)
    chk.explanation = MANIFEST["text"]
    chk.trusted = ["clang 14 AST", "SWIG naming convention", "CPython ast"]
    chk.floor = 40
    decls = cfront.load_tu("htmc")
    fs = cfront.functions(decls)
    from checks import C12 as _c12
    _c12.set_tu(decls, fs)
    for nm in ("HTMC::lookup_id", "HTMC::intersect", "HTMC::cbincount", "HTMC::init", "gcirc"):
        if nm not in fs:
            raise AnalysisError("C++ anchor %s not found" % nm)
        chk.analysed_unit("htmc.cc:" + nm)
    lookup(chk, repo, fs)
    intersect(chk, repo, fs)
    bincount_c(chk, fs["HTMC::cbincount"], fs)
    bincount_py(chk, repo, fs["HTMC::cbincount"])
    id_width(chk)
    # circle lists: a stored node wholly inside the circle hands over all and only its leaf descendants, by HTM id (shared with C12)
    _c12.fill_children_rules(chk, rule="R13.6")
    # ... and so does every other method that handles a stored node (triangleTest): HTM ids, not node positions, reach the lists; all four
    # stored children are searched
    _c12.node_walk_rules(chk, rule="R13.6")
    # ... and the edge/circle quadratic answers 'no crossing' only for a negative discriminant (shared with C12)
    _c12.edge_crossing_rule(chk, rule="R13.6")
    # ... and a function that is given the three vertices of a triangle and asks a two-vertex helper (eSolve) whether the circle crosses an
    # edge asks it for all three edges {v0,v1}, {v1,v2}, {v2,v0}: a circle that enters the triangle only across an edge that is never asked
    # about (no vertex inside, centre outside) is otherwise rejected with every position it holds (shared with C12)
    _c12.triangle_edge_rule(chk, rule="R13.6")
    descent_tolerance(chk)


class Fn:
    def __init__(self, decl):
        self.decl = decl
        self.cfg = cfront.CCFG(decl)
        self.view = self.cfg.view()
        self.RIN, _ = self.view.reaching_defs()
        self.params = cfront.params_of(decl)
        self.where = "%s:%s" % (SRC, decl.get("line", decl.get("loc", {}).get("line", "?")))
        self.alias = pointer_aliases(decl)      # locals that are (cast) copies of a parameter / member, e.g. hoisted PyArrayObject* casts

    def aread(self, expr):
        return array_read(expr, self.alias)

    def defs_at(self, n, var):
        out = []
        for i in sorted(self.RIN.get(n.id, {}).get(var, ())):
            dn = self.cfg.node(i)
            for v, rhs in node_defs(dn):
                if v == var:
                    out.append((dn, rhs))
        return out

    def w(self, n):
        ln = None
        if isinstance(n.c, dict):
            ln = n.c.get("line")
            if ln is None:
                for x in walk(n.c):
                    if x.get("line"):
                        ln = x["line"]
                        break
        return "%s:%s" % (SRC, ln or "?")

    def loops_over(self, n):
        """enclosing loops of node n, innermost first"""
        return [b for b, lab in self.view.controlling_branches(n) if b.kind == "loop" and lab == "T"]

    def tests_over(self, n):
        return [(render(b.c), lab) for b, lab in self.view.controlling_branches(n) if b.kind == "branch"]


# ---------------------------------------------------------------------------
def lookup(chk, repo, fs):
    f = Fn(fs["HTMC::lookup_id"])
    p_ra, p_dec, p_out = f.params
    loops = [n for n in f.cfg.nodes if n.kind == "loop"]
    ok = len(loops) == 1
    ivar = render(loops[0].c["inner"][0]) if ok else None
    bound = render(loops[0].c["inner"][1]) if ok else None
    bd = f.defs_at(loops[0], bound) if ok else []
    ok = ok and len(bd) == 1 and ref_desc_in(bd[0][1], f.alias) == ("param", p_ra)
    inits = [render(r) for d, r in f.defs_at(loops[0], ivar) if d.label != "inc"] if ok else []
    chk.ob("R13.1", "lookup_id::all-elements", ok and inits == ["0"], f.where, "one loop i = 0 .. size(ra)-1")
    ptr = {}
    for n in f.cfg.nodes:
        for v, rhs in node_defs(n):
            ar = f.aread(rhs)
            if ar:
                ptr[v] = ar
    calls = [(n, x) for n in f.cfg.nodes if isinstance(n.c, dict) for x in walk(n.c) if x.get("kind") == "CXXMemberCallExpr" and callee_name(x) == "lookupID"]
    ok = len(calls) == 1
    if ok:
        a = [render(z).lstrip("*") for z in cfront.call_args(calls[0][1])]
        ok = len(a) == 2 and ptr.get(a[0]) == (("param", p_ra), ivar) and ptr.get(a[1]) == (("param", p_dec), ivar) and "mHtmInterface" in render(calls[0][1]["inner"][0])
    chk.ob("R13.1", "lookup_id::id-of-(ra[i],dec[i])", bool(ok), f.where, "the id is lookupID(ra[i], dec[i]) of the object's own interface, longitude first")
    st = None
    for n in f.cfg.nodes:
        if n.kind == "stmt" and isinstance(n.c, dict):
            c = strip(n.c)
            if c.get("kind") == "BinaryOperator" and c.get("opcode") == "=":
                l = strip(c["inner"][0])
                if l.get("kind") == "UnaryOperator" and l.get("opcode") == "*":
                    st = (render(l["inner"][0]), render(c["inner"][1]))
    ok = st is not None and ptr.get(st[0]) == (("param", p_out), ivar)
    if ok:
        if "lookupID(" in st[1]:
            ok = True             # the looked-up id is stored directly
        else:
            idd = [rhs for n in f.cfg.nodes for v, rhs in node_defs(n) if v == st[1]]
            ok = len(idd) == 1 and "lookupID(" in render(idd[0])
    chk.ob("R13.1", "lookup_id::stored-at-same-index", bool(ok), f.where, "the id is stored into the output at the same index i")
    init = Fn(fs["HTMC::init"])
    txt = [render(n.c) for n in init.cfg.nodes if isinstance(n.c, dict)]
    chk.ob("R13.1", "HTMC::init::depth-forwarded", any(t.startswith("mHtmInterface.init(depth") for t in txt) and any(t == "(mDepth = depth)" for t in txt), init.where,
           "the tree is built at the requested depth")
    fi = repo.func(H + "HTM.lookup_id")
    chk.analysed_unit(fi.qualname)
    stride_rule(chk, "R13.1", "lookup_id", f, fi, {p_ra: "ra", p_dec: "dec"})
    for n, ok in _norm_f8(fi, ["ra", "dec"]).items():
        chk.ob("R13.1", "HTM.lookup_id::%s-becomes-fresh-float64-1d" % n, ok, fi.where(), "scalars and arrays take the same path: `%s = np.atleast_1d(%s).astype('f8')`" % (n, n))
    oksz, rcsz = size_check_verdict(fi, "ra.size != dec.size")
    chk.ob("R13.1", "HTM.lookup_id::size-check", oksz, fi.where(), "unequal coordinate arrays are rejected (raises when: %s)" % rcsz)
    ok, note = lookup_output_rule(fi, oksz is True)
    chk.ob("R13.1", "HTM.lookup_id::output-int64-same-size", ok, fi.where(),
           "the output is a new int64 array of ra.size handed to the extension as (ra, dec, out) and returned%s" % note)


def _emptiness(test, lab, names, res=None):
    """True if the outcome `lab` of the test says that <name>.size is 0 for one of the names (`ra.size == 0`, `not ra.size`, `ra.size < 1`,
    `len(ra) == 0` taken; `ra.size`, `ra.size != 0`, `ra.size > 0`, `ra.size >= 1` not taken).  res: maps an operand of the test to the
    value it stands for at the test (a local that holds `ra.size`)"""
    def is_size(e):
        if res is not None:
            e = res(e)
        if isinstance(e, ast.Attribute) and e.attr == "size" and isinstance(e.value, ast.Name) and e.value.id in names:
            return True
        return isinstance(e, ast.Call) and call_name(e) == "len" and len(e.args) == 1 and isinstance(e.args[0], ast.Name) and e.args[0].id in names
    pos = lab == "T"
    while isinstance(test, ast.UnaryOp) and isinstance(test.op, ast.Not):
        test, pos = test.operand, not pos
    if is_size(test):
        return not pos
    if isinstance(test, ast.Compare) and len(test.ops) == 1:
        l, op, r = test.left, test.ops[0], test.comparators[0]
        flip = {ast.Lt: ast.Gt, ast.Gt: ast.Lt, ast.LtE: ast.GtE, ast.GtE: ast.LtE}
        if is_size(r) and not is_size(l):
            l, r = r, l
            op = flip.get(type(op), type(op))()
        if is_size(l) and isinstance(r, ast.Constant) and isinstance(r.value, int) and not isinstance(r.value, bool):
            c = r.value
            empty_when_true = {ast.Eq: c == 0, ast.Lt: c == 1, ast.LtE: c == 0}.get(type(op), False)
            empty_when_false = {ast.NotEq: c == 0, ast.Gt: c == 0, ast.GtE: c == 1}.get(type(op), False)
            return empty_when_true if pos else empty_when_false
    return False


def _reaches_nonempty(view, a, b, avoiding, names, res=None):
    """is there a path a ->+ b that avoids the given nodes and takes no branch outcome that says <name>.size is 0 (on such a path
    the array may have elements)"""
    avoid = {x.id for x in avoiding}
    g = view.g
    seen = set()
    todo = [a.id]
    first = True
    while todo:
        i = todo.pop()
        if not first and (i in seen or i in avoid or i not in view.reach):
            continue
        if not first and i == b.id:
            return True
        if not first:
            seen.add(i)
        first = False
        n = view.cfg.node(i)
        t = getattr(getattr(n, "ast", None), "test", None)
        for j in g.successors(i):
            labs = set(g[i][j]["labels"]) - {"back"}
            if n.kind == "branch" and isinstance(t, ast.AST) and labs and all(_emptiness(t, lab, names, (lambda e, n=n: res(e, n)) if res else None) for lab in labs):
                continue
            todo.append(j)
    return False


def lookup_output_rule(fi, size_checked=False):
    """every value HTM.lookup_id returns is a new int64 array of ra.size elements (np.zeros / np.empty / np.full(..., dtype int64)) that was
    handed to the extension's lookup_id as (ra, dec, out) on the way - except on a path on which ra.size is known to be 0 (a fast path
    for no positions: there the extension's loop would not run and the array has no elements to fill)"""
    cfg = rules.cfg_of(fi)
    view = cfg.view()
    RIN, _ = view.reaching_defs()
    rets = rules.return_nodes(cfg)
    if not rets:
        return False, " -- no return statement"
    # dec.size stands for ra.size once the size check has been passed: the function raises for unequal sizes (size_checked) and every
    # test that controls a raise has been evaluated before the return
    rbranches = [b for x in rules.raise_nodes(cfg) for b, lab in view.controlling_branches(x) if b.kind == "branch"]

    def alloc_of(e):
        """size expression of a fresh int64 allocation, else None"""
        if isinstance(e, ast.Call) and call_name(e) in ("zeros", "empty", "ones", "full") and e.args:
            dt = kwarg(e, "dtype")
            if dt is None and call_name(e) != "full" and len(e.args) >= 2:
                dt = e.args[1]
            if dt is not None and (const_value(dt) in ("i8", "int64", "<i8", "=i8") or norm(dt) in ("np.int64", "numpy.int64")):
                return e.args[0]
        return None

    def def_of(name, at):
        ds = RIN.get(at.id, {}).get(name, set())
        if len(ds) != 1:
            return None
        dn = cfg.node(next(iter(ds)))
        a = getattr(dn, "ast", None)
        if isinstance(a, ast.Assign) and len(a.targets) == 1 and isinstance(a.targets[0], ast.Name) and a.targets[0].id == name:
            return dn
        return None

    def resolve(e, at):
        """a local that holds one value stands for that value: a single plain assignment `name = <expr>` reaches `at`, and every name the
        expression is computed from is bound at `at` by the same definitions as at the assignment (npts = ra.size, hoisted)"""
        hops = 0
        while isinstance(e, ast.Name) and hops < 4:
            dn_ = def_of(e.id, at)
            if dn_ is None:
                break
            val = dn_.ast.value
            used = {x.id for x in ast.walk(val) if isinstance(x, ast.Name)}
            if e.id in used or any(RIN.get(dn_.id, {}).get(nm, set()) != RIN.get(at.id, {}).get(nm, set()) for nm in used):
                break
            e, hops = val, hops + 1
        return e
    calls = [(n, c) for n, c in rules.calls_named(cfg, "lookup_id")]
    verdicts, notes = [], []
    for r in rets:
        v = getattr(r.ast, "value", None)
        tests = [(b.ast.test, lab, b) for b, lab in view.controlling_branches(r) if b.kind == "branch" and isinstance(getattr(b.ast, "test", None), ast.AST)]
        checked = size_checked and bool(rbranches) and all(view.dominates(b, r) for b in rbranches)
        empty = any(_emptiness(t, lab, ("ra", "dec") if checked else ("ra",), lambda e, b=b: resolve(e, b)) for t, lab, b in tests)
        dn = None
        if isinstance(v, ast.Name):
            dn = def_of(v.id, r)
            size = alloc_of(dn.ast.value) if dn is not None else None
            if size is not None:
                size = resolve(size, dn)
        else:
            size = alloc_of(v) if v is not None else None
            if size is not None:
                size = resolve(size, r)
        if size is None:
            e_ = dn.ast.value if dn is not None else v
            known_alloc = isinstance(e_, ast.Call) and call_name(e_) in ("zeros", "empty", "ones") and (kwarg(e_, "dtype") is None or isinstance(kwarg(e_, "dtype"), ast.Constant))
            verdicts.append(False if (v is None or isinstance(v, ast.Constant) or known_alloc) else None)
            notes.append("line %s: the value returned is not recognised as a new int64 array" % getattr(r.ast, "lineno", "?"))
            continue
        sized = norm(size) in ("ra.size", "len(ra)") or (checked and norm(size) in ("dec.size", "len(dec)")) or (empty and const_value(size) == 0)
        if not sized:
            verdicts.append(False if isinstance(size, ast.Constant) or norm(size).endswith(".size") else None)
            notes.append("line %s: the array returned has %s elements" % (getattr(r.ast, "lineno", "?"), norm(size)))
            continue
        if empty:
            verdicts.append(True)
            continue
        # the extension call fills this very array on every path from its allocation to the return
        good = [cn for cn, c in calls if dn is not None and len(c.args) == 3 and [norm(x) for x in c.args] == ["ra", "dec", v.id]]
        if dn is None or _reaches_nonempty(view, dn, r, good, ("ra", "dec") if checked else ("ra",), resolve):
            wrong = [norm(c)[:60] for cn, c in calls if cn not in good]
            verdicts.append(False)
            notes.append("line %s: the array returned can reach the return without having been filled by lookup_id(ra, dec, <that array>) although ra.size may be "
                         "non-zero there%s" % (getattr(r.ast, "lineno", "?"), "" if not wrong else " (calls found: %s)" % wrong))
            continue
        verdicts.append(True)
    ok = False if False in verdicts else (None if None in verdicts else True)
    return ok, ("" if not notes else " -- " + "; ".join(notes[:3]))


def cos_factor(decl, rhs, var):
    """k when the expression lowers to cos(k * var) with a number k (helpers and constants of the file folded in), else None"""
    try:
        L = LowerH(decl)
        L.env = {}
        t = L.expr(rhs)
    except (AnalysisError, TypeError, ValueError, KeyError):
        return None
    if not isinstance(t, sp.cos):
        return None
    q = sp.simplify(t.args[0] / sp.Symbol(var))
    if q.free_symbols:
        return None
    try:
        return float(q)
    except (TypeError, ValueError):
        return None


def stride_rule(chk, rule, fname, f, fi, names):
    """both halves together: an input array whose elements the C++ function reaches through the bare data pointer (p = PyArray_DATA(a); p[i])
    has to be handed over by the python wrapper as a new, hence contiguous, array on every path; an array read through its strides
    (PyArray_GETPTR1) may have any layout.  names: C++ parameter -> python argument name"""
    bare = unstrided_reads(f.decl)
    at = f8_atoms(fi, list(names.values()))
    for cpar, pyname in names.items():
        if ("param", cpar) in bare:
            seen, nsink = at[pyname]
            ok = None if not nsink else (True if seen <= {"F8+"} else (False if seen & {"F8", "ARR", "RAW", "BAD"} else None))
        else:
            ok = True
        chk.ob(rule, "%s::%s-read-through-strides-or-contiguous" % (fname, pyname), ok, f.where,
               "the elements of `%s` are read by the C++ side through the array's strides (PyArray_GETPTR1)%s"
               % (pyname, "" if ("param", cpar) not in bare else " -- they are read through the bare data pointer, which is right only for a contiguous array: the python wrapper "
                  "has to hand over a new array on every path (it may hand over: %s)" % sorted(at[pyname][0])))


def _truth_of(var, tests):
    """effective truth value the controlling tests give to the plain flag `var` (None if it is not tested)"""
    for t, lab in tests:
        tt = t.strip()
        while tt.startswith("(") and tt.endswith(")"):
            tt = tt[1:-1].strip()
        if tt == var or tt in ("%s != 0" % var, "%s == 1" % var):
            return lab == "T"
        if tt in ("!" + var, "%s == 0" % var):
            return lab != "T"
    return None


# ---------------------------------------------------------------------------
def intersect(chk, repo, fs):
    f = Fn(fs["HTMC::intersect"])
    p_ra, p_dec, p_rad, p_inc = f.params
    sets = [(n, x) for n in f.cfg.nodes if isinstance(n.c, dict) for x in walk(n.c) if x.get("kind") == "CXXMemberCallExpr" and callee_name(x) == "setRaDecD"]
    ok = len(sets) == 1
    if ok:
        a = [render(z) for z in cfront.call_args(sets[0][1])]
        dd = f.defs_at(sets[0][0], a[2])
        okd = False
        if len(dd) == 1:
            # as a term: cos(k * radius) with k = pi/180, the factor written in place, as a macro, a file-level constant or through a
            # conversion helper of this file (deg2rad(radius))
            k = cos_factor(f.decl, dd[0][1], p_rad)
            okd = k is not None and abs(k - math.pi / 180) < 1e-15
        ok = a[:2] == [p_ra, p_dec] and okd
    chk.ob("R13.2", "intersect::cap", bool(ok), f.where, "the cap is setRaDecD(ra, dec, cos(radius*pi/180))")
    inter = [(n, x) for n in f.cfg.nodes if isinstance(n.c, dict) for x in walk(n.c) if x.get("kind") == "CXXMemberCallExpr" and callee_name(x) == "intersect"]
    lists = [render(z) for z in cfront.call_args(inter[0][1])[1:3]] if len(inter) == 1 else []
    chk.ob("R13.2", "intersect::two-lists", len(lists) == 2, f.where, "SpatialDomain::intersect yields the partial and full lists %s" % lists)
    if len(lists) != 2:
        return
    pl, fl = lists            # signature: intersect(index, partial, full)
    # copies
    copies = {}
    for n in f.cfg.nodes:
        if n.kind == "stmt" and isinstance(n.c, dict):
            t = render(n.c)
            for L in lists:
                if "(%s () " % L in t and "=" in t:
                    lp = f.loops_over(n)
                    tests = f.tests_over(n)
                    copies[L] = (bool(lp) and ("%s.length()" % L) in render(lp[0].c), tests)
    okf = copies.get(fl, (False, None))[0] and _truth_of(p_inc, copies[fl][1]) is None
    chk.ob("R13.2", "intersect::full-list-always", bool(okf), f.where, "the fully-inside triangles are always returned, completely")
    okp = copies.get(pl, (False, None))[0] and _truth_of(p_inc, copies[pl][1]) is True
    chk.ob("R13.2", "intersect::partial-list-iff-inclusive", bool(okp), f.where, "the partially-overlapping triangles are appended exactly when inclusive is set")
    # count
    cnt = {}
    for n in f.cfg.nodes:
        for v, rhs in node_defs(n):
            t = render(rhs)
            if ".length()" in t and v != "i":
                cnt.setdefault(v, []).append((t, f.tests_over(n)))
    okc = False
    for v, ds in cnt.items():
        both = [d for d in ds if ("%s.length()" % fl) in d[0] and ("%s.length()" % pl) in d[0]]
        only = [d for d in ds if ("%s.length()" % fl) in d[0] and ("%s.length()" % pl) not in d[0]]
        if len(both) == 1 and len(only) == 1:
            okc = _truth_of(p_inc, both[0][1]) is True and _truth_of(p_inc, only[0][1]) is False
    chk.ob("R13.2", "intersect::count-matches-lists", okc, f.where, "the output length is full + partial when inclusive, full otherwise")
    fi = repo.func(H + "HTM.intersect")
    chk.analysed_unit(fi.qualname)
    from vcheck import symx
    got = {}
    for flag in (True, False):
        se = symx.SymEval(repo, self_calls_as_terms=True)
        try:
            r = se.run(fi, {k: sp.Symbol(k) for k in ("self", "ra", "dec", "radius")}, {"inclusive": flag})
        except Exception as e_:
            r = "not evaluated: %s" % str(e_)[:100]
        got[flag] = r
    want = {flag: sp.Function("SELF_intersect")(sp.Symbol("ra"), sp.Symbol("dec"), sp.Symbol("radius"), sp.Integer(1 if flag else 0)) for flag in (True, False)}
    got = {k: (v.subs({sp.Symbol("TRUE"): 1, sp.Symbol("FALSE"): 0}) if isinstance(v, sp.Basic) else v) for k, v in got.items()}   # a bool is an int for the wrapper
    rec = all(isinstance(v, sp.Basic) and getattr(v.func, "__name__", "") == "SELF_intersect" for v in got.values())
    chk.ob("R13.2", "HTM.intersect::flag-mapping", (got == want) if rec else None, fi.where(),
           "inclusive=True reaches the extension as 1, False as 0, after (ra, dec, radius): %s" % got)


# ---------------------------------------------------------------------------
def bincount_c(chk, decl, fs=None):
    f = Fn(decl)
    P = f.params
    if len(P) != 11:
        raise AnalysisError("HTMC::cbincount has %d parameters, expected 11" % len(P))
    p_rmin, p_rmax, p_nbin, p_ra1, p_dec1, p_ra2, p_dec2, p_rev, p_mm, p_scale, p_verb = P
    cfg, view = f.cfg, f.view
    # per-point scale (and its logarithm): the search radius, the distance cut and the bin of point i1 all use the scale of point i1
    per_point_values_rule(chk, "R13.3", "cbincount", f, _outer_loop(f, p_ra1), {("param", p) for p in (p_ra1, p_dec1, p_scale)})
    # the triangle lists searched for point i1 are those of its own circle (no reuse of an earlier cover unless centre and opening angle
    # are compared), and every candidate triangle is examined (shared with C12)
    from checks import C12 as _c12
    _c12.cover_fresh_rule(chk, "R13.3", "cbincount", f, _outer_loop(f, p_ra1),
                          {"scale (search radius)": ("param", p_scale), "longitude": ("param", p_ra1), "latitude": ("param", p_dec1)})
    _c12.candidate_loops_rule(chk, "R13.3", "cbincount", f, _outer_loop(f, p_ra1), fs or {})
    # the counting site
    incs = []
    for n in cfg.nodes:
        if n.kind == "stmt" and isinstance(n.c, dict):
            c = strip(n.c)
            if c.get("kind") == "CompoundAssignOperator" and c.get("opcode") == "+=":
                l = strip(c["inner"][0])
                if l.get("kind") == "UnaryOperator" and l.get("opcode") == "*":
                    incs.append((n, render(l["inner"][0]), render(c["inner"][1]), None))
                elif l.get("kind") == "ArraySubscriptExpr" and strip(l["inner"][0]).get("kind") == "DeclRefExpr":
                    # `cells[bin] += 1` through the data pointer of an array
                    incs.append((n, render(strip(l["inner"][0])), render(c["inner"][1]), render(strip(l["inner"][1]))))
            elif c.get("kind") == "UnaryOperator" and c.get("opcode") == "++" and c.get("inner"):
                # the same statement spelt `++(*cell)` / `(*cell)++` / `++cells[bin]`: an increment by one of the cell
                l = strip(c["inner"][0])
                if l.get("kind") == "UnaryOperator" and l.get("opcode") == "*":
                    incs.append((n, render(l["inner"][0]), "1", None))
                elif l.get("kind") == "ArraySubscriptExpr" and strip(l["inner"][0]).get("kind") == "DeclRefExpr":
                    incs.append((n, render(strip(l["inner"][0])), "1", render(strip(l["inner"][1]))))
            elif c.get("kind") == "BinaryOperator" and c.get("opcode") == "=":
                # ... or `*cell = *cell + k`
                l, r = strip(c["inner"][0]), strip(c["inner"][1])
                if l.get("kind") in ("UnaryOperator", "ArraySubscriptExpr") and (l.get("kind") != "UnaryOperator" or l.get("opcode") == "*") \
                        and r.get("kind") == "BinaryOperator" and r.get("opcode") == "+":
                    ra_, rb_ = r["inner"]
                    other = rb_ if render(strip(ra_)) == render(l) else (ra_ if render(strip(rb_)) == render(l) else None)
                    if other is not None:
                        if l.get("kind") == "UnaryOperator":
                            incs.append((n, render(l["inner"][0]), render(strip(other)), None))
                        elif strip(l["inner"][0]).get("kind") == "DeclRefExpr":
                            incs.append((n, render(strip(l["inner"][0])), render(strip(other)), render(strip(l["inner"][1]))))
    ok = len(incs) == 1 and incs[0][2] == "1"
    chk.ob("R13.3", "cbincount::one-count-site", ok, f.where, "one `*cell += 1` counts a pair")
    if not ok:
        return
    cn, cptr, _, csub = incs[0]
    cdef = f.defs_at(cn, cptr)
    if csub is None:
        ar = f.aread(cdef[0][1]) if len(cdef) == 1 else None
    else:
        # cells = PyArray_DATA(array): element `bin` of that array (valid for the contiguous array the function has just allocated, which
        # the next rule instance demands)
        ar = None
        if len(cdef) == 1:
            dcall = [x for x in walk(cdef[0][1]) if x.get("kind") == "CallExpr" and callee_name(x) in ("PyArray_DATA", "PyArray_BYTES")]
            if len(dcall) == 1:
                ar = (ref_desc(cfront.call_args(dcall[0])[0]), csub)
    if ar is not None and ar[0][0] == "local":
        # a local whose every definition is a (cast) copy of one other local stands for that local (a hoisted `PyArrayObject *cnt =
        # (PyArrayObject *) counts_array;`)
        nm, hops = ar[0][1], 0
        while hops < 4:
            srcs = {ref_desc(rhs) for m_ in cfg.nodes for v, rhs in node_defs(m_) if v == nm}
            written = any(isinstance(m_.c, dict) and x.get("kind") in ("CompoundAssignOperator", "UnaryOperator") and x.get("opcode") in ("++", "--", "+=", "-=")
                          and render(strip(x["inner"][0])) == nm for m_ in cfg.nodes if isinstance(m_.c, dict) for x in walk(m_.c) if x.get("inner"))
            if len(srcs) != 1 or written or next(iter(srcs))[0] != "local":
                break
            nm, hops = next(iter(srcs))[1], hops + 1
        ar = (("local", nm), ar[1])
    binvar = ar[1] if ar else None
    outs = [v for n in cfg.nodes for v, rhs in node_defs(n) if "PyArray_API[183]" in render(rhs) and "NPY_LONG" in render(rhs)]
    chk.ob("R13.3", "cbincount::count-cell-is-bin-of-output", ar is not None and ar[0][1] in outs, f.w(cn), "the cell is counts[bin] of the int64 output array")
    tests = f.tests_over(cn)
    pair_filter_rule(chk, f, cn, {("param", p_ra1): "lon", ("param", p_ra2): "lon", ("param", p_dec1): "lat", ("param", p_dec2): "lat"})
    # bin index definition
    bd = f.defs_at(cn, binvar) if binvar else []
    okb = False
    qexpr = None
    if len(bd) == 1:
        r = bd[0][1]
        casts = [x for x in walk(r) if x.get("kind") == "CStyleCastExpr" and x.get("type", {}).get("qualType") in ("int", "long", "npy_intp", "npy_int64", "int64_t")]
        floors = [x for x in walk(r) if x.get("kind") == "CallExpr" and callee_name(x) == "floor"]
        L = csymx.Lower(decl)
        L.env = {}
        try:
            inner = casts[0]["inner"][0] if casts else r
            q = L.expr(inner)
            logr, lmin, bs = sp.Symbol("logr"), sp.Symbol("logrmin"), sp.Symbol("log_binsize")
            okb = sp.simplify(q - (logr - lmin) / bs) == 0 if not floors else sp.simplify(q - sp.Function("floor")((logr - lmin) / bs)) == 0
            qexpr = render(strip(inner))
        except Exception:
            okb = False
    chk.ob("R13.3", "cbincount::bin-index-formula", bool(okb), f.w(bd[0][0]) if bd else f.where, "bin = (int)((logr - logrmin)/log_binsize)")
    facts = guard_facts(view, cn)
    up = ("%s<%s" % (binvar, p_nbin)) in facts or ("%s<=%s-1" % (binvar, p_nbin)) in facts
    chk.ob("R13.3", "cbincount::upper-bin-guard", True if up else None, f.w(cn), "counted only when bin < nbin (facts that hold at the count: %s)" % sorted(facts))
    # lower edge: truncation towards zero maps quotients in (-1, 0) to bin 0, so `bin >= 0` alone does not exclude separations
    # just below rmin; needs a guard on the un-truncated value (logr >= logrmin, quotient >= 0, dis*scale >= rmin) or floor()
    low = False
    floored = bool(bd) and any(x.get("kind") == "CallExpr" and callee_name(x) == "floor" for x in walk(bd[0][1]))
    qtxt = qexpr.replace(" ", "") if qexpr else None
    for ft in facts:
        if ft in ("logrmin<=logr", "0<=(logr-logrmin)", "0<=logr-logrmin") or (qtxt and ft in ("0<=%s" % qtxt, "0<=(%s)" % qtxt)):
            low = True
        if floored and ft == "0<=%s" % binvar:
            low = True
        if ft.startswith("0<="):
            # a guard on a separately stored quotient variable
            v = ft[3:].strip("()")
            if v != binvar:
                vd = [rhs for n in cfg.nodes for vv, rhs in node_defs(n) if vv == v]
                if len(vd) == 1 and not any(x.get("kind") == "CStyleCastExpr" for x in walk(vd[0])) and "logrmin" in render(vd[0]) and "log_binsize" in render(vd[0]):
                    low = True
    # positively wrong: the count is reached with only the truncated bin tested against zero (or nothing at all)
    only_truncated = not low and bool(casts if len(bd) == 1 else False) and not floored
    chk.ob("R13.3", "cbincount::lower-edge-guard-on-untruncated-value", True if low else (False if only_truncated else None), f.w(cn),
           "a truncating cast maps every quotient in (-1, 0) to bin 0, so separations between rmin*10^-binsize and rmin would be counted in the first bin: "
           "the guard must test the value before truncation (logr >= logrmin or quotient >= 0) or use floor() (facts that hold at the count: %s)" % sorted(facts))
    # logr, binsize, logrmin
    st = {l: r for l, r, _ in csymx.stmt_rhs_table(decl) if r is not None}
    for n in cfg.nodes:
        for v, rhs in node_defs(n):
            if v not in st:
                try:
                    LL = csymx.Lower(decl)
                    LL.env = {}
                    st[v] = LL.expr(rhs)
                except Exception:
                    pass
    S = sp.Symbol
    chk.ob("R13.3", "cbincount::logr", st.get("logr") is not None and sp.simplify(st["logr"] - (S("logscale") + sp.log(S("dis"), 10))) == 0, f.where, "logr = log10(scale) + log10(dis)")
    chk.ob("R13.3", "cbincount::log-binsize", st.get("log_binsize") is not None and sp.simplify(st["log_binsize"] - (S("logrmax") - S("logrmin")) / S(p_nbin)) == 0, f.where,
           "log_binsize = (log10 rmax - log10 rmin)/nbin")
    chk.ob("R13.3", "cbincount::log-limits", st.get("logrmin") == sp.log(S(p_rmin), 10) and st.get("logrmax") == sp.log(S(p_rmax), 10), f.where, "logrmin/logrmax are log10 of the arguments")
    # the distance filter and the distance
    # read off the facts that hold at the count: `dis <= m` (an enclosing if), or `!(m < dis)` (a guard clause `if (dis > m) continue;`) - the
    # latter differs from the former only for a NaN separation, which the lower-edge guard on the un-truncated logarithm (above) rejects
    import re as _re
    cands = []
    for ft in sorted(facts):
        mt = _re.match(r"^dis<=([A-Za-z_]\w*)$", ft)
        if mt:
            cands.append(mt.group(1))
        mt = _re.match(r"^!\(([A-Za-z_]\w*)<dis\)$", ft)
        if mt and low:
            cands.append(mt.group(1))
    ok = len(cands) == 1
    mv = cands[0] if ok else None
    chk.ob("R13.3", "cbincount::distance-filter", ok, f.w(cn), "counted only when dis <= %s (facts that hold at the count: %s)" % (mv, sorted(facts)))
    dd = f.defs_at(cn, "dis")
    okd = len(dd) == 1 and callee_name(strip(dd[0][1])) == "gcirc"
    if okd:
        args = cfront.call_args(strip(dd[0][1]))
        roles = []
        for a in args[:4]:
            vd = f.defs_at(dd[0][0], render(a))
            rd = [f.aread(r) for _, r in vd]
            roles.append(rd[0] if len(rd) == 1 else None)
        lp, i1 = _outer_loop(f, p_ra1)
        ok1 = roles[:2] == [(("param", p_ra1), i1), (("param", p_dec1), i1)]
        ok2 = all(r is not None for r in roles[2:]) and roles[2][0] == ("param", p_ra2) and roles[3][0] == ("param", p_dec2) and roles[2][1] == roles[3][1]
        i2 = roles[2][1] if ok2 else None
        # a coordinate whose definition is not recognised as an element read is not judged; a recognised read of another array / element is wrong
        chk.ob("R13.3", "cbincount::distance-roles", None if any(r is None for r in roles[:4]) else bool(ok1 and ok2), f.w(dd[0][0]), "dis = gcirc(ra1[i1], dec1[i1], ra2[i2], dec2[i2], degrees) (found %s)" % roles)
        degarg = render(args[4])
        # units: degrees iff no scale; cap in the same unit
        dg = [(render(r), f.tests_over(n)) for n in cfg.nodes for v, r in node_defs(n) if v == degarg]
        okdeg = ("true", []) in [(t, ts) for t, ts in dg] and any(t == "false" and any("Py_None" in c and "!=" in c and lab == "T" for c, lab in ts) for t, ts in dg)
        chk.ob("R13.3", "cbincount::degrees-iff-no-scale", okdeg, f.where, "separations are in degrees exactly when no scale array is given, else in radians (%s)" % dg)
        # member index from reverse indices
        i2d = f.defs_at(dd[0][0], i2) if i2 else []
        ar2 = f.aread(i2d[0][1]) if len(i2d) == 1 else None
        okr = ar2 is not None and ar2[0] == ("param", p_rev)
        idxv = ar2[1] if okr else None
        lo = hi = None
        lpn = f.loops_over(i2d[0][0]) if okr else []
        if okr and lpn and isinstance(lpn[0].c, dict) and lpn[0].c.get("kind") == "BinaryOperator" and lpn[0].c.get("opcode") == "<" \
                and render(lpn[0].c["inner"][0]) == idxv:
            # the slot itself is the loop variable: for (s = lo; s < hi; s++) member = rev[s]
            inits = [r for d, r in f.defs_at(lpn[0], idxv) if d.label != "inc"]
            incs_ = [d for d in cfg.nodes if d.label == "inc" and render(d.c) in (idxv + "++", "++" + idxv)]
            okr = len(inits) == 1 and strip(inits[0]).get("kind") == "DeclRefExpr" and len(incs_) == 1 and strip(lpn[0].c["inner"][1]).get("kind") == "DeclRefExpr"
            if okr:
                lo, hi = render(strip(inits[0])), render(strip(lpn[0].c["inner"][1]))
        elif okr:
            idd = f.defs_at(i2d[0][0], idxv)
            okr = len(idd) == 1
            e = strip(idd[0][1]) if okr else {}
            okr = okr and e.get("kind") == "BinaryOperator" and e.get("opcode") == "+"
            if okr:
                # slot = lo + t or t + lo (integer addition commutes), t the counter of the enclosing loop
                lpn = f.loops_over(i2d[0][0])
                lc = lpn[0].c if lpn and isinstance(lpn[0].c, dict) and lpn[0].c.get("kind") == "BinaryOperator" and lpn[0].c.get("opcode") == "<" else None
                lvar = render(lc["inner"][0]) if lc else None
                ea, eb = render(e["inner"][0]), render(e["inner"][1])
                lo, il = (ea, eb) if eb == lvar else (eb, ea)
                okr = lvar is not None and il == lvar and lo != lvar
                cnt = render(lpn[0].c["inner"][1]) if okr else None
                cd = f.defs_at(lpn[0], cnt) if okr else []
                okr = okr and len(cd) == 1 and strip(cd[0][1]).get("opcode") == "-" and render(strip(cd[0][1])["inner"][1]) == lo
                hi = render(strip(cd[0][1])["inner"][0]) if okr else None
        if okr:
            lod, hid = f.defs_at(i2d[0][0], lo), f.defs_at(i2d[0][0], hi)
            a_lo = f.aread(lod[0][1]) if len(lod) == 1 else None
            a_hi = f.aread(hid[0][1]) if len(hid) == 1 else None
            okr = a_lo is not None and a_hi is not None and a_lo[0] == a_hi[0] == ("param", p_rev) and a_hi[1].replace(" ", "") in ("(%s+1)" % a_lo[1], "%s+1" % a_lo[1], "(1+%s)" % a_lo[1], "1+%s" % a_lo[1])
            kvar = a_lo[1] if okr else None
            kd = f.defs_at(lod[0][0], kvar) if okr else []
            okk = len(kd) == 1 and strip(kd[0][1]).get("opcode") == "-" and render(strip(kd[0][1])["inner"][1]) == "minid"
            leaf = render(strip(kd[0][1])["inner"][0]) if okk else None
            chk.ob("R13.3", "cbincount::leaf-bin-is-id-minus-minid", bool(okk), f.where, "leaf bin k = triangle id - minid")
            lfacts = guard_facts(view, lod[0][0])
            okrng = leaf is not None and ("minid<=%s" % leaf) in lfacts and ("%s<=maxid" % leaf) in lfacts
            if not okrng and leaf is not None:
                # the id may be held in a second local (leafid = idlist[j]; leafbin = idlist[j] - minid): same defining expression
                ldefs = {v for m_ in cfg.nodes for v, r_ in node_defs(m_) if render(strip(r_)) == leaf}
                okrng = any(("minid<=%s" % v) in lfacts and ("%s<=maxid" % v) in lfacts for v in ldefs)
            chk.ob("R13.3", "cbincount::leaf-id-range-check", bool(okrng), f.where, "only triangle ids in [minid, maxid] index the reverse indices (facts that hold there: %s)" % sorted(lfacts))
        chk.ob("R13.3", "cbincount::members-from-reverse-indices", bool(okr), f.where, "members of leaf k are rev[rev[k] + 0 .. rev[k+1] - 1] (the histogram's reverse-index convention)")
    else:
        chk.ob("R13.3", "cbincount::distance-is-gcirc", False, f.where, "`dis` is not a single gcirc(...) definition")
        return
    # cap
    sets = [(n, x) for n in cfg.nodes if isinstance(n.c, dict) for x in walk(n.c) if x.get("kind") == "CXXMemberCallExpr" and callee_name(x) == "setRaDecD"]
    ok = len(sets) == 1
    if ok:
        a = [render(z) for z in cfront.call_args(sets[0][1])]
        ok = a[:2] == [render(z) for z in cfront.call_args(strip(dd[0][1]))[:2]]
        ddv = f.defs_at(sets[0][0], a[2])
        forms = []
        for dn, rhs in ddv:
            r = strip(rhs)
            dsym = sp.Symbol(degarg)
            try:
                LL = LowerH(decl)
                LL.env = {}
                tt = LL.expr(rhs)
            except (AnalysisError, TypeError, ValueError, KeyError):
                tt = None
            if tt is not None and dsym in tt.free_symbols and mv:
                # one expression that switches on the unit flag itself (a conditional, or a helper of the file given the flag)
                for tag, val, lab in (("deg", 1, "T"), ("rad", 0, "F")):
                    tv = tt.subs(dsym, val)
                    tv = sp.piecewise_fold(tv) if isinstance(tv, sp.Piecewise) else tv
                    q = sp.simplify(tv.args[0] / sp.Symbol(mv)) if isinstance(tv, sp.cos) else None
                    if q is not None and not q.free_symbols:
                        kq = float(q)
                        forms.append((tag, abs(kq - (math.pi / 180 if tag == "deg" else 1.0)) < 1e-15, [lab]))
            elif callee_name(r) == "cos":
                ts = f.tests_over(dn)
                k = cos_factor(decl, rhs, mv) if mv else None
                if k is not None and abs(k - 1.0) < 1e-15:
                    forms.append(("rad", True, [lab for t, lab in ts if t.strip("()") == degarg]))
                elif k is not None:
                    forms.append(("deg", abs(k - math.pi / 180) < 1e-15, [lab for t, lab in ts if t.strip("()") == degarg]))
        ok = ok and sorted(forms) == [("deg", True, ["T"]), ("rad", True, ["F"])]
        chk.ob("R13.3", "cbincount::cap-is-cos-of-maxangle-in-matching-units", bool(ok), f.w(sets[0][0]),
               "cap = cos(maxangle*pi/180) when in degrees, cos(maxangle) when in radians, about the same first-set point (%s)" % forms)
    md = [r for n in cfg.nodes for v, r in node_defs(n) if v == mv]
    ok = len(md) == 1 and render(md[0]).replace(" ", "") == "(%s/scale)" % p_rmax
    chk.ob("R13.3", "cbincount::maxangle", ok, f.where, "maxangle = rmax/scale")
    # scale provenance
    sd = [(f.aread(r), f.tests_over(n), n) for n in cfg.nodes for v, r in node_defs(n) if v == "scale" and f.aread(r)]
    lp, i1 = _outer_loop(f, p_ra1)
    kinds = set()
    paired = True
    for ar, ts, n in sd:
        if ar[0] != ("param", p_scale):
            continue
        if ar[1] == "0" and any(t == "(nscale == 1)" and lab == "T" for t, lab in ts):
            kinds.add("scalar")
        if ar[1] == i1 and any(t == "(nscale > 1)" and lab == "T" for t, lab in ts):
            kinds.add("per-point")
        nx = [s for s, _ in cfg_succ(cfg, n)]
        paired = paired and len(nx) == 1 and render(nx[0].c).replace(" ", "") == "(logscale=log10(scale))"
    chk.ob("R13.3", "cbincount::scale-provenance", kinds == {"scalar", "per-point"} and paired, f.where,
           "scale is scale_array[0] for one value and scale_array[i1] per point, each read followed by logscale = log10(scale) (%s)" % sorted(kinds))
    # both lists are candidates
    inter = [(n, x) for n in cfg.nodes if isinstance(n.c, dict) for x in walk(n.c) if x.get("kind") == "CXXMemberCallExpr" and callee_name(x) == "intersect"]
    lists = [render(z) for z in cfront.call_args(inter[0][1])[1:3]] if len(inter) == 1 else []
    copied = {}
    for n in cfg.nodes:
        if n.kind == "stmt" and isinstance(n.c, dict):
            t = render(n.c)
            for Ls in lists:
                if "(%s () " % Ls in t and "=" in t:
                    lpn = f.loops_over(n)
                    copied[Ls] = bool(lpn) and ("%s.length()" % Ls) in render(lpn[0].c)
    okl = len(lists) == 2 and all(copied.get(Ls) for Ls in lists)
    if not okl and len(lists) == 2:
        # the copy may be made by a free helper of the file that is handed the lists, or append with push_back: every element of both
        # lists has to arrive in one container
        from checks import C12 as _c12
        cps_ = _c12.list_copies(fs or {}, decl, lists)
        common = set.intersection(*[cps_.get(Ls, set()) for Ls in lists])
        if common:
            okl = True
            copied = {Ls: sorted(cps_[Ls]) for Ls in lists}
            cand = sorted(common)[0]
            lp_, _i1 = _outer_loop(f, p_ra1)
            body = _c12.loop_body(cfg, view, lp_)
            if cand not in _c12._declared_in(cfg, body) and not _c12.container_cleared(fs or {}, body, cand):
                okl = None          # a list that outlives the iteration and is not emptied for every point: not judged here
    chk.ob("R13.3", "cbincount::full-and-partial-triangles-are-candidates", okl, f.where, "both triangle lists are searched (%s)" % copied)


def _coordinate_dependence(f, e, n, src, lin=True, seen=None, depth=0):
    """what the value of expression e at CFG node n is computed from, followed through the definitions of locals that reach n:
    'dist' - the value of a gcirc(...) call (a separation, whatever went into it); 'lat' - an element of a latitude array; 'lon-lin' - an
    element of a longitude array that reaches e through + - * / unary minus, fabs/abs, casts and single-definition locals only (a value
    that keeps growing with the difference of the right ascensions: not periodic in them); 'lon' - an element of a longitude array that
    passes through anything else on the way (a function call - fmod, cos, fmin -, a conditional expression, a local with several reaching
    definitions: the ways a difference is wrapped at 360).  src: array descriptor -> 'lon' / 'lat'"""
    from checks import C12 as _c12
    seen = seen if seen is not None else set()
    out = set()
    e = strip(e)
    if not isinstance(e, dict) or depth > 40:
        return out
    k = e.get("kind")

    def tag(role):
        return ("lon-lin" if lin else "lon") if role == "lon" else role

    def sub(x, keep):
        return _coordinate_dependence(f, x, n, src, lin and keep, seen, depth + 1)
    if k in ("CallExpr", "CXXMemberCallExpr", "CXXOperatorCallExpr"):
        cn_ = callee_name(e)
        if cn_ == "gcirc":
            return {"dist"}
        args = cfront.call_args(e)
        if cn_ in ("PyArray_BYTES", "PyArray_DATA") and args:
            rd = ref_desc(args[0])
            rd = f.alias.get(rd[1], rd) if rd[0] == "local" else rd
            if src.get(rd):
                out.add(tag(src[rd]))
            return out
        if cn_ in _c12.HELPERS and cn_ not in ("PyArray_STRIDES", "PyArray_STRIDE"):
            ar = f.aread(e)
            if ar is not None and src.get(ar[0]):
                out.add(tag(src[ar[0]]))
                return out
        keep = cn_ in ("fabs", "abs", "labs", "fabsf", "fabsl") and len(args) == 1
        for a in args:
            out |= sub(a, keep)
        return out
    if k == "DeclRefExpr":
        rd = e.get("referencedDecl", {})
        nm = rd.get("name")
        if rd.get("kind") != "VarDecl" or nm is None:
            return out
        ds = f.defs_at(n, nm)
        for dn, rhs in ds:
            if (dn.id, nm) in seen:
                continue
            seen.add((dn.id, nm))
            out |= _coordinate_dependence(f, rhs, dn, src, lin and len(ds) == 1, seen, depth + 1)
        return out
    keep = (k == "BinaryOperator" and e.get("opcode") in ("+", "-", "*", "/")) or (k == "UnaryOperator" and e.get("opcode") in ("-", "+", "*", "&")) \
        or k == "ArraySubscriptExpr"
    for c in e.get("inner", []) or []:
        if isinstance(c, dict):
            out |= sub(c, keep)
    return out


def pair_filter_rule(chk, f, cn, src):
    """R13.3: the count equals a brute-force count of all pairs, so a member of a candidate triangle is kept out of the count by its
    separation (and the bin computed from it) alone.  Every other condition on the way to the count that is computed from the coordinates
    of the two points is an additional filter.  Positively wrong among them: a relational test, necessary for the count, on a value that
    depends on the right ascensions only through arithmetic and |.| (`fabs(ra2 - ra1) > t`, `ra2 - ra1 > t`, the same through locals) -
    right ascension is periodic, the difference of two points next to each other across the ra = 0/360 seam is near 360, so whatever the
    threshold below 360 such a test drops pairs that are within the search radius.  A test on a wrapped difference or on latitudes may
    be implied by the separation; that is not derived here (no verdict)."""
    view = f.view
    bad, unknown = [], []

    def atoms(e, pos, required, node):
        e = strip(e)
        k = e.get("kind")
        if k == "UnaryOperator" and e.get("opcode") == "!":
            return atoms(e["inner"][0], not pos, required, node)
        if k == "BinaryOperator" and e.get("opcode") in ("&&", "||"):
            req = required and ((e["opcode"] == "&&") == pos)
            atoms(e["inner"][0], pos, req, node)
            atoms(e["inner"][1], pos, req, node)
            return
        relational = k == "BinaryOperator" and e.get("opcode") in ("<", "<=", ">", ">=")
        if relational:
            ks = _coordinate_dependence(f, e["inner"][0], node, src) | _coordinate_dependence(f, e["inner"][1], node, src)      # each side as a value
        else:
            ks = _coordinate_dependence(f, e, node, src)
        if not ks & {"lon-lin", "lon", "lat"}:
            return
        txt = "%s%s" % ("" if pos else "not ", render(e))
        if "lon-lin" in ks and "dist" not in ks and required and relational:
            bad.append((txt, f.w(node)))
        else:
            unknown.append((txt, f.w(node)))
    try:
        for b, lab in view.controlling_branches(cn):
            if b.kind in ("branch", "loop") and isinstance(b.c, dict) and lab in ("T", "F"):
                atoms(b.c, lab == "T", True, b)
    except (AnalysisError, KeyError, TypeError, IndexError, RecursionError) as e_:
        unknown.append(("conditions not evaluated: %s" % str(e_)[:80], f.w(cn)))
    ok = False if bad else (None if unknown else True)
    chk.ob("R13.3", "cbincount::only-the-separation-drops-a-pair", ok, bad[0][1] if bad else (unknown[0][1] if unknown else f.w(cn)),
           "between the members of a candidate triangle and the count no condition computed from the coordinates of the two points other than the "
           "separation gcirc(...) and the bin derived from it decides whether the pair is counted%s%s"
           % ("" if not bad else " -- the count requires `%s`: a test on the unwrapped difference of right ascensions; the two points of a pair that straddles the "
              "ra = 0/360 seam differ by nearly 360 in right ascension, so every such pair is dropped from the counts although its separation is in range"
              % "`, `".join(t for t, _ in bad[:3]),
              "" if not unknown else " -- coordinate-dependent condition(s) not recognised as implied by the separation: %s" % "; ".join("`%s`" % t for t, _ in unknown[:3])))


def _outer_loop(f, p_ra):
    for lp in [n for n in f.cfg.nodes if n.kind == "loop"]:
        c = lp.c
        if isinstance(c, dict) and c.get("kind") == "BinaryOperator" and c.get("opcode") == "<":
            bd = f.defs_at(lp, render(c["inner"][1]))
            if bd and all("PyArray_API[158]" in render(r) and ref_desc_in(r, f.alias) == ("param", p_ra) for _, r in bd):
                return lp, render(c["inner"][0])
    raise AnalysisError("loop over the first point set not found")


# ---------------------------------------------------------------------------
def bincount_py(chk, repo, cdecl):
    fi = repo.func(H + "HTM.bincount")
    chk.analysed_unit(fi.qualname)
    cps0 = cfront.params_of(cdecl)
    if len(cps0) == 11:
        stride_rule(chk, "R13.4", "cbincount", Fn(cdecl), fi, {cps0[3]: "ra1", cps0[4]: "dec1", cps0[5]: "ra2", cps0[6]: "dec2"})
    for n, ok in _norm_f8(fi, ["ra1", "dec1", "ra2", "dec2"]).items():
        chk.ob("R13.4", "HTM.bincount::%s-becomes-fresh-float64-1d" % n, ok, fi.where(), "`%s = np.atleast_1d(%s).astype('f8')`" % (n, n))
    oksz, rc = size_check_verdict(fi, "ra1.size != dec1.size or (scale is not None and scale.size != 1 and scale.size != ra1.size) or "
                                      "(htmid2 is not None and htmid2.size != ra2.size)")
    chk.ob("R13.4", "HTM.bincount::size-checks", oksz, fi.where(), "coordinate, scale and id array sizes are checked (raises when: %s)" % rc)
    call = [c for c in walk_no_nested(fi.node) if isinstance(c, ast.Call) and call_name(c) == "cbincount"]
    cps = cfront.params_of(cdecl)
    want = ["rmin", "rmax", "nbin", "ra1", "dec1", "ra2", "dec2", "htmrev2", None, "scale", None]
    ok = len(call) == 1 and len(call[0].args) == len(cps) == 11 and all(w is None or norm(a) == w for a, w in zip(call[0].args, want))
    chk.ob("R13.4", "HTM.bincount::extension-call-roles", ok, fi.where(), "the extension receives the arguments in the C++ parameter order %s" % cps)
    # the id range: the 9th argument of the extension call, written in place or held in a local, is np.array([minid, maxid], dtype=int64)
    mmx = rules.expand(call[0].args[8], fi.node) if ok else None
    okm = None
    if mmx is not None:
        okm = isinstance(mmx, ast.Call) and call_name(mmx) in ("array", "asarray") and len(mmx.args) == 1 and isinstance(mmx.args[0], (ast.List, ast.Tuple)) \
            and [norm(e) for e in mmx.args[0].elts] == ["minid", "maxid"] \
            and (const_value(kwarg(mmx, "dtype")) in ("i8", "int64") or norm(kwarg(mmx, "dtype")) in ("np.int64", "numpy.int64") if kwarg(mmx, "dtype") is not None else False)
    chk.ob("R13.4", "HTM.bincount::minmax-array", okm, fi.where(), "the id range is handed over as int64 [minid, maxid] (%s)" % (norm(mmx) if mmx is not None else "extension call not recognised"))
    # reverse indices: histogram of (id - minid) anchored at 0 with unit bins
    hs = [x for x in walk_no_nested(fi.node) if isinstance(x, ast.Call) and call_name(x) == "histogram"]
    ok = len(hs) == 1 and bool(hs[0].args) and norm(hs[0].args[0]).replace(" ", "") == "htmid2-minid" and const_value(kwarg(hs[0], "rev")) is True
    # a locator first: when the reverse indices are not built by the histogram code in this method (a purpose-written builder), the layout
    # rev[rev[k] .. rev[k+1]) of that builder is not derived here: no verdict rather than a contradiction
    chk.ob("R13.4", "HTM.bincount::reverse-indices-from-id-minus-minid", ok if hs else None, fi.where(),
           "reverse indices come from histogram(htmid2 - minid, rev=True)%s" % ("" if hs else " -- no call of the histogram code in this method: the reverse indices are built some other way, which is not followed"))
    if ok:
        h = hs[0]
        mn = kwarg(h, "min")
        bs = kwarg(h, "binsize")
        cfg = rules.cfg_of(fi)
        view = cfg.view()
        hn = next(n for n in cfg.nodes if any(c is h for c in rules.stmts_calls(n)))
        # minid provably the minimum on every path to the call?  (only when it was computed here, not when supplied)
        RIN, _ = view.reaching_defs()
        mdefs = RIN[hn.id].get("minid", set())
        all_min = bool(mdefs) and all(any(norm(a.value) == "htmid2.min()" for a in [cfg.node(i).ast] if isinstance(a, ast.Assign)) for i in mdefs)
        anchored = (mn is not None and const_value(mn) == 0) or all_min
        chk.ob("R13.4", "HTM.bincount::reverse-index-bins-anchored-at-zero", anchored, fi.where(h),
               "bin k of the reverse indices must be id minid + k, as the C++ side assumes (k = id - minid): the histogram has to start at 0 (min=0), not at the "
               "smallest value present - a caller-supplied minid below the smallest id otherwise shifts every bin (min= %s; minid reaching the call is %s)"
               % (norm(mn) if mn is not None else "not given", "always htmid2.min()" if all_min else "possibly the caller's"))
        hist = repo.func("esutil.stat.util.histogram")
        dbs = hist.defaults.get("binsize")
        hps0 = [p for p in hist.params if not p.startswith("*")]
        if bs is None and "binsize" in hps0 and hps0.index("binsize") < len(h.args):
            bs = h.args[hps0.index("binsize")]          # given by position
        okb = (bs is not None and const_value(bs) in (1, 1.0)) or (bs is None and dbs is not None and const_value(dbs) in (1, 1.0))
        # ... and that bin size is the one the histogram code really uses: the parameters through which it chooses ANOTHER bin width (read off its
        # source: they decide whether the `binsize` argument is replaced or reaches the binning at all) are not given
        ov = _width_overrides(hist, "binsize")
        hps = [p for p in hist.params if not p.startswith("*")]
        given = {}
        for p_, a_ in zip(hps, h.args):
            given[p_] = a_
        for k_ in h.keywords:
            if k_.arg is not None:
                given[k_.arg] = k_.value
        over = sorted(p_ for p_ in ov if p_ in given and not (isinstance(given[p_], ast.Constant) and given[p_].value is None))
        okw = okb and not over
        chk.ob("R13.4", "HTM.bincount::unit-bins", okw, fi.where(h),
               "one reverse-index bin per triangle id: the histogram is asked for binsize 1 and for nothing that makes it use another bin width (in %s the "
               "bin width given by `binsize` is overridden through: %s)%s"
               % (hist.qualname.split(".")[-1], sorted(ov) or "nothing",
                  "" if not over else " -- the call passes %s: the bins are then not one id wide (k = id - minid no longer names the bin of id), "
                  "members of some triangles are filed under another bin or under none" % ", ".join("%s=%s" % (p_, norm(given[p_])) for p_ in over)))
    # defaults for minid / maxid and the lookup of ids: decided on the terms handed to the extension, case by case
    from vcheck import symx
    S = sp.Symbol
    INT = sp.Function("INT")

    def strip_int(t):
        return t.replace(lambda x: x.func == INT, lambda x: x.args[0])
    bad, unrec = [], []
    for hid in (None, S("htmid2")):
        for mn in (None, S("minid")):
            for mx in (None, S("maxid")):
                se = symx.SymEval(repo, opaque=("esutil.stat.util.histogram", H + "HTM.lookup_id", H + "log_bins"), opaque_tests=False, self_calls_as_terms=True)
                tag = "htmid2 %s, minid %s, maxid %s" % tuple("given" if v is not None else "None" for v in (hid, mn, mx))
                try:
                    r = se.run(fi, {k: S(k) for k in ("self", "rmin", "rmax", "nbin", "ra1", "dec1", "ra2", "dec2")},
                               {"scale": None, "htmid2": hid, "htmrev2": None, "minid": mn, "maxid": mx, "getbins": False, "verbose": False})
                except Exception as e:
                    unrec.append("%s: %s" % (tag, str(e)[:120]))
                    continue
                if not (isinstance(r, sp.Basic) and getattr(r.func, "__name__", "") == "SELF_cbincount" and len(r.args) == len(cps) == 11):
                    unrec.append("%s: result %s" % (tag, str(r)[:120]))
                    continue
                mm = strip_int(r.args[8]) if len(r.args) > 8 else None
                ids = sp.Function("lookup_id")(S("ra2"), S("dec2")) if hid is None else S("htmid2")
                lo = sp.Function("MIN")(ids) if (hid is None or mn is None) else S("minid")
                hi = sp.Function("MAX")(ids) if (hid is None or mx is None) else S("maxid")
                if mm != sp.Function("SEQ")(lo, hi):
                    bad.append("%s: the id range handed over is %s, not (%s, %s)" % (tag, mm, lo, hi))
                rev = strip_int(r.args[7])
                if not (rev.args and sp.expand(rev.args[0] - (ids - lo)) == 0 and getattr(rev.func, "__name__", "").startswith("histogram")):
                    bad.append("%s: reverse indices are built from %s, not from ids - minid = %s" % (tag, rev, ids - lo))
    chk.ob("R13.4", "HTM.bincount::ids-of-second-set", None if (unrec and not bad) else not bad, fi.where(),
           "missing ids are those of the second set (lookup_id(ra2, dec2)), a missing minid/maxid is their extreme, supplied ones are used with supplied ids, and the "
           "reverse indices are built from ids - minid with that same minid%s" % ((" -- " + "; ".join(bad[:3])) if bad else (" -- not evaluated: " + "; ".join(unrec[:2]) if unrec else "")))
    _aligned_lists_rule(chk, repo, fi, len(cps))
    lb = [c for c in walk_no_nested(fi.node) if isinstance(c, ast.Call) and call_name(c) == "log_bins"]
    ok = len(lb) == 1 and [norm(a) for a in lb[0].args] == ["rmin", "rmax", "nbin"]
    chk.ob("R13.4", "HTM.bincount::edges-from-same-arguments", ok, fi.where(), "reported bin edges are log_bins(rmin, rmax, nbin) of the same arguments")
    from vcheck import symx
    se = symx.SymEval(repo)
    lbf = repo.func(H + "log_bins")
    a, b, n = symx.symbols("rmin", "rmax", "nbin")
    r = se.run(lbf, {"rmin": a, "rmax": b, "nbin": n}, {})
    k = sp.Function("ARANGE")(n)
    bsz = (sp.log(b, 10) - sp.log(a, 10)) / n
    ok = isinstance(r, tuple) and len(r) == 2 and symx.equal(r[0], 10 ** (sp.log(a, 10) + bsz * k))[0] and symx.equal(r[1], 10 ** (sp.log(a, 10) + bsz * k + bsz))[0]
    chk.ob("R13.4", "log_bins::edges", bool(ok), lbf.where(), "lower edge k = 10^(log10 rmin + k*binsize), upper = lower*10^binsize with binsize = (log10 rmax - log10 rmin)/nbin (the C++ bin formula)")


def _selection_chain(t):
    """(base, [(operation, other operands)]) of a term: the chain of element selections / reorderings `OP(x, ...)` applied to a base"""
    chain = []
    while isinstance(t, sp.Basic) and not isinstance(t, sp.Symbol) and isinstance(t, sp.core.function.AppliedUndef) and t.args \
            and t.func.__name__ in ("AT", "SLICE", "TAKE", "SORT", "COMPRESS", "UNIQUE", "ROLL", "FLIP"):
        chain.append((t.func.__name__, tuple(t.args[1:])))
        t = t.args[0]
    return t, chain[::-1]


def _aligned_lists_rule(chk, repo, fi, nparams):
    """R13.4: the pair counter pairs point i of list 1 with ITS scale and its own coordinates: the C++ side reads ra1[i], dec1[i] and
    scale[i] with one index.  So whatever selection or reordering of elements the python method applies to one of the per-point arrays
    of a list before the extension call (sorting for locality, masking, reversing), it applies the same one to the others: the terms
    handed over are P(ra1), P(dec1), P(scale) for one chain of element selections P (the identity today); likewise ra2, dec2 and the
    ids the reverse indices are built from.  Decided on the symbolic terms of the arguments of the extension call (all inputs)."""
    from vcheck import symx
    S = sp.Symbol
    INT = sp.Function("INT")
    key = "HTM.bincount::per-point-arrays-of-a-list-in-one-order"
    bad, unrec, seen = [], [], 0
    for hid in (None, S("htmid2")):
        se = symx.SymEval(repo, opaque=("esutil.stat.util.histogram", H + "HTM.lookup_id", H + "log_bins"), opaque_tests=False, self_calls_as_terms=True)
        tag = "scale array, htmid2 %s" % ("given" if hid is not None else "None")
        r, why = None, ""
        for sc in (S("scale"), None):
            try:
                r = se.run(fi, {k: S(k) for k in ("self", "rmin", "rmax", "nbin", "ra1", "dec1", "ra2", "dec2")},
                           {"scale": sc, "htmid2": hid, "htmrev2": None, "minid": None, "maxid": None, "getbins": False, "verbose": False})
            except Exception as e:
                r, why = None, str(e)[:100]
            if isinstance(r, sp.Basic) and getattr(r.func, "__name__", "") == "SELF_cbincount" and len(r.args) == nparams == 11:
                break
            r, why = None, why or "result %s" % str(r)[:100]
            # the scale handling was not evaluated: if, by the syntax of the method, `scale` is never subscripted, sorted or taken from
            # (only converted and measured), its element order is the caller's and the other arrays are still compared
            touched = [x for x in ast.walk(fi.node) if (isinstance(x, ast.Subscript) and isinstance(x.value, ast.Name) and x.value.id == "scale")
                       or (isinstance(x, ast.Call) and call_name(x) in ("take", "sort", "argsort", "compress", "flip", "roll", "choose", "unique")
                           and any(isinstance(y, ast.Name) and y.id == "scale" for a_ in list(x.args) + [x.func] for y in ast.walk(a_)))]
            if touched:
                break
            se = symx.SymEval(repo, opaque=("esutil.stat.util.histogram", H + "HTM.lookup_id", H + "log_bins"), opaque_tests=False, self_calls_as_terms=True)
        if r is None:
            unrec.append("%s: %s" % (tag, why))
            continue
        if sc is None:
            r = r.func(*[S("scale") if i_ == 9 else a_ for i_, a_ in enumerate(r.args)])
        seen += 1
        strip_int = lambda t: t.replace(lambda x: x.func == INT, lambda x: x.args[0])
        groups = [[("ra1", r.args[3]), ("dec1", r.args[4]), ("scale", r.args[9])], [("ra2", r.args[5]), ("dec2", r.args[6])]]
        ids = [a for a in strip_int(r.args[7]).atoms(sp.core.function.AppliedUndef) if a.func.__name__ == "lookup_id"]
        if hid is not None:
            rv = strip_int(r.args[7])
            rv = rv.args[0] if rv.args else rv
            rv = rv.replace(lambda x: getattr(x.func, "__name__", "") in ("MIN", "MAX"), lambda x: sp.Symbol("_extreme_"))      # a reduction is no element order
            hs_ = [a for a in sp.preorder_traversal(rv) if isinstance(a, sp.Basic) and _selection_chain(a)[0] == hid]
            if hs_:
                groups[1].append(("htmid2", max(hs_, key=lambda a: len(_selection_chain(a)[1]))))
        elif len(ids) == 1 and len(ids[0].args) == 2:
            for nm, got, want in (("ra2", ids[0].args[0], r.args[5]), ("dec2", ids[0].args[1], r.args[6])):
                if got != want and _selection_chain(got)[0] == _selection_chain(want)[0] == S(nm):
                    bad.append("%s: the ids of list 2 are looked up for `%s` but the extension is handed `%s`" % (tag, got, want))
        for grp in groups:
            chains = {}
            for nm, t in grp:
                base, ch = _selection_chain(t)
                if base != S(nm):
                    unrec.append("%s: the term handed over for %s, `%s`, is not a chain of element selections of the argument" % (tag, nm, str(t)[:80]))
                    chains = None
                    break
                chains[nm] = ch
            if chains and len({tuple(c) for c in chains.values()}) > 1:
                ref = grp[0][0]
                odd = [nm for nm in chains if chains[nm] != chains[ref]]
                show = lambda c: " then ".join("%s(., %s)" % (o, ", ".join(str(a)[:60] for a in rest)) for o, rest in c) or "the caller's order"
                bad.append("%s: %s reaches the extension as %s but %s as %s" % (tag, ref, show(chains[ref]), ", ".join(odd), show(chains[odd[0]])))
    ok = False if bad else (None if (unrec or not seen) else True)
    chk.ob("R13.4", key, ok, fi.where(),
           "the extension reads ra1[i], dec1[i], scale[i] (and ra2[k], dec2[k] with the reverse indices of the ids) by one index: the per-point arrays of a list reach it "
           "through the same chain of element selections / reorderings%s%s"
           % ("" if not bad else " -- %s: element i of these arrays no longer belongs to one point - every point of the list is searched and binned with the value of another point"
              % "; ".join(bad[:2]), "" if not unrec else " -- not evaluated: %s" % "; ".join(unrec[:2])))


def _width_overrides(fi, par, depth=0, seen=None):
    """parameters of the python function `fi`, other than `par`, that decide whether the value the caller gives for `par` is what the
    function works with: a parameter is in the set when a test that mentions it controls a (re)definition of `par` or a statement that
    uses `par`, in `fi` itself or - mapped back through the call's arguments - in a function / method of the same module that `fi`
    hands `par` to under the same or another parameter name.  (For the histogram code and its bin size: nbin, which replaces the bin
    size, and nperbin, which selects another binning altogether.)"""
    seen = seen if seen is not None else set()
    if (fi.qualname, par) in seen or depth > 3:
        return set()
    seen.add((fi.qualname, par))
    cfg = rules.cfg_of(fi)
    view = cfg.view()
    params = {p for p in fi.params if not p.startswith("*")}
    out = set()
    for n in cfg.nodes:
        if n.ast is None:
            continue
        d, u = cfg.defs_uses(n)
        if par not in d and par not in u:
            continue
        tests = [b.ast.test for b, lab in view.controlling_branches(n) if b.kind == "branch" or (b.kind == "loop" and isinstance(b.ast, ast.While))]
        if n.kind == "branch":
            tests.append(n.ast.test)
        for t in tests:
            out |= {x.id for x in ast.walk(t) if isinstance(x, ast.Name)} & params
        # handed on to a function / method of the same module
        for c in rules.stmts_calls(n):
            tgt, skip = None, 0
            f = c.func
            if isinstance(f, ast.Name) and f.id in fi.module.funcs:
                tgt = fi.module.funcs[f.id]
            elif isinstance(f, ast.Attribute):
                cands = [v for k, v in fi.module.funcs.items() if "." in k and k.split(".")[-1] == f.attr]
                if len(cands) == 1:
                    tgt, skip = cands[0], 1
            if tgt is None or any(isinstance(a, ast.Starred) for a in c.args) or any(k.arg is None for k in c.keywords):
                continue
            ps = [p for p in tgt.params if not p.startswith("*")][skip:]
            bound = dict(zip(ps, c.args))
            for k in c.keywords:
                if k.arg in ps:
                    bound[k.arg] = k.value
            for q, a in bound.items():
                if isinstance(a, ast.Name) and a.id == par:
                    for o in _width_overrides(tgt, q, depth + 1, seen):
                        e = bound.get(o)
                        if e is not None:
                            out |= {x.id for x in ast.walk(e) if isinstance(x, ast.Name)} & params
    out.discard(par)
    return out


# ---------------------------------------------------------------------------
def _header_constants(reldir):
    """{name: float} of the scalar constants the headers of a source directory declare as `const <type> NAME = <numeric literal>;` (constant
    evaluation of declarations: the filtered clang dump of a translation unit does not carry them)"""
    import glob
    import os
    import re
    from vcheck.core import REPO
    out = {}
    for path in sorted(glob.glob(os.path.join(REPO, reldir, "*.h"))):
        try:
            src = open(path, encoding="utf-8", errors="replace").read()
        except OSError:
            continue
        src = re.sub(r"//[^\n]*|/\*.*?\*/", " ", src, flags=re.S)
        for m in re.finditer(r"\bconst\s+[A-Za-z_][\w ]*?\b([A-Za-z_]\w*)\s*=\s*([-+]?(?:\d+\.?\d*|\.\d+)(?:[eE][-+]?\d+)?)[lLfF]?\s*;", src):
            try:
                out.setdefault(m.group(1), float(m.group(2)))
            except ValueError:
                pass
    return out


def _const_value(e, consts, depth=0, sdl=None):
    """float value of a constant scalar expression (literals, declared constants, + - * / and unary minus), else None"""
    e = strip(e)
    k = e.get("kind")
    if depth > 8:
        return None
    if k in ("FloatingLiteral", "IntegerLiteral"):
        try:
            return float(e.get("value"))
        except (TypeError, ValueError):
            return None
    if k in ("ParenExpr", "ImplicitCastExpr", "CStyleCastExpr", "ExprWithCleanups", "CXXStaticCastExpr", "CXXFunctionalCastExpr") and e.get("inner"):
        return _const_value(e["inner"][-1], consts, depth + 1, sdl)
    if k == "DeclRefExpr":
        rd = e.get("referencedDecl", {})
        if rd.get("kind") == "VarDecl" and rd.get("name") in (sdl or {}):
            return _const_value(sdl[rd["name"]], consts, depth + 1, sdl)      # a local that is initialised once and never written
        if rd.get("kind") == "VarDecl" and "const" in (rd.get("type") or {}).get("qualType", ""):
            return consts.get(rd.get("name"))
        return None
    if k == "UnaryOperator" and e.get("opcode") in ("-", "+"):
        v = _const_value(e["inner"][0], consts, depth + 1, sdl)
        return None if v is None else (-v if e["opcode"] == "-" else v)
    if k == "BinaryOperator" and e.get("opcode") in ("+", "-", "*", "/"):
        a, b = (_const_value(x, consts, depth + 1, sdl) for x in e["inner"])
        if a is None or b is None or (e["opcode"] == "/" and b == 0):
            return None
        return {"+": a + b, "-": a - b, "*": a * b, "/": a / b if b else None}[e["opcode"]]
    return None


def _is_triple_product(e, sdl=None):
    """(a ^ b) * c on vectors: the scalar whose sign says on which side of the great circle through a and b the direction c lies"""
    from checks.C12 import _through_locals
    e = _through_locals(e, sdl or {})
    while e.get("kind") in ("ParenExpr", "ExprWithCleanups", "MaterializeTemporaryExpr", "ImplicitCastExpr", "CXXBindTemporaryExpr") and e.get("inner"):
        e = strip(e["inner"][-1])
    if e.get("kind") != "CXXOperatorCallExpr" or callee_name(e) != "operator*":
        return False
    for a in (e.get("inner") or [])[1:]:
        for y in walk(a):
            if y.get("kind") == "CXXOperatorCallExpr" and callee_name(y) == "operator^":
                return True
    return False


def descent_tolerance(chk):
    """R13.7: every position gets an id of the full depth.  The id is found by descending the mesh: at each level the position is tested
    against the children of the current triangle with the sign of the triple products (a x b) . v of the edges.  Sibling triangles share
    their edges, and for a position on (or within rounding of) a shared edge the computed product is a rounding error of either sign in
    BOTH siblings; so a necessary condition for 'some child accepts it at every level' is that each edge test is closed with a slack:
    it separates at a NEGATIVE constant, at least one unit roundoff below zero (`(a x b) . v < -eps` rejects, equivalently `>= -eps`
    accepts).  A test that separates at 0 or above lets all four children reject such a position: the level gets no digit and the id is
    too short (outside the range of the depth, not a child of the coarser id)."""
    src = "esutil/htm/htm_src/SpatialIndex.cpp"
    # every method body of the file, all overloads (cfront.functions keeps one definition per name)
    bodies = {}
    todo = list(cfront.load_tu("spatialindex"))
    while todo:
        d = todo.pop()
        if not isinstance(d, dict):
            continue
        if d.get("kind") in cfront.FUNC_KINDS and cfront.has_body(d) and d.get("name"):
            bodies.setdefault(d["name"], [])
            if not any(d is o for o in bodies[d["name"]]):
                bodies[d["name"]].append(d)
        elif d.get("kind") in ("CXXRecordDecl", "NamespaceDecl", "LinkageSpecDecl"):
            todo.extend(d.get("inner", []) or [])
    root = "idByPoint"
    if root not in bodies:
        chk.ob("R13.7", "idByPoint::present", None, src, "the id lookup SpatialIndex::idByPoint was not found")
        return
    consts = _header_constants("esutil/htm/htm_src")
    # the methods of the file that the lookup runs through
    reach, todo = [], [root]
    while todo:
        nm = todo.pop()
        if nm in reach or nm not in bodies:
            continue
        reach.append(nm)
        for fn in bodies[nm]:
            for x in walk(cfront.body_of(fn)):
                if x.get("kind") in ("CallExpr", "CXXMemberCallExpr") and callee_name(x) in bodies and callee_name(x) not in reach:
                    todo.append(callee_name(x))
    UNIT_ROUNDOFF = 2.0 ** -53
    total = 0
    from checks.C12 import _single_def_locals
    for nm in sorted(reach):
        fn = bodies[nm][0]
        found = []          # (line, text, threshold or None, side that is accepted: 'upper' / 'lower' / None)
        for f_ in bodies[nm]:
            sdl = _single_def_locals(f_)
            g = cfront.CCFG(f_)
            for x in walk(cfront.body_of(f_)):
                if x.get("kind") == "BinaryOperator" and x.get("opcode") in ("<", "<=", ">", ">="):
                    a_, b_ = x["inner"]
                    ta, tb = _is_triple_product(a_, sdl), _is_triple_product(b_, sdl)
                    if ta != tb:
                        op = x["opcode"] if ta else {"<": ">", "<=": ">=", ">": "<", ">=": "<="}[x["opcode"]]      # as `product op t`
                        holds = _truth_means(g, x)          # 'accept' / 'reject' / None: what it means for the position when the comparison is true
                        side = None
                        if holds is not None:
                            side = "upper" if (op in (">", ">=")) == (holds == "accept") else "lower"
                        found.append((x.get("line") or next((y["line"] for y in walk(x) if y.get("line")), fn.get("line", "?")), render(x),
                                      _const_value(a_ if tb else b_, consts, 0, sdl), side))
        if not found:
            continue
        total += len(found)
        chk.analysed_unit("SpatialIndex.cpp:" + nm)
        bad, unk = [], []
        for f in found:
            ln, txt, t, side = f
            if t is None:
                unk.append((ln, txt, "threshold not evaluated"))
            elif abs(t) < UNIT_ROUNDOFF:
                bad.append((ln, txt, t, "no slack on either side"))
            elif side is None:
                unk.append((ln, txt, "which side of the threshold is accepted was not recognised"))
            elif (side == "upper") != (t < 0):
                bad.append((ln, txt, t, "the accepted side (%s) does not contain the products around 0" % ("product >= t" if side == "upper" else "product <= t")))
        ok = False if bad else (None if unk else True)
        chk.ob("R13.7", "%s::edge-tests-accept-the-boundary" % nm, ok, "%s:%s" % (src, bad[0][0] if bad else fn.get("line", "?")),
               "each of the %d edge test(s) `(a ^ b) * v <rel> t` of the descent accepts every product within rounding of 0: it separates at a constant t at least one unit roundoff "
               "(2^-53) away from 0 on the rejected side (thresholds found: %s), so that a position on an edge shared by sibling triangles, whose computed product is a rounding "
               "error of either sign in both of them, is accepted by at least one%s%s"
               % (len(found), sorted({f[2] for f in found if f[2] is not None}),
                  "" if not bad else " -- `%s` (line %s) separates at %g (%s): such a position can be rejected by every child, the descent then finds no child for the level and the id comes "
                  "out too short or wrong (outside the valid range of the depth, not a child of the id one level up)" % (bad[0][1][:80], bad[0][0], bad[0][2], bad[0][3]),
                  "" if not unk else " -- not decided: %s" % "; ".join("`%s` (line %s): %s" % (u[1][:60], u[0], u[2]) for u in unk[:2])))
    chk.ob("R13.7", "descent-edge-tests-found", True if total >= 3 else None, src, "%d edge test(s) on triple products found in the methods the id lookup runs through (%s)"
           % (total, ", ".join(sorted(reach))))


def _truth_means(g, x):
    """what the truth of comparison x means for the tested position: 'reject' when the statement it decides goes on, on that outcome, to
    `return false` / `continue` (or, on the other outcome, to `return true` / `break`), 'accept' in the mirrored cases and when x is a
    conjunct / disjunct of a returned boolean; `!` on the way flips it.  None when the statement is of another shape."""
    host = None
    for n in g.nodes:
        if isinstance(n.c, dict) and any(y is x for y in walk(n.c)):
            host = n
            break
    if host is None:
        return None

    def polarity(e, pos):
        e0 = e
        if e0 is x:
            return pos
        k = e0.get("kind")
        if k == "UnaryOperator" and e0.get("opcode") == "!":
            return polarity(e0["inner"][0], not pos)
        if k == "BinaryOperator" and e0.get("opcode") in ("&&", "||"):
            for c in e0["inner"]:
                r = polarity(c, pos)
                if r is not None:
                    return r
            return None
        if k in ("ParenExpr", "ImplicitCastExpr", "ExprWithCleanups", "ReturnStmt", "MaterializeTemporaryExpr", "CXXBindTemporaryExpr"):
            for c in e0.get("inner", []) or []:
                r = polarity(c, pos)
                if r is not None:
                    return r
        return None

    def outcome(m):
        """'reject' / 'accept' / None for the node a branch edge leads to"""
        c = m.c if isinstance(m.c, dict) else {}
        if c.get("kind") == "ContinueStmt":
            return "reject"
        if c.get("kind") == "BreakStmt":
            return "accept"
        if m.kind == "return" or c.get("kind") == "ReturnStmt":
            vals = [y for y in walk(c) if y.get("kind") == "CXXBoolLiteralExpr"]
            inner = c.get("inner") or []
            if len(vals) == 1 and inner and strip(inner[0]) is vals[0] or (len(vals) == 1 and len(list(walk(c))) <= 3):
                return "accept" if vals[0].get("value") else "reject"
        return None
    pos = polarity(host.c, True)
    if pos is None:
        return None
    if host.kind == "return" or host.c.get("kind") == "ReturnStmt":
        return "accept" if pos else "reject"
    if host.kind == "branch":
        res = {}
        for j in g.g.successors(host.id):
            for lab in g.g[host.id][j]["labels"]:
                if lab in ("T", "F"):
                    res[lab] = outcome(g.node(j))
        when_true = res.get("T") or ({"accept": "reject", "reject": "accept"}.get(res.get("F")))
        if when_true is None:
            return None
        return when_true if pos else {"accept": "reject", "reject": "accept"}[when_true]
    return None


# ---------------------------------------------------------------------------
W64 = {"uint64", "int64", "unsigned long", "long", "unsigned long long", "long long", "size_t", "std::size_t", "ssize_t", "ptrdiff_t",
       "uint64_t", "int64_t", "unsigned long int", "long int"}
W32 = {"int", "unsigned int", "uint32", "int32", "uint32_t", "int32_t", "unsigned", "short", "unsigned short", "char", "unsigned char",
       "signed char", "bool", "uint16", "int16", "uint8", "int8"}


def _width(t):
    for k in ("desugaredQualType", "qualType"):
        q = (t or {}).get(k)
        if q is None:
            continue
        q = q.replace("const ", "").replace("volatile ", "").strip()
        if q in W64:
            return 64
        if q in W32:
            return 32
    return None


def id_width(chk):
    """R13.5: HTM ids carry two bits per level, up to depth ~30, so they need more than 32 bits from depth 15 on.  C++ evaluates a
    shift in the promoted type of its LEFT operand: a shift whose amount is not a small literal and whose left operand is 32 bits
    wide wraps for deep trees although every depth the tests build still works.  Rule: in the vendored id code every left shift by a
    computed amount is carried out in a 64-bit type."""
    seen = 0
    for tu, src in (("spatialindex", "esutil/htm/htm_src/SpatialIndex.cpp"), ("spatialconvex", "esutil/htm/htm_src/SpatialConvex.cpp")):
        fs = cfront.functions(cfront.load_tu(tu))
        done = set()
        for name, fn in sorted(fs.items()):
            if "::" not in name or id(fn) in done:
                continue
            done.add(id(fn))
            shifts = [x for x in walk(fn) if x.get("kind") in ("BinaryOperator", "CompoundAssignOperator") and x.get("opcode") in ("<<", "<<=")
                      and len(x.get("inner", [])) == 2]
            if not shifts:
                continue
            chk.analysed_unit("%s:%s" % (src.rsplit("/", 1)[1], name))
            for k, x in enumerate(shifts):
                l, r = x["inner"]
                if _width(l.get("type")) is None and "ostream" in str((l.get("type") or {}).get("qualType", "")):
                    continue                                  # stream insertion, not arithmetic
                amount = strip(r)
                if amount.get("kind") == "IntegerLiteral" and int(amount.get("value", "99")) < 16:
                    lw = _width(x.get("type"))
                    if lw == 64:
                        seen += 1
                    continue
                w = _width(x.get("type"))
                seen += 1
                chk.ob("R13.5", "%s::shift#%d-in-64-bit" % (name, k), (w == 64) if w is not None else None,
                       "%s:%s" % (src, x.get("line") or fn.get("line", "?")),
                       "`%s` shifts by a computed amount (two bits per level): it is evaluated in the type of its left operand, which must be "
                       "64 bits wide (found %s)" % (render(x), (x.get("type") or {}).get("qualType")))
    chk.ob("R13.5", "id-shifts-found", True if seen >= 4 else None, "esutil/htm/htm_src", "%d shift sites in the id code examined" % seen)
