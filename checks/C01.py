"""C01 -- binary record files reproduce the written table bit-for-bit."""
import ast
import string as _string

from vcheck import cfront, effects, pat, rules
from vcheck.core import PyRepo, AnalysisError, call_name, dotted_name, kwarg, norm, walk_no_nested
from vcheck.cstr import c_string_literal, printf_directives
from vcheck.ctable import c_summaries
from vcheck.rules import cfg_of

MANIFEST = dict(
    text="Format/framing agreement and pass-through rules over Python ast and clang AST (not a behavioural proof of byte equality): "
         "(1) header framing: the text handed to the C++ header writer is evaluated symbolically (join / % / format / f-string, temporaries and private helpers folded) and the trailer after the pretty-printed dict read off it; the "
         "C++ reader's sentinel literal, comparison width and post-sentinel skip must reproduce exactly that trailer (data offset = header "
         "length) and the sentinel must be anchored by line boundaries on both sides so that user text containing END cannot match; the "
         "number of bytes counted as header after the sentinel is a constant (no loop over the bytes that follow, which are row data); no exit of the C++ reader (throw, break, loop condition, "
         "the return of the text) is control dependent on the scanned length having reached a constant: headers have no maximum length; the C++ "
         "writer never uses the text as a printf format and hands it to one output call that copies it unchanged (data flow of the text "
         "through locals, buffers and helpers); the Python parser drops exactly the trailer lines; (2) SIZE line: prefix, width >= 20 and conversion agree between writer, in-place "
         "updater and parser; the count an append puts on the SIZE line is <count kept on the handle> + <rows of the data> and, when write() returns, the attribute that count was "
         "taken from holds the number just written (and the rows of the data after the first write): path-sensitive symbolic execution of SFile.write over the attributes of the handle, "
         "integer terms compared as linear forms; (3) payload pass-through: on the binary path the object handed to Records::Write is a view of the caller's "
         "array (no conversion), native-order conversion and dtype byte-order stripping are control dependent on the text condition, the "
         "C++ writer issues one fwrite of rowsize x nrows with a short-write throw, readers allocate zeros(n, dtype=<file dtype>) and seek "
         "to the data offset first; every fread of the C++ slice reader lands at the byte offset of the first row it carries (first transfer at the buffer of the array handed in; in a loop "
         "the destination moves per pass by size*count of the fread, a polynomial identity over byte addresses with pointer arithmetic scaled by the pointee size) and the rows transferred "
         "add up to the rows of the slice; (4) header content: user header deep-copied, only underscore-prefixed reserved keys removed, _DTYPE is "
         "data.dtype.descr unmodified for binary, _SIZE filled from the SIZE line, header returned by copy; helpers of the package applied to the "
         "header dict on its way to pprint.pformat / back from eval are evaluated abstractly once per type of the quantifier's value domain (None, bool, int, float, str, bytes, "
         "list, tuple, dict; isinstance/type tests decided from the type) and must return an equal value for each (a tuple rebuilt as a list is a violation); (5) every front end (sfile, "
         "SFile, Recfile, recfile.write/read, io.write/io.read for rec) reaches the same writer/reader with (file, data) in the right roles; "
         "(6) handle typestate: the attributes by which SFile.write tells a first write from an append (recorded by the write path and compared with None there) are "
         "assigned afresh on every path through the public open() that creates the record reader/writer (forward data flow over joint attribute states, "
         "close() and other helpers summarised), so a handle re-opened on another file starts with a header.",
    note="Not decided: byte equality for all dtypes/values, numpy descr->dtype reconstruction, pprint.pformat/eval round trip of arbitrary "
         "literals, libc I/O. Trusted: pprint escapes string content (no raw line consisting of END), SWIG naming convention.",
    technique="static analysis: abstract evaluation of writer constants vs reader constants (framing agreement), CFG dominance/control-dependence, alias analysis for pass-through",
)

W = "esutil/recfile/records.cpp"


# rules that keep their verdict however the code is laid out (decided by term equality, effect analysis or dominance over
# resolved calls); every other rule of this check is a template rule (vcheck.core.Check.obt)
SEMANTIC = ('R01.1', 'R01.4', 'R01.6', 'R01.7', 'R01.3::Records::Write', 'R01.3::Records::set_file_type', 'R01.3::Recfile.write[binary]', 'R01.3::SFile.write::append', 'R01.2::SFile.write::', 'R01.3::Recfile.open', 'R01.3::Records::read_binary_slice::transfer-', 'R01.5::io.read::rec-dispatch', 'R01.5::io.write::rec-dispatch', 'R01.5::sfile.write::user-header', 'R01.5::SFile.write::user-header')


# ---------------------------------------------------------------------------
# Symbolic values.  A rule of this check states what a value *is* (the text handed to the C++ header writer, the object
# handed to Records::Write, the row count returned on the binary path ...), not how the function that computes it is laid
# out.  `Ev` evaluates an expression at a CFG node to a term: locals are replaced through reaching definitions (on the
# possibly flag-specialised view), `self.x` through its single dominating assignment, side-effect free helper methods and
# functions of the package are inlined with their parameters bound, `sep.join([...])`, `%`, str.format and f-strings
# become one concatenation.  Terms are nested tuples:
#   ("lit", v) ("cat", pieces) ("fmt", spec, t) ("param", name) ("self",) ("attr", t, name) ("glob", dotted)
#   ("call", dotted, args, kws) ("mcall", qualname, bound) ("meth", t, name, args, kws) ("sub", t, i) ("slice", t, lo, hi, st)
#   ("tuple"|"list"|"set", items) ("dict", items) ("op", sym, a, b) ("cmp", op, a, b) ("not", t) ("bool", op, items)
#   ("ifexp", c, a, b) ("phi", alternatives) ("elem", iterable) ("ctx", t) and opaque leftovers ("expr", text) ("rec", name)
# ---------------------------------------------------------------------------

def lit(v):
    return ("lit", v)


def is_lit(t, typ=None):
    return isinstance(t, tuple) and len(t) == 2 and t[0] == "lit" and (typ is None or isinstance(t[1], typ))


NONE = lit(None)
SELF = ("self",)


def mkcat(parts):
    out = []
    for p in parts:
        for q in (p[1] if p[0] == "cat" else (p,)):
            if is_lit(q, str):
                if q[1] == "":
                    continue
                if out and is_lit(out[-1], str):
                    out[-1] = lit(out[-1][1] + q[1])
                    continue
            out.append(q)
    if not out:
        return lit("")
    if len(out) == 1:
        return out[0]
    return ("cat", tuple(out))


def pieces(t):
    return list(t[1]) if t[0] == "cat" else [t]


def const_term(v):
    """the term of a Python constant"""
    if isinstance(v, tuple):
        return ("tuple", tuple(const_term(x) for x in v))
    if isinstance(v, list):
        return ("list", tuple(const_term(x) for x in v))
    return lit(v)


def mksub(b, i):
    """b[i]; an element of a tuple / list display is that element"""
    if b[0] in ("tuple", "list") and is_lit(i, int) and not isinstance(i[1], bool) and -len(b[1]) <= i[1] < len(b[1]) \
            and not any(x[0] == "star" for x in b[1]):
        return b[1][i[1]]
    return ("sub", b, i)


def subterms(t):
    """t and every tuple nested in it (terms, argument tuples, keyword pairs)"""
    todo = [t]
    while todo:
        x = todo.pop()
        if isinstance(x, tuple):
            yield x
            todo.extend(y for y in x if isinstance(y, tuple))


def opaque(t):
    """does the term contain something the evaluator could not resolve"""
    return any(x and x[0] in ("expr", "rec", "phi", "mutable", "unbound", "callx", "elem") for x in subterms(t))


def mentions_term(t, what):
    return any(x == what for x in subterms(t))


def show(t, depth=0):
    """short human-readable text of a term"""
    if not isinstance(t, tuple) or not t:
        return repr(t)
    k = t[0]
    if depth > 6:
        return "..."
    s = lambda x: show(x, depth + 1)
    if k == "lit":
        return repr(t[1])
    if k == "cat":
        return " + ".join(s(p) for p in t[1])
    if k == "fmt":
        return "format(%s, %r)" % (s(t[2]), t[1])
    if k == "param":
        return t[1]
    if k == "self":
        return "self"
    if k == "attr":
        return "%s.%s" % (s(t[1]), t[2])
    if k == "glob":
        return t[1]
    if k == "call":
        return "%s(%s)" % (t[1], ", ".join([s(a) for a in t[2]] + ["%s=%s" % (n, s(v)) for n, v in t[3]]))
    if k == "mcall":
        return "self.%s(%s)" % (t[1].rsplit(".", 1)[-1], ", ".join("%s=%s" % (n, s(v)) for n, v in t[2]))
    if k == "meth":
        return "%s.%s(%s)" % (s(t[1]), t[2], ", ".join([s(a) for a in t[3]] + ["%s=%s" % (n, s(v)) for n, v in t[4]]))
    if k == "sub":
        return "%s[%s]" % (s(t[1]), s(t[2]))
    if k == "slice":
        return "%s[%s:%s]" % (s(t[1]), "" if t[2] == NONE else s(t[2]), "" if t[3] == NONE else s(t[3]))
    if k in ("tuple", "list", "set"):
        return "%s(%s)" % (k, ", ".join(s(x) for x in t[1]))
    if k == "op":
        return "(%s %s %s)" % (s(t[2]), t[1], s(t[3]))
    if k == "cmp":
        return "(%s %s %s)" % (s(t[2]), t[1], s(t[3]))
    if k == "phi":
        return "phi(%s)" % ", ".join(s(x) for x in t[1])
    if k == "expr":
        return t[1]
    return "%s(%s)" % (k, ", ".join(s(x) if isinstance(x, tuple) else repr(x) for x in t[1:]))


_BINOP = {ast.Add: "+", ast.Sub: "-", ast.Mult: "*", ast.Div: "/", ast.FloorDiv: "//", ast.Mod: "%", ast.Pow: "**",
          ast.BitAnd: "&", ast.BitOr: "|", ast.BitXor: "^", ast.LShift: "<<", ast.RShift: ">>", ast.MatMult: "@"}
_CMPOP = {ast.Eq: "Eq", ast.NotEq: "NotEq", ast.Lt: "Lt", ast.LtE: "LtE", ast.Gt: "Gt", ast.GtE: "GtE", ast.Is: "Is",
          ast.IsNot: "IsNot", ast.In: "In", ast.NotIn: "NotIn"}
_STR_PURE = ("upper", "lower", "strip", "lstrip", "rstrip", "title")


class Ev:
    MAXDEPTH = 4

    def __init__(self, repo, fi=None, mod=None, flags=None, binds=None, depth=0, stack=(), outer=None):
        self.repo = repo
        self.outer = outer      # (Ev of the calling method, node of the call) when this is a method reached through self.m(...)
        self.fi = fi
        self.mod = mod if mod is not None else (fi.module if fi is not None else None)
        self.flags = dict(flags or {})
        self.binds = binds
        self.depth = depth
        self.stack = stack
        self._busy = set()
        self._memo = {}
        self._cenv = None       # {name: term} for the variables of a comprehension that is being unrolled over a constant table
        self._dicts = {}
        if fi is not None:
            self.cfg = cfg_of(fi)
            self.view = self.cfg.specialise(flags=self.flags) if self.flags else self.cfg.view()
            self._rd = None
            self._owner = None
            self._adefs = None
            a = fi.node.args
            pos = a.posonlyargs + a.args
            self.selfname = pos[0].arg if (fi.cls and pos) else None

    # -- bookkeeping ------------------------------------------------------
    def rd(self):
        if self._rd is None:
            self._rd = self.view.reaching_defs()[0]
        return self._rd

    def owner(self, expr):
        """the CFG node whose own expression contains `expr`"""
        if self._owner is None:
            own = {}
            for n in self.cfg.nodes:
                a = n.ast
                if a is None:
                    continue
                if n.kind == "branch":
                    roots = [a.test]
                elif n.kind == "loop":
                    roots = [a.test] if isinstance(a, ast.While) else [a.iter, a.target]
                elif n.kind == "with":
                    roots = [x for it in a.items for x in (it.context_expr, it.optional_vars) if x is not None]
                elif n.kind in ("def", "handler", "try"):
                    roots = []
                else:
                    roots = [a]
                for r in roots:
                    for x in ast.walk(r):
                        own[id(x)] = n
            self._owner = own
        return self._owner.get(id(expr))

    def attr_defs(self):
        """{'self.x': [(node, value expr | None)]} over the reachable nodes"""
        if self._adefs is None:
            out = {}
            for n in self.view.nodes():
                a = n.ast
                if n.kind != "stmt":
                    continue
                if isinstance(a, ast.Assign):
                    for t in a.targets:
                        if isinstance(t, ast.Attribute):
                            out.setdefault(norm(t), []).append((n, a.value))
                        elif isinstance(t, (ast.Tuple, ast.List)):
                            plain = not any(isinstance(e, ast.Starred) for e in t.elts)
                            for i, e in enumerate(t.elts):
                                if isinstance(e, ast.Attribute):
                                    # `a, self.x = v`: self.x is v[i] (the i-th element when v is written as a display)
                                    if not plain:
                                        v = None
                                    elif isinstance(a.value, (ast.Tuple, ast.List)) and len(a.value.elts) == len(t.elts) \
                                            and not any(isinstance(y, ast.Starred) for y in a.value.elts):
                                        v = a.value.elts[i]
                                    else:
                                        v = ast.Subscript(value=a.value, slice=ast.Constant(value=i), ctx=ast.Load())
                                    out.setdefault(norm(e), []).append((n, v))
                elif isinstance(a, (ast.AugAssign, ast.AnnAssign)) and isinstance(a.target, ast.Attribute):
                    out.setdefault(norm(a.target), []).append((n, None))
            self._adefs = out
        return self._adefs

    def modev(self):
        return Ev(self.repo, None, mod=self.mod, depth=self.depth + 1)

    # -- entry points -----------------------------------------------------
    def ev(self, e, at=None):
        if self.fi is not None and at is None:
            at = self.owner(e)
        if self._cenv:
            return self._ev(e, at)
        key = (id(e), at.id if at is not None else None)
        if key in self._memo:
            return self._memo[key]
        if key in self._busy:
            return ("rec", norm(e)[:40])
        self._busy.add(key)
        try:
            t = self._ev(e, at)
        finally:
            self._busy.discard(key)
        self._memo[key] = t
        return t

    def ev_src(self, src, at):
        """evaluate a source expression as if it were written at node `at`"""
        return self._ev(ast.parse(src, mode="eval").body, at)

    # -- expressions ------------------------------------------------------
    def _ev(self, e, at):
        ev = lambda x: self.ev(x, at) if self.fi is None or self.owner(x) is not None else self._ev(x, at)
        if isinstance(e, ast.Constant):
            return lit(e.value)
        if isinstance(e, ast.Name):
            return self._name(e.id, at)
        if isinstance(e, ast.Attribute):
            return self._attr(e, at, ev)
        if isinstance(e, ast.Call):
            return self._call(e, at, ev)
        if isinstance(e, ast.JoinedStr):
            ps = []
            for v in e.values:
                if isinstance(v, ast.FormattedValue):
                    t = ev(v.value)
                    spec = ""
                    if v.format_spec is not None:
                        st = ev(v.format_spec)
                        spec = st[1] if is_lit(st, str) else "?"
                    ps.append(t if not spec else ("fmt", spec, t))
                else:
                    ps.append(ev(v))
            return mkcat(ps)
        if isinstance(e, ast.BinOp):
            l, r = ev(e.left), ev(e.right)
            if isinstance(e.op, ast.Mod) and is_lit(l, str):
                t = _printf(l[1], list(r[1]) if r[0] == "tuple" else [r])
                if t is not None:
                    return t
            if isinstance(e.op, ast.Add) and (_stringy(l) or _stringy(r)):
                return mkcat([l, r])
            if isinstance(e.op, ast.Add) and l[0] == r[0] and l[0] in ("tuple", "list"):
                return (l[0], l[1] + r[1])
            return ("op", _BINOP.get(type(e.op), "?"), l, r)
        if isinstance(e, ast.UnaryOp):
            t = ev(e.operand)
            if isinstance(e.op, ast.Not):
                return ("not", t)
            if isinstance(e.op, ast.USub) and is_lit(t, (int, float)) and not isinstance(t[1], bool):
                return lit(-t[1])
            return ("uop", type(e.op).__name__, t)
        if isinstance(e, ast.Compare):
            if len(e.ops) == 1:
                return ("cmp", _CMPOP[type(e.ops[0])], ev(e.left), ev(e.comparators[0]))
            return ("expr", norm(e))
        if isinstance(e, ast.BoolOp):
            return ("bool", "and" if isinstance(e.op, ast.And) else "or", tuple(ev(v) for v in e.values))
        if isinstance(e, ast.IfExp):
            return ("ifexp", ev(e.test), ev(e.body), ev(e.orelse))
        if isinstance(e, (ast.Tuple, ast.List, ast.Set)):
            kind = {ast.Tuple: "tuple", ast.List: "list", ast.Set: "set"}[type(e)]
            return (kind, tuple(("star", ev(x.value)) if isinstance(x, ast.Starred) else ev(x) for x in e.elts))
        if isinstance(e, ast.Dict):
            return ("dict", tuple((ev(k) if k is not None else ("**",), ev(v)) for k, v in zip(e.keys, e.values)))
        if isinstance(e, ast.DictComp):
            t = self._dictcomp(e, at)
            return t if t is not None else ("expr", norm(e))
        if isinstance(e, ast.Subscript):
            if isinstance(e.value, ast.Name) and isinstance(e.slice, ast.Constant) and isinstance(e.slice.value, str):
                t = self.dict_entry(e.value.id, e.slice.value, at)
                if t is not None:
                    return t
            b = ev(e.value)
            if isinstance(e.slice, ast.Slice):
                f = lambda x: NONE if x is None else ev(x)
                return ("slice", b, f(e.slice.lower), f(e.slice.upper), f(e.slice.step))
            return mksub(b, ev(e.slice))
        if isinstance(e, ast.Starred):
            return ("star", ev(e.value))
        if isinstance(e, ast.NamedExpr):
            return ev(e.value)
        return ("expr", norm(e))

    def _global(self, name):
        m = self.mod
        if m is not None:
            if name in m.consts and self.depth < 8:
                return self.modev().ev(m.consts[name])
            if name in m.imports:
                return ("glob", self.repo.resolve_name(m, name))
            if name in m.funcs or name in m.classes:
                return ("glob", m.name + "." + name)
        return ("glob", name)

    def _name(self, name, at):
        if self._cenv and name in self._cenv:
            return self._cenv[name]
        if self.fi is None or at is None or at.id not in self.view.reach:
            if self.fi is None:
                return self._global(name)
            return ("expr", name)
        if name == self.selfname:
            return SELF
        defs = self.rd()[at.id].get(name)
        if not defs:
            return self._global(name)
        alts = []
        for d in sorted(defs):
            t = self._param(name) if d == self.cfg.entry.id else self._def_term(self.cfg.node(d), name)
            if t not in alts:
                alts.append(t)
        # a container literal that is filled in afterwards: its literal is not its value
        alts = [("mutable", name) if x and x[0] in ("list", "dict", "set") and self._mutated(name) else x for x in alts]
        return alts[0] if len(alts) == 1 else ("phi", tuple(sorted(alts, key=repr)))

    def _mutated(self, name):
        key = ("mut", name)
        if key not in self._memo:
            hit = False
            for x in walk_no_nested(self.fi.node):
                if isinstance(x, ast.Call) and isinstance(x.func, ast.Attribute) and isinstance(x.func.value, ast.Name) and x.func.value.id == name \
                        and x.func.attr in effects.LIST_MUT_METHODS | {"add", "discard", "sort"}:
                    hit = True
                elif isinstance(x, ast.Subscript) and isinstance(x.ctx, (ast.Store, ast.Del)) and isinstance(x.value, ast.Name) and x.value.id == name:
                    hit = True
                elif isinstance(x, ast.AugAssign) and isinstance(x.target, ast.Name) and x.target.id == name:
                    hit = True
            self._memo[key] = hit
        return self._memo[key]

    def _param(self, name):
        if self.binds is None:
            return ("param", name)
        if name in self.binds:
            return self.binds[name]
        d = self.fi.defaults.get(name)
        if d is not None:
            return self.modev().ev(d)
        return ("unbound", name)

    def _def_term(self, n, name):
        a = n.ast
        if n.kind == "stmt" and isinstance(a, ast.Assign):
            for t in a.targets:
                if isinstance(t, ast.Name) and t.id == name:
                    return self.ev(a.value, n)
                if isinstance(t, (ast.Tuple, ast.List)):
                    for i, x in enumerate(t.elts):
                        if isinstance(x, ast.Name) and x.id == name and not any(isinstance(y, ast.Starred) for y in t.elts):
                            if isinstance(a.value, (ast.Tuple, ast.List)) and len(a.value.elts) == len(t.elts):
                                return self.ev(a.value.elts[i], n)
                            return mksub(self.ev(a.value, n), lit(i))
        if n.kind == "stmt" and isinstance(a, ast.AugAssign) and isinstance(a.target, ast.Name):
            return ("op", _BINOP.get(type(a.op), "?"), self._name(name, n), self.ev(a.value, n))
        if n.kind == "stmt" and isinstance(a, ast.AnnAssign) and a.value is not None:
            return self.ev(a.value, n)
        if n.kind == "loop" and isinstance(a, ast.For):
            if isinstance(a.target, ast.Name):
                return ("elem", self.ev(a.iter, n))
            return ("elem", self.ev(a.iter, n), name)
        if n.kind == "with":
            for it in a.items:
                if isinstance(it.optional_vars, ast.Name) and it.optional_vars.id == name:
                    return ("ctx", self.ev(it.context_expr, n))
        return ("expr", "%s@%s" % (name, n.kind))

    def _attr(self, e, at, ev):
        d = dotted_name(e)
        if d is not None and self.fi is not None and at is not None:
            head = d.split(".")[0]
            if head == self.selfname and d.count(".") == 1 and at.id in self.view.reach:
                return self.self_attr(e.attr, at)
        b = ev(e.value)
        if b[0] == "ntuple" and e.attr in dict(b[2]):
            return dict(b[2])[e.attr]
        if b[0] == "glob":
            full = b[1] + "." + e.attr
            return ("glob", self.repo._follow(full) if full.startswith("esutil") else full)
        return ("attr", b, e.attr)

    # -- comprehensions over constant tables, local dicts that are filled in and emptied key by key --------------------
    def _dictcomp(self, e, at):
        """{k: v for x, y in TABLE} with TABLE a constant (module-level tuple of names and defaults ...): the dict display it builds"""
        items = []
        outer_env = dict(self._cenv or {})

        def rec(i, env, cenv):
            if i == len(e.generators):
                saved = self._cenv
                self._cenv = dict(outer_env, **cenv)
                try:
                    items.append((self._ev(e.key, at), self._ev(e.value, at)))
                finally:
                    self._cenv = saved
                return
            g = e.generators[i]
            if g.is_async:
                raise NotConst()
            it = const_eval(g.iter, env, self.mod)
            if isinstance(it, (str, bytes, dict, set, frozenset)) or not hasattr(it, "__iter__"):
                raise NotConst()
            for v in it:
                names = [g.target] if isinstance(g.target, ast.Name) else (list(g.target.elts) if isinstance(g.target, (ast.Tuple, ast.List)) else None)
                if names is None or not all(isinstance(x, ast.Name) for x in names):
                    raise NotConst()
                vals = [v] if isinstance(g.target, ast.Name) else list(v) if isinstance(v, (tuple, list)) else None
                if vals is None or len(vals) != len(names):
                    raise NotConst()
                env2 = dict(env, **{x.id: w for x, w in zip(names, vals)})
                if all(_const_truth(c, env2, self.mod, 0) for c in g.ifs):
                    rec(i + 1, env2, dict(cenv, **{x.id: const_term(w) for x, w in zip(names, vals)}))
        try:
            if self.fi is not None and any(isinstance(x, ast.Name) and self.fi is not None and at is not None and at.id in self.view.reach
                                           and self.rd()[at.id].get(x.id) for g in e.generators for x in ast.walk(g.iter)):
                return None         # the table is a local, not a module constant
            rec(0, {}, {})
        except (NotConst, TypeError):
            return None
        keys = [k for k, _ in items]
        if not all(is_lit(k) for k in keys) or len(set(keys)) != len(keys):
            return None
        return ("dict", tuple(items))

    def _dict_events(self, name):
        """how the local `name`, defined once as a dict display, is used: [(node, 'set', key, value expr) | (node, 'pop', key, None)]
        or None when it is used in a way this does not follow (handed to a function, aliased, updated wholesale ...)"""
        if name in self._dicts:
            return self._dicts[name]
        self._dicts[name] = None
        parents = {}
        for x in walk_no_nested(self.fi.node):
            for y in ast.iter_child_nodes(x):
                parents[id(y)] = x
        defs, events = [], []
        ok = True
        for x in walk_no_nested(self.fi.node):
            if not (isinstance(x, ast.Name) and x.id == name):
                continue
            par = parents.get(id(x))
            gp = parents.get(id(par))
            if isinstance(par, ast.Assign) and x in par.targets:
                defs.append(par)
            elif isinstance(par, ast.Subscript) and par.value is x:
                k = par.slice.value if isinstance(par.slice, ast.Constant) and isinstance(par.slice.value, str) else None
                if isinstance(par.ctx, ast.Load):
                    pass
                elif k is None:
                    ok = False
                elif isinstance(par.ctx, ast.Store) and isinstance(gp, ast.Assign) and gp.targets == [par]:
                    events.append((self.owner(gp.value), "set", k, gp.value))
                elif isinstance(par.ctx, ast.Del):
                    events.append((self.owner(par), "pop", k, None))
                else:
                    ok = False
            elif isinstance(par, ast.Attribute) and par.value is x and isinstance(gp, ast.Call) and gp.func is par:
                if par.attr in ("get", "keys", "items", "values", "copy"):
                    pass
                elif par.attr == "pop" and gp.args and isinstance(gp.args[0], ast.Constant) and isinstance(gp.args[0].value, str):
                    events.append((self.owner(gp), "pop", gp.args[0].value, None))
                else:
                    ok = False
            elif isinstance(par, ast.keyword) and par.arg is None:
                pass
            elif isinstance(par, ast.Compare) and x in par.comparators and all(isinstance(o, (ast.In, ast.NotIn)) for o in par.ops):
                pass
            elif isinstance(par, ast.Call) and x in par.args and isinstance(par.func, ast.Name) and par.func.id in ("dict", "len", "sorted", "list", "bool"):
                pass
            else:
                ok = False
        if not ok or len(defs) != 1 or any(n is None for n, _, _, _ in events):
            return None
        dn = self.owner(defs[0].value)
        if dn is None:
            return None
        saved, self._cenv = self._cenv, None
        base = self._ev(defs[0].value, dn)
        self._cenv = saved
        if base[0] == "call" and base[1] == "dict" and not base[2] and all(k != "**" for k, _ in base[3]):
            base = ("dict", tuple((lit(k), v) for k, v in base[3]))
        if base[0] != "dict" or not all(is_lit(k, str) for k, _ in base[1]):
            return None
        self._dicts[name] = (dn, base, events)
        return self._dicts[name]

    def dict_values(self, name, key, at):
        """what the local dict `name` can hold under the constant key when control is at node `at` (the operation at `at` itself not
        counted): ([terms], may the key be absent) or None when the dict is not followed"""
        if self.fi is None or at is None or at.id not in self.view.reach or name == self.selfname:
            return None
        defs = self.rd()[at.id].get(name)
        if not defs or len(defs) != 1:
            return None
        model = self._dict_events(name)
        if model is None or next(iter(defs)) != model[0].id:
            return None
        dn, base, events = model
        mine = [(n, kind, v) for n, kind, k, v in events if k == key and n.id != at.id]
        basev = dict((k[1], v) for k, v in base[1])
        cands = [(dn, "set" if key in basev else "pop", None)] + mine
        vals, absent = [], False
        for n, kind, v in cands:
            others = [m for m, _, _ in cands if m.id != n.id]
            if not self.view.reaches(n, at, avoiding=others):
                continue
            if kind == "pop":
                absent = True
            else:
                t = basev[key] if v is None else self.ev(v, n)
                if t not in vals:
                    vals.append(t)
        return vals, absent

    def dict_entry(self, name, key, at):
        r = self.dict_values(name, key, at)
        if r is not None and len(r[0]) == 1 and not r[1]:
            return r[0][0]
        return None

    def self_attr(self, attr, at):
        """value of self.<attr> at node `at`: its single dominating assignment in this method; in a helper reached through
        self.helper(...) that does not assign it, what it is in the calling method at the call"""
        ds = self.attr_defs().get("%s.%s" % (self.selfname, attr), [])
        if len(ds) == 1 and ds[0][1] is not None and ds[0][0].id != at.id and self.view.dominates(ds[0][0], at):
            return self.ev(ds[0][1], ds[0][0])
        if not ds and self.outer is not None:
            oev, oat = self.outer
            if oev.fi is not None and oev.selfname is not None and oat is not None and oat.id in oev.view.reach:
                return oev.self_attr(attr, oat)
        if not ds and self.through_helpers:
            t = self._attr_set_by_helper(attr, at)
            if t is not None:
                return t
        return ("attr", SELF, attr)

    through_helpers = False     # opt-in (per rule): self.x that this method does not assign is what a helper method called on self stored

    def _may_assign(self, fi, attr, seen=None):
        """can a call of the method fi assign self.<attr> (directly, through setattr / __dict__, or through methods it calls on self)"""
        seen = seen if seen is not None else set()
        if fi.qualname in seen:
            return False
        seen.add(fi.qualname)
        sn = _selfname(fi)
        if sn is None:
            return True
        for x in walk_no_nested(fi.node):
            if isinstance(x, (ast.Assign, ast.AugAssign, ast.AnnAssign, ast.Delete, ast.For, ast.With, ast.NamedExpr)):
                tg = x.targets if isinstance(x, (ast.Assign, ast.Delete)) else ([it.optional_vars for it in x.items if it.optional_vars is not None] if isinstance(x, ast.With) else [x.target])
                if any(_self_attr(y, sn) == attr for t in tg for y in rules._flat_targets(t)):
                    return True
            elif isinstance(x, ast.Call):
                f = x.func
                if isinstance(f, ast.Name) and f.id in ("setattr", "delattr") and x.args and isinstance(x.args[0], ast.Name) and x.args[0].id == sn:
                    if not (len(x.args) > 1 and isinstance(x.args[1], ast.Constant) and x.args[1].value != attr):
                        return True
                elif _self_attr(f, sn) is not None and fi.cls:
                    g = self.repo.funcs.get("%s.%s.%s" % (fi.module.name, fi.cls, f.attr))
                    if g is not None and self._may_assign(g, attr, seen):
                        return True
                elif any(isinstance(a, ast.Name) and a.id == sn for a in list(x.args) + [k.value for k in x.keywords]):
                    return True         # the object itself handed to something else
            elif isinstance(x, ast.Attribute) and x.attr == "__dict__" and isinstance(x.value, ast.Name) and x.value.id == sn:
                return True
        return False

    def _attr_set_by_helper(self, attr, at):
        """self.<attr> at node `at` of a method that does not assign it itself: when one call `self.h(...)` dominates `at`, no other
        call that can assign the attribute lies between that call and `at`, and h assigns the attribute exactly once on every way to
        its end, the value h stores (its parameters bound to the arguments of the call); None otherwise"""
        cands = []
        for n in self.view.nodes():
            for c in rules.stmts_calls(n):
                g = self.resolve_self_method(c)
                if g is not None and self._may_assign(g, attr):
                    cands.append((n, c, g))
        if any(n.id == at.id for n, _, _ in cands):
            return None
        last = [(n, c, g) for n, c, g in cands if self.view.dominates(n, at)
                and not any(m.id != n.id and self.view.reaches(m, at, avoiding=[n]) for m, _, _ in cands)
                and len([1 for m, _, _ in cands if m.id == n.id]) == 1]
        if len(last) != 1 or self.depth >= self.MAXDEPTH:
            return None
        n, c, g = last[0]
        if g.qualname in self.stack or g is self.fi:
            return None
        args, kws = self._args(c, lambda x: self.ev(x, n))
        b = self.bind(g, args, kws, skip_self=True)
        if b is None:
            return None
        sub = Ev(self.repo, g, flags=self.flags, binds=b, depth=self.depth + 1, stack=self.stack + (self.fi.qualname,), outer=(self, n))
        ds = sub.attr_defs().get("%s.%s" % (sub.selfname, attr), [])
        # the one assignment in the helper, on every way to its end; nothing else in the helper may assign the attribute
        others = [cc for m in sub.view.nodes() for cc in rules.stmts_calls(m)
                  if (sub.resolve_self_method(cc) is not None and self._may_assign(sub.resolve_self_method(cc), attr))
                  or (isinstance(cc.func, ast.Name) and cc.func.id in ("setattr", "delattr"))]
        if len(ds) != 1 or ds[0][1] is None or others or not sub.view.dominates(ds[0][0], sub.cfg.exit):
            return None
        return sub.ev(ds[0][1], ds[0][0])

    # -- calls ------------------------------------------------------------
    def _args(self, c, ev):
        args = tuple(ev(a) for a in c.args)
        kws = tuple(sorted(((k.arg or "**"), ev(k.value)) for k in c.keywords))
        return args, kws

    def bind(self, callee, args, kws, skip_self):
        ps = [p for p in callee.params if not p.startswith("*")]
        if skip_self:
            ps = ps[1:]
        if any(a[0] == "star" for a in args) or any(k == "**" for k, _ in kws) or len(args) > len(ps):
            return None
        b = dict(zip(ps, args))
        for k, v in kws:
            if k in b or (k not in ps and not any(p.startswith("**") for p in callee.params)):
                return None
            b[k] = v
        return b

    def inline(self, callee, bound, outer=None):
        """value returned by a side-effect free helper (straight assignments to locals, decided or merging branches, one
        reachable return) with its parameters bound; None when the callee is anything more than that"""
        if self.depth >= self.MAXDEPTH or callee.qualname in self.stack or (self.fi is not None and callee is self.fi):
            return None
        sub = Ev(self.repo, callee, flags=self.flags, binds=bound, depth=self.depth + 1,
                 stack=self.stack + ((self.fi.qualname,) if self.fi is not None else ()), outer=outer)
        rets = []
        for n in sub.view.nodes():
            a = n.ast
            if n.kind in ("entry", "exit", "raise_exit", "branch"):
                continue
            if n.kind == "return":
                rets.append(n)
                continue
            if n.kind == "raise":
                continue            # a guard clause that raises: when the helper returns, it returns what its return statement says
            if n.kind == "with" and all(it.optional_vars is None or isinstance(it.optional_vars, ast.Name) for it in a.items):
                continue            # `with open(...) as f:` around the assignments: f is ("ctx", <the expression>)
            if n.kind == "stmt":
                if isinstance(a, ast.Pass) or (isinstance(a, ast.Expr) and isinstance(a.value, ast.Constant)):
                    continue
                if isinstance(a, ast.Assign) and all(isinstance(x, ast.Name) for t in a.targets for x in rules._flat_targets(t)):
                    continue
            return None
        if len(rets) != 1 or rets[0].ast.value is None:
            return None
        return sub.ev(rets[0].ast.value, rets[0])

    def resolve_self_method(self, c):
        f = c.func
        if self.fi is not None and self.fi.cls and isinstance(f, ast.Attribute) and isinstance(f.value, ast.Name) and f.value.id == self.selfname:
            return self.repo.funcs.get("%s.%s.%s" % (self.mod.name, self.fi.cls, f.attr))
        return None

    def resolve_module_function(self, c):
        f = c.func
        if isinstance(f, ast.Name) and self.mod is not None and f.id in self.mod.funcs and self.mod.funcs[f.id].cls is None:
            return self.mod.funcs[f.id]
        return None

    def _call(self, c, at, ev):
        args, kws = self._args(c, ev)
        callee = self.resolve_self_method(c)
        if callee is not None:
            b = self.bind(callee, args, kws, skip_self=True)
            if b is None:
                return ("mcall", callee.qualname, (("*", ("tuple", args)), ("**", ("dict", kws))))
            r = self.inline(callee, b, outer=(self, at))
            return r if r is not None else ("mcall", callee.qualname, tuple(sorted(b.items())))
        callee = self.resolve_module_function(c)
        if callee is not None and not (isinstance(c.func, ast.Name) and self.fi is not None and at is not None
                                       and at.id in self.view.reach and self.rd()[at.id].get(c.func.id)):
            b = self.bind(callee, args, kws, skip_self=False)
            r = self.inline(callee, b) if b is not None else None
            if r is not None:
                return r
            return ("call", callee.qualname, args, kws)
        f = c.func
        if isinstance(f, ast.Attribute):
            if isinstance(f.value, ast.Name) and f.attr in ("pop", "get") and 1 <= len(c.args) <= 2 and not c.keywords \
                    and isinstance(c.args[0], ast.Constant) and isinstance(c.args[0].value, str):
                t = self.dict_entry(f.value.id, c.args[0].value, at)
                if t is not None:
                    return t
            ft = ev(f)
            if ft[0] == "glob":
                return ("call", ft[1], args, kws)
            return _fold_meth(ev(f.value), f.attr, args, kws)
        ft = ev(f)
        if ft[0] == "glob":
            if ft[1] in ("str",) and len(args) == 1 and not kws:
                return args[0]
            if ft[1] == "len" and len(args) == 1 and not kws and args[0][0] in ("tuple", "list") and not any(x[0] == "star" for x in args[0][1]):
                return lit(len(args[0][1]))         # the length of a display (one that is filled in later is ("mutable", name), not a display)
            return ("call", ft[1], args, kws)
        nt = _namedtuple_fields(ft)
        if nt is not None and not any(a[0] == "star" for a in args) and not any(k == "**" for k, _ in kws):
            # a record type made by collections.namedtuple called with its fields: the record, field by field
            vals = dict(zip(nt[1], args))
            if len(args) <= len(nt[1]) and not any(k in vals or k not in nt[1] for k, _ in kws):
                vals.update(kws)
                if set(vals) == set(nt[1]):
                    return ("ntuple", nt[0], tuple((f_, vals[f_]) for f_ in nt[1]))
        return ("callx", ft, args, kws)


def _namedtuple_fields(t):
    """t is collections.namedtuple(<name>, <field names>) with constant arguments: (name, [fields]) or None"""
    if t[0] == "call" and t[1] in ("collections.namedtuple", "typing.NamedTuple") and len(t[2]) == 2 and not t[3] and is_lit(t[2][0], str):
        f = t[2][1]
        if is_lit(f, str):
            names = f[1].replace(",", " ").split()
        elif f[0] in ("list", "tuple") and all(is_lit(x, str) for x in f[1]):
            names = [x[1] for x in f[1]]
        else:
            return None
        if t[1] == "collections.namedtuple" and names and len(set(names)) == len(names):
            return t[2][0][1], names
    return None


def _stringy(t):
    return is_lit(t, str) or t[0] in ("cat", "fmt") or (t[0] == "call" and t[1] in ("pprint.pformat", "repr")) \
        or (t[0] == "meth" and t[2] in _STR_PURE + ("join", "format"))


def _printf(fmt, args):
    """'..%s..%20d' % args as a concatenation; None when the format uses something this does not model"""
    d = printf_directives(fmt)
    ds = d["directives"]
    if "%(" in fmt or len(ds) != len(args) or any(x["suppress"] for x in ds):
        return None
    out, pos = [], 0
    for x, a in zip(ds, args):
        out.append(lit(fmt[pos:x["start"]].replace("%%", "%")))
        spec = x["text"][1:]
        out.append(a if spec in ("s",) else ("fmt", spec.replace("l", "").replace("h", ""), a))
        pos = x["end"]
    out.append(lit(fmt[pos:].replace("%%", "%")))
    return mkcat(out)


def _strformat(fmt, args, kws):
    out, auto = [], 0
    try:
        parsed = list(_string.Formatter().parse(fmt))
    except ValueError:
        return None
    kw = dict(kws)
    for text, field, spec, conv in parsed:
        out.append(lit(text))
        if field is None:
            continue
        if field == "":
            idx, auto = auto, auto + 1
            if idx >= len(args):
                return None
            a = args[idx]
        elif field.isdigit():
            if int(field) >= len(args):
                return None
            a = args[int(field)]
        elif field in kw:
            a = kw[field]
        else:
            return None
        if "{" in (spec or ""):
            return None
        a = a if conv in (None, "s") else ("fmt", "!" + conv, a)
        out.append(a if not spec else ("fmt", spec, a))
    return mkcat(out)


def _fold_meth(base, name, args, kws):
    if is_lit(base, str):
        if name == "join" and len(args) == 1 and args[0][0] in ("list", "tuple") and not any(x[0] == "star" for x in args[0][1]):
            ps = []
            for i, x in enumerate(args[0][1]):
                if i:
                    ps.append(base)
                ps.append(x)
            return mkcat(ps)
        if name == "format":
            t = _strformat(base[1], args, kws)
            if t is not None:
                return t
        if name in _STR_PURE and not args and not kws:
            return lit(getattr(base[1], name)())
    return ("meth", base, name, args, kws)


# ---------------------------------------------------------------------------
# path conditions in a canonical form: a list of (atom, truth); comparisons are reduced to Is / Eq / In / Lt atoms with
# the negation folded into the truth value, `not` and the De Morgan cases of and/or are unfolded
# ---------------------------------------------------------------------------

def canon(ev, test, truth, at):
    if isinstance(test, ast.UnaryOp) and isinstance(test.op, ast.Not):
        return canon(ev, test.operand, not truth, at)
    if isinstance(test, ast.BoolOp) and ((isinstance(test.op, ast.And) and truth) or (isinstance(test.op, ast.Or) and not truth)):
        out = []
        for v in test.values:
            out.extend(canon(ev, v, truth, at))
        return out
    if isinstance(test, ast.Compare) and len(test.ops) == 1:
        op = _CMPOP[type(test.ops[0])]
        l, r = ev.ev(test.left, at), ev.ev(test.comparators[0], at)
        return [canon_cmp(op, l, r, truth)]
    return [(ev.ev(test, at), truth)]


def canon_cmp(op, l, r, truth):
    if op in ("IsNot", "NotEq", "NotIn"):
        op, truth = {"IsNot": "Is", "NotEq": "Eq", "NotIn": "In"}[op], not truth
    elif op == "GtE":           # a >= b  ==  not (a < b)
        op, truth = "Lt", not truth
    elif op == "Gt":            # a > b   ==  b < a
        op, l, r = "Lt", r, l
    elif op == "LtE":           # a <= b  ==  not (b < a)
        op, l, r, truth = "Lt", r, l, not truth
    if op in ("Is", "Eq") and (is_lit(l) and not is_lit(r) or (is_lit(l) == is_lit(r) and repr(l) > repr(r))):
        l, r = r, l
    return (("cmp", op, l, r), truth)


def path_literals(ev, node):
    """canonical literals of the branch outcomes the node is control dependent on"""
    out = []
    for b, lab in ev.view.controlling_branches(node):
        if b.kind == "branch" or (b.kind == "loop" and isinstance(b.ast, ast.While)):
            out.extend(canon(ev, b.ast.test, lab == "T", b))
    return out


def callee_ev(ev, n, c):
    """the evaluation context of a private helper (method called on self, function of the module) called at node n, its parameters
    bound to the arguments; None when the call is not one of those"""
    callee, skip = ev.resolve_self_method(c), True
    if callee is None:
        callee, skip = ev.resolve_module_function(c), False
    if callee is None or ev.fi is None or callee.qualname in ev.stack or callee is ev.fi or ev.depth >= 3:
        return None
    args, kws = ev._args(c, lambda x: ev.ev(x, n))
    b = ev.bind(callee, args, kws, skip_self=skip)
    if b is None:
        return None
    return Ev(ev.repo, callee, flags=ev.flags, binds=b, depth=ev.depth + 1, stack=ev.stack + (ev.fi.qualname,), outer=(ev, n) if skip else None)


def return_facts(ev):
    """canonical literals that hold whenever the function returns: those common to all its return statements (none when it can
    also run off its end)"""
    rets = [n for n in ev.view.nodes() if n.kind == "return"]
    if not rets or any(m.kind != "return" for m in ev.view.pred(ev.cfg.exit)):
        return []
    sets = [facts_at(ev, r) for r in rets]
    return [x for x in sets[0] if all(x in s_ for s_ in sets[1:])]


def facts_at(ev, node):
    """path literals of the node, plus what the private helpers called on the way guarantee by having returned: a helper that
    raises unless a condition holds, called at a statement that dominates the node, establishes that condition"""
    out = list(path_literals(ev, node))
    for m in ev.view.nodes():
        if m.kind in ("entry", "exit", "raise_exit") or not ev.view.dominates(m, node):
            continue
        for c in rules.stmts_calls(m):
            sub = callee_ev(ev, m, c)
            if sub is not None:
                out.extend(x for x in return_facts(sub) if x not in out)
    return out


def all_raises(ev):
    """[(ev, node)] for the raise statements of the function and of the private helpers it calls"""
    out = [(ev, n) for n in ev.view.nodes() if n.kind == "raise"]
    for n in ev.view.nodes():
        for c in rules.stmts_calls(n):
            sub = callee_ev(ev, n, c)
            if sub is not None:
                out.extend(all_raises(sub))
    return out


def excluded_values(lits):
    """{term: set of constants} for `term not in {...}` facts among the literals (x != c, x not in (..), conjunctions)"""
    out = {}
    for (atom, truth) in lits:
        if atom[0] == "cmp" and not truth:
            if atom[1] == "Eq" and is_lit(atom[3]):
                out.setdefault(atom[2], set()).add(atom[3][1])
            elif atom[1] == "In" and atom[3][0] in ("tuple", "list", "set") and all(is_lit(x) for x in atom[3][1]):
                out.setdefault(atom[2], set()).update(x[1] for x in atom[3][1])
    return out


# ---------------------------------------------------------------------------
# calls reachable from a function through its private helpers (methods of the same class called on self, functions of the
# same module), each with the evaluation context of the function that contains it
# ---------------------------------------------------------------------------

def find_calls(ev, pred, follow=True, _seen=None):
    """[(ev, cfg node, call)] for calls satisfying pred in ev's function and (follow) in helpers it calls"""
    out = []
    seen = _seen if _seen is not None else {ev.fi.qualname}
    for n in ev.view.nodes():
        for c in rules.stmts_calls(n):
            if pred(c):
                out.append((ev, n, c))
            if not follow or ev.depth >= 3:
                continue
            callee, skip = ev.resolve_self_method(c), True
            if callee is None:
                callee, skip = ev.resolve_module_function(c), False
            if callee is None or callee.qualname in seen:
                continue
            args, kws = ev._args(c, lambda x: ev.ev(x, n))
            b = ev.bind(callee, args, kws, skip_self=skip)
            seen.add(callee.qualname)
            sub = Ev(ev.repo, callee, flags=ev.flags, binds=b if b is not None else {}, depth=ev.depth + 1, stack=ev.stack + (ev.fi.qualname,),
                     outer=(ev, n) if skip else None)
            out.extend(find_calls(sub, pred, follow, seen))
    return out


def named(*names):
    return lambda c: call_name(c) in names


def kw_terms(ev, n, c, name):
    """the possible values of keyword `name` of the call: written at the call, or held under that key by a local dict handed over
    with ** (a dict display plus `d[key] = value` stores, followed through the control flow)"""
    v = kwarg(c, name)
    if v is not None:
        return [ev.ev(v, n)]
    out = []
    for k in c.keywords:
        if k.arg is None:
            if isinstance(k.value, ast.Name):
                r = ev.dict_values(k.value.id, name, n)
                if r is not None:
                    out.extend(r[0])
                    continue
            t = ev.ev(k.value, n)
            if t[0] == "dict":
                out.extend(val for key, val in t[1] if key == lit(name))
    return out


def kwterm(ev, n, c, name):
    v = kwarg(c, name)
    return None if v is None else ev.ev(v, n)


# ---------------------------------------------------------------------------
# constant evaluation (module-level tuples of names, comprehensions over them, str case methods)
# ---------------------------------------------------------------------------

class NotConst(Exception):
    pass


def const_eval(e, env, mod, depth=0):
    if depth > 12:
        raise NotConst()
    ce = lambda x, en=env: const_eval(x, en, mod, depth + 1)
    if isinstance(e, ast.Constant):
        return e.value
    if isinstance(e, ast.Name):
        if e.id in env:
            return env[e.id]
        if mod is not None and e.id in mod.consts:
            return const_eval(mod.consts[e.id], {}, mod, depth + 1)
        raise NotConst()
    if isinstance(e, (ast.Tuple, ast.List)):
        out = []
        for x in e.elts:
            if isinstance(x, ast.Starred):
                out.extend(ce(x.value))
            else:
                out.append(ce(x))
        return tuple(out) if isinstance(e, ast.Tuple) else out
    if isinstance(e, ast.Set):
        return frozenset(ce(x) for x in e.elts)
    if isinstance(e, ast.Dict) and all(k is not None for k in e.keys):
        try:
            return {ce(k): ce(v) for k, v in zip(e.keys, e.values)}
        except TypeError:
            raise NotConst()
    if isinstance(e, ast.BinOp) and isinstance(e.op, ast.Add):
        a, b = ce(e.left), ce(e.right)
        if type(a) is type(b) and isinstance(a, (tuple, list, str)):
            return a + b
        raise NotConst()
    if isinstance(e, ast.Call) and not e.keywords:
        f = e.func
        if isinstance(f, ast.Name) and f.id in ("tuple", "list", "set", "frozenset", "sorted") and f.id not in env and len(e.args) <= 1:
            v = ce(e.args[0]) if e.args else ()
            if isinstance(v, str) or not hasattr(v, "__iter__"):
                raise NotConst()
            return {"tuple": tuple, "list": list, "set": frozenset, "frozenset": frozenset, "sorted": sorted}[f.id](v)
        if isinstance(f, ast.Attribute) and f.attr in _STR_PURE:
            v = ce(f.value)
            a = [ce(x) for x in e.args]
            if isinstance(v, str) and all(isinstance(x, str) for x in a):
                return getattr(v, f.attr)(*a)
        raise NotConst()
    if isinstance(e, (ast.GeneratorExp, ast.ListComp, ast.SetComp)):
        out = []

        def rec(i, en):
            if i == len(e.generators):
                out.append(const_eval(e.elt, en, mod, depth + 1))
                return
            g = e.generators[i]
            if not isinstance(g.target, ast.Name) or g.is_async:
                raise NotConst()
            it = const_eval(g.iter, en, mod, depth + 1)
            if isinstance(it, str) or not hasattr(it, "__iter__"):
                raise NotConst()
            for v in it:
                en2 = dict(en, **{g.target.id: v})
                if all(_const_truth(c, en2, mod, depth + 1) for c in g.ifs):
                    rec(i + 1, en2)
        rec(0, dict(env))
        return frozenset(out) if isinstance(e, ast.SetComp) else (out if isinstance(e, ast.ListComp) else tuple(out))
    raise NotConst()


def _const_truth(c, env, mod, depth):
    if isinstance(c, ast.Compare) and len(c.ops) == 1:
        a, b = const_eval(c.left, env, mod, depth), const_eval(c.comparators[0], env, mod, depth)
        op = c.ops[0]
        try:
            if isinstance(op, ast.Eq):
                return a == b
            if isinstance(op, ast.NotEq):
                return a != b
            if isinstance(op, ast.In):
                return a in b
            if isinstance(op, ast.NotIn):
                return a not in b
        except TypeError:
            pass
    raise NotConst()


def run(chk):
    repo = PyRepo()
    chk.set_templates(repo, semantic=SEMANTIC)
    chk.explanation = MANIFEST["text"]
    chk.trusted = ["pprint.pformat repr-escapes string content", "clang 14 AST", "SWIG naming convention"]
    chk.floor = 40
    cfun = cfront.functions(cfront.load_tu("records"))
    fr = framing(chk, repo, cfun)
    header_bytes_verbatim(chk, cfun)
    size_line(chk, repo, cfun)
    payload(chk, repo, cfun)
    row_transfers(chk, cfun)
    header_content(chk, repo, fr)
    front_ends(chk, repo)
    row_count(chk, repo)
    row_count_accepted(chk, cfun)
    append_dtype_guard(chk, repo)
    handle_state(chk, repo)
    running_row_count(chk, repo)
    binary_rows_contiguous(chk, repo, cfun)


def binary_rows_contiguous(chk, repo, cfun):
    """R01.3: Records::Write copies rows*rowsize bytes from the start of the array's buffer and never looks at the strides, so what
    Recfile.write hands it on the binary path must have its rows one after the other whatever array the caller passed (a strided view
    t[::2] is a structured array like any other).  Decided by the path analysis that C04 uses for the text path."""
    from checks import C04 as _c04
    try:
        tu = _c04._TU(cfun)
    except Exception:
        tu = None
    _c04.recfile_write(chk, repo, tu, binary=("R01.3", "Recfile.write[binary]::write-gets-contiguous-rows",
                       "for binary files the array handed to Records::Write has its rows one after the other in memory whatever array the caller passed "
                       "(ascontiguousarray, a copy, or a test of its flags): the C++ writer copies rows*rowsize bytes from PyArray_DATA and never looks at the strides"),
                       only_binary=True)


# ---------------------------------------------------------------------------
# C / C++ helpers: locals initialised once are replaced by their initialiser before an expression is compared, relational
# tests are brought to one orientation
# ---------------------------------------------------------------------------

def cwhere(node_or_decl):
    ln = node_or_decl.get("line") if isinstance(node_or_decl, dict) else None
    return "%s:%s" % (W, ln) if ln else W


def c_inits(fn, region=None):
    """{local name: initialiser} for locals that are initialised at their declaration and never assigned again.  With `region` (a
    statement, or a set of ids of nodes) only the declarations inside it are taken: the same name declared in two sibling scopes
    (`int c = fgetc(f)` inside a loop and again after it) is two variables"""
    body = cfront.body_of(fn)
    inits, written = {}, set()
    if isinstance(region, dict):
        region = {id(x) for x in cfront.walk(region)}
    for x in cfront.walk(body):
        k = x.get("kind")
        if k == "VarDecl" and x.get("name") and region is not None and id(x) not in region:
            continue
        if k == "VarDecl" and x.get("name"):
            init = [y for y in x.get("inner", []) or [] if isinstance(y, dict) and y.get("kind")]
            if init:
                if x["name"] in inits:
                    written.add(x["name"])
                if cfront.strip(init[-1]).get("kind") == "CXXConstructExpr":
                    written.add(x["name"])          # an object (std::string ...): it has state, it is not a name for a value
                inits[x["name"]] = init[-1]
        elif k in ("BinaryOperator", "CompoundAssignOperator") and (x.get("opcode") == "=" or k == "CompoundAssignOperator"):
            l = cfront.strip(x["inner"][0])
            if l.get("kind") == "DeclRefExpr":
                written.add(cfront.render(l))
        elif k == "UnaryOperator" and x.get("opcode") in ("++", "--"):
            l = cfront.strip(x["inner"][0])
            if l.get("kind") == "DeclRefExpr":
                written.add(cfront.render(l))
    return {k: v for k, v in inits.items() if k not in written}


def c_string_consts(fn):
    """{local name: text} for `const std::string x = "literal"` locals"""
    out = {}
    for x in cfront.walk(cfront.body_of(fn)):
        if x.get("kind") == "VarDecl" and x.get("name") and "const" in (x.get("type") or {}).get("qualType", "") and "string" in (x.get("type") or {}).get("qualType", ""):
            init = [y for y in x.get("inner", []) or [] if isinstance(y, dict) and y.get("kind")]
            v = c_string_literal(init[-1]) if init else None
            if v is not None:
                out[x["name"]] = v
    return out


def c_const_int(n, inits):
    """value of a C integer constant expression over literals, sizeof of a string literal / of a constant char array initialised with
    one (its length plus the terminating NUL), once-initialised locals and + - *; None when it is anything else"""
    n = cfront.strip(c_subst(n, inits))
    k = n.get("kind")
    inner = [y for y in (n.get("inner") or []) if isinstance(y, dict)]
    if k == "IntegerLiteral":
        try:
            return int(n.get("value"))
        except (TypeError, ValueError):
            return None
    if k == "UnaryExprOrTypeTraitExpr" and n.get("name", "sizeof") == "sizeof" and inner:
        lit_ = c_string_literal(inner[0])
        return None if lit_ is None else len(lit_.encode("latin-1", "replace")) + 1
    if k == "BinaryOperator" and n.get("opcode") in ("+", "-", "*") and len(inner) == 2:
        a, b = c_const_int(inner[0], {}), c_const_int(inner[1], {})
        if a is None or b is None:
            return None
        return a + b if n["opcode"] == "+" else (a - b if n["opcode"] == "-" else a * b)
    if k == "CXXMemberCallExpr" and cfront.callee_name(n) in ("size", "length") and not cfront.call_args(n):
        return None
    return None


def c_subst(n, inits, depth=0):
    """copy of an expression with references to once-initialised locals replaced by their initialiser"""
    if not isinstance(n, dict):
        return n
    if n.get("kind") == "DeclRefExpr" and depth < 6:
        rd = n.get("referencedDecl") or {}
        if rd.get("kind") == "VarDecl" and rd.get("name") in inits:
            return c_subst(inits[rd["name"]], inits, depth + 1)
    out = dict(n)
    if "inner" in n:
        out["inner"] = [c_subst(c, inits, depth) for c in (n.get("inner") or [])]
    return out


def c_render(n, inits):
    return cfront.render(c_subst(n, inits))


_CNEG = {"==": "!=", "!=": "==", "<": ">=", ">=": "<", ">": "<=", "<=": ">"}
_CSWAP = {"==": "==", "!=": "!=", "<": ">", ">": "<", "<=": ">=", ">=": "<="}


def c_relation(cond, truth, inits):
    """(lhs text, operator, rhs text) of a relational test that is taken with the given truth value, `!` unfolded"""
    n = cfront.strip(c_subst(cond, inits))
    while n.get("kind") == "UnaryOperator" and n.get("opcode") == "!":
        n = cfront.strip(n["inner"][0])
        truth = not truth
    if n.get("kind") == "BinaryOperator" and n.get("opcode") in _CNEG:
        op = n["opcode"] if truth else _CNEG[n["opcode"]]
        return cfront.render(n["inner"][0]), op, cfront.render(n["inner"][1])
    return None


def c_controls(ccfg, node, inits):
    """relations the node is control dependent on"""
    out = []
    for b, lab in ccfg.view().controlling_branches(node):
        if b.c is None or lab not in ("T", "F"):
            continue
        r = c_relation(b.c, lab == "T", inits)
        out.append(r if r is not None else (cfront.render(b.c), "T" if lab == "T" else "F", None))
    return out


def holds(rels, lhs, op, rhs):
    """is `lhs op rhs` one of the relations (either orientation)"""
    return any((l, o, r) == (lhs, op, rhs) or (r, _CSWAP.get(o), l) == (lhs, op, rhs) for l, o, r in rels if r is not None)


def c_emptiness(cond, truth=True):
    """Is the C++ condition, taken with the given truth value, a test whether a std::string is empty?  Recognised spellings:
    X == "" / "" == X / X != "", X.empty(), X.size() / X.length() compared with 0 or 1 (== 0, != 0, > 0, < 1, >= 1, 0 < ...),
    strlen(X.c_str()) likewise, a bare length as a truth value, any of these under `!`.
    Returns (text of X, True when the outcome means "X is empty" / False when it means "X is not empty") or None."""
    n = cfront.strip(cond)
    while n.get("kind") == "UnaryOperator" and n.get("opcode") == "!":
        n = cfront.strip(n["inner"][0])
        truth = not truth

    def length_of(x):
        x = cfront.strip(x)
        if x.get("kind") == "CXXMemberCallExpr" and cfront.callee_name(x) in ("size", "length") and not cfront.call_args(x):
            return cfront.render(cfront.strip(x["inner"][0])["inner"][0])
        if x.get("kind") == "CallExpr" and cfront.callee_name(x) == "strlen" and len(cfront.call_args(x)) == 1:
            a = cfront.strip(cfront.call_args(x)[0])
            if a.get("kind") == "CXXMemberCallExpr" and cfront.callee_name(a) in ("c_str", "data") and not cfront.call_args(a):
                return cfront.render(cfront.strip(a["inner"][0])["inner"][0])
        return None
    k = n.get("kind")
    if k == "CXXMemberCallExpr" and cfront.callee_name(n) == "empty" and not cfront.call_args(n):
        return cfront.render(cfront.strip(n["inner"][0])["inner"][0]), truth
    if length_of(n) is not None:                       # a length used as a truth value: non-zero, not empty
        return length_of(n), not truth
    op, args = None, None
    if k == "CXXOperatorCallExpr" and cfront.callee_name(n) in ("operator==", "operator!="):
        op, args = cfront.callee_name(n)[len("operator"):], cfront.call_args(n)
    elif k == "BinaryOperator" and n.get("opcode") in _CNEG:
        op, args = n["opcode"], n["inner"]
    if op is None or len(args) != 2:
        return None
    l, r = args
    if c_string_literal(l) is not None or cfront.strip(l).get("kind") == "IntegerLiteral":
        l, r, op = r, l, _CSWAP[op]
    if c_string_literal(r) == "" and op in ("==", "!=") and c_string_literal(l) is None:
        return cfront.render(l), truth == (op == "==")
    L = length_of(l)
    rv = cfront.strip(r)
    if L is not None and rv.get("kind") == "IntegerLiteral" and str(rv.get("value")) in ("0", "1"):
        # over the non-negative lengths: which comparisons with 0 / 1 say "length is 0"
        empty_when = {("==", "0"): True, ("<=", "0"): True, ("<", "1"): True, ("!=", "0"): False, (">", "0"): False, (">=", "1"): False}
        e = empty_when.get((op, str(rv.get("value"))))
        if e is not None:
            return L, truth == e
    return None


def file_type_by_delimiter(fn):
    """Every assignment to mFileType in fn, with the emptiness tests on mDelim it is control dependent on (the arms of a
    conditional expression count as branches).  (verdict, description): True when BINARY_FILE is stored exactly under "mDelim is
    empty" and something else exactly under "not empty"; False when a store contradicts that; None when a store is not governed by a
    recognised emptiness test of the delimiter."""
    ccfg = cfront.CCFG(fn)
    view = ccfg.view()
    cases = []          # (value text, [emptiness facts], number of unrecognised controlling tests)

    def split(v, facts):
        v = cfront.strip(v)
        if v.get("kind") == "ConditionalOperator":
            c, a, b = v["inner"][:3]
            return split(a, facts + [(c, True)]) + split(b, facts + [(c, False)])
        return [(cfront.render(v), facts)]
    for n in ccfg.nodes:
        if n.kind != "stmt" or not isinstance(n.c, dict):
            continue
        for x in cfront.walk(n.c):
            if x.get("kind") == "BinaryOperator" and x.get("opcode") == "=" and cfront.render(x["inner"][0]) == "mFileType":
                ctl = [(b.c, lab == "T") for b, lab in view.controlling_branches(n) if b.c is not None and lab in ("T", "F")]
                for val, facts in split(x["inner"][1], ctl):
                    em = [c_emptiness(c, t) for c, t in facts]
                    cases.append((val, [e for e in em if e is not None and e[0] == "mDelim"], len([e for e in em if e is None or e[0] != "mDelim"])))
    seen = [(v, ["mDelim %s" % ("empty" if e[1] else "not empty") for e in es] + ["?"] * u) for v, es, u in cases]
    if not cases:
        return None, seen
    verdicts = []
    for val, es, unk in cases:
        truths = {e[1] for e in es}
        if len(truths) != 1:
            verdicts.append(None)           # not governed by the delimiter test (or by contradictory ones)
            continue
        empty = truths.pop()
        good = (val == "BINARY_FILE") == empty
        # a wrong store is wrong whatever else guards it; a right one is only known to be complete when nothing else guards it
        verdicts.append(False if not good else (True if not unk else None))
    if False in verdicts:
        return False, seen
    if None in verdicts:
        return None, seen
    both = any(v == "BINARY_FILE" for v, _, _ in cases) and any(v != "BINARY_FILE" for v, _, _ in cases)
    return (True if both else None), seen



_BYTE_READS = ("fgetc", "getc", "getc_unlocked", "fread", "fgets")


def _has_sentinel_cmp(l):
    return any(cfront.callee_name(c) in ("strncmp", "memcmp") for c in cfront.calls_in(l)) or \
        any(c.get("kind") == "CXXMemberCallExpr" and cfront.callee_name(c) == "compare" for c in cfront.walk(l))


def _loop_depends_on_bytes(fn, l):
    """does the number of iterations of loop l depend on what is read from the file: its condition, or the condition of an
    `if` inside it that leaves the loop, contains a byte-reading call or a variable that receives one.  Text or None."""
    bytevars = set()
    for x in cfront.walk(cfront.body_of(fn)):
        k = x.get("kind")
        if k == "VarDecl" and x.get("name"):
            init = [y for y in x.get("inner", []) or [] if isinstance(y, dict) and y.get("kind")]
            if init and any(cfront.callee_name(c) in _BYTE_READS for c in cfront.calls_in(init[-1])):
                bytevars.add(x["name"])
        elif k == "BinaryOperator" and x.get("opcode") == "=":
            lhs = cfront.strip(x["inner"][0])
            if lhs.get("kind") == "DeclRefExpr" and any(cfront.callee_name(c) in _BYTE_READS for c in cfront.calls_in(x["inner"][1])):
                bytevars.add(cfront.render(lhs))

    def reads(c):
        if not isinstance(c, dict) or not c.get("kind"):
            return False
        return any(cfront.callee_name(y) in _BYTE_READS for y in cfront.calls_in(c)) or \
            any(y.get("kind") == "DeclRefExpr" and (y.get("referencedDecl") or {}).get("name") in bytevars for y in cfront.walk(c))
    inner = l.get("inner", []) or []
    k = l.get("kind")
    cond = inner[0] if k == "WhileStmt" else (inner[1] if k == "DoStmt" and len(inner) > 1 else ((inner + [{}] * 5)[2] if k == "ForStmt" else None))
    if reads(cond):
        return "while `%s` holds, a test on the bytes read from the file" % cfront.render(cond)
    for x in cfront.walk(l):
        if x.get("kind") == "IfStmt" and reads(x["inner"][0]) and any(y.get("kind") in ("BreakStmt", "ReturnStmt", "GotoStmt") for y in cfront.walk(x)):
            return "until `%s`, a test on the bytes read from the file" % cfront.render(x["inner"][0])
    return None


_C_CONST_LEAVES = ("IntegerLiteral", "CharacterLiteral", "UnaryExprOrTypeTraitExpr", "CXXBoolLiteralExpr")


def _c_is_constant(e):
    """an expression built from literals, sizeof, enumerators and const-qualified variables only (no call, no member, no variable
    that can change)"""
    for x in cfront.walk(e):
        k = x.get("kind")
        if k in ("CallExpr", "CXXMemberCallExpr", "CXXOperatorCallExpr", "MemberExpr", "CXXThisExpr", "ArraySubscriptExpr", "CXXConstructExpr"):
            return False
        if k == "DeclRefExpr":
            rd_ = x.get("referencedDecl") or {}
            if rd_.get("kind") == "EnumConstantDecl":
                continue
            q = (rd_.get("type") or {}).get("qualType", "")
            if rd_.get("kind") == "VarDecl" and q.startswith("const ") and "*" not in q:
                continue
            return False
    return any(x.get("kind") in _C_CONST_LEAVES or x.get("kind") == "DeclRefExpr" for x in cfront.walk(e))


def scan_length_bounds(rd):
    """Exits of the C++ header reader that are taken because the amount of header text scanned so far has reached a constant.
    The quantities that measure it: variables incremented inside the byte scanning loop, and std::strings the bytes are appended
    to (their size()).  An exit (throw, return, break / goto out of the loop, the loop's own condition becoming false) that is
    control dependent on `<such a quantity> > / >= / == <constant>` gives up on every header longer than the constant.
    Returns (verdict, text, line): False with the offending exit; None when such a comparison is only one part of a compound
    condition (not decided); True otherwise."""
    body = cfront.body_of(rd)
    inits = c_inits(rd)
    loops = [x for x in cfront.walk(body) if x.get("kind") in ("WhileStmt", "DoStmt", "ForStmt")]
    scan = [l for l in loops if any(cfront.callee_name(c) in _BYTE_READS for c in cfront.calls_in(l))]
    if len(scan) > 1:
        withcmp = [l for l in scan if _has_sentinel_cmp(l)]
        scan = [l for l in withcmp if not any(m is not l and id(m) in {id(x) for x in cfront.walk(l)} for m in withcmp)] or scan
    if len(scan) != 1:
        return None, "the byte scanning loop was not found", None
    loop = scan[0]
    inloop = {id(x) for x in cfront.walk(loop)}
    grow = set()
    for x in cfront.walk(loop):
        k = x.get("kind")
        if (k == "UnaryOperator" and x.get("opcode") == "++") or (k == "CompoundAssignOperator" and x.get("opcode") == "+="):
            l = cfront.strip(x["inner"][0])
            if l.get("kind") == "DeclRefExpr":
                grow.add(cfront.render(l))
        elif k == "CXXMemberCallExpr" and cfront.callee_name(x) in ("push_back", "append"):
            obj = cfront.strip(cfront.strip(x["inner"][0]).get("inner", [{}])[0])
            if obj.get("kind") == "DeclRefExpr":
                grow.add(cfront.render(obj))
        elif k == "CXXOperatorCallExpr" and cfront.callee_name(x) == "operator+=":
            a = cfront.call_args(x)
            if a and cfront.strip(a[0]).get("kind") == "DeclRefExpr":
                grow.add(cfront.render(a[0]))
    grow.discard(None)
    # a variable that is set afresh inside the scanning loop (declared there, or assigned: the index of a small inner loop) does
    # not measure the text scanned; the initialisation clause of the scanning loop itself runs once
    own_init = {id(x) for x in cfront.walk(loop["inner"][0])} if loop.get("kind") == "ForStmt" and loop.get("inner") and isinstance(loop["inner"][0], dict) else set()
    for x in cfront.walk(loop):
        if id(x) in own_init:
            continue
        if x.get("kind") == "VarDecl" and x.get("name"):
            grow.discard(x["name"])
        elif x.get("kind") == "BinaryOperator" and x.get("opcode") == "=":
            l = cfront.strip(x["inner"][0])
            if l.get("kind") == "DeclRefExpr":
                grow.discard(cfront.render(l))

    def measures(e):
        """is e one of the growing quantities: the counter itself, or size()/length() of the accumulated text"""
        e = cfront.strip(e)
        if e.get("kind") == "DeclRefExpr":
            return cfront.render(e) in grow
        if e.get("kind") == "CXXMemberCallExpr" and cfront.callee_name(e) in ("size", "length") and not cfront.call_args(e):
            return cfront.render(cfront.strip(cfront.strip(e["inner"][0]).get("inner", [{}])[0])) in grow
        if e.get("kind") == "BinaryOperator" and e.get("opcode") in ("+", "-"):
            l, r = e["inner"]
            return (measures(l) and _c_is_constant(r)) or (e.get("opcode") == "+" and measures(r) and _c_is_constant(l))
        return False

    def bound(cond, truth, want):
        """('direct', text): the condition, taken with this truth value, is `quantity OP constant` with OP one of `want`;
        ('part', text): a conjunction with such a comparison inside; None otherwise"""
        n = cfront.strip(cond)
        while n.get("kind") == "UnaryOperator" and n.get("opcode") == "!":
            n = cfront.strip(n["inner"][0])
            truth = not truth
        if n.get("kind") != "BinaryOperator":
            return None
        op = n.get("opcode")
        if op in ("&&", "||"):
            subs = [bound(x, truth, want) for x in n["inner"]]
            if ((op == "||" and truth) or (op == "&&" and not truth)) and all(s_ and s_[0] == "direct" for s_ in subs):
                return subs[0]          # every alternative is a length limit
            hit = [s_ for s_ in subs if s_]
            return ("part", hit[0][1]) if hit else None
        if op not in _CNEG:
            return None
        l, r = n["inner"]
        if not truth:
            op = _CNEG[op]
        raw_l, raw_r = l, r
        l, r = c_subst(l, inits), c_subst(r, inits)
        if measures(raw_r) and _c_is_constant(l) and not measures(raw_l):
            l, r, raw_l, raw_r, op = r, l, raw_r, raw_l, _CSWAP[op]
        if measures(raw_l) and _c_is_constant(r) and op in want:
            return ("direct", "%s %s %s" % (cfront.render(raw_l), op, cfront.render(r)))
        return None
    bytevars = set()
    for x in cfront.walk(body):
        if x.get("kind") == "VarDecl" and x.get("name"):
            init = [y for y in x.get("inner", []) or [] if isinstance(y, dict) and y.get("kind")]
            if init and any(cfront.callee_name(c) in _BYTE_READS for c in cfront.calls_in(init[-1])):
                bytevars.add(x["name"])
        elif x.get("kind") == "BinaryOperator" and x.get("opcode") == "=":
            lhs = cfront.strip(x["inner"][0])
            if lhs.get("kind") == "DeclRefExpr" and any(cfront.callee_name(c) in _BYTE_READS for c in cfront.calls_in(x["inner"][1])):
                bytevars.add(cfront.render(lhs))

    def about_the_bytes(c):
        """the condition looks at what was read from the file (the byte, end of file, an I/O error) or is the sentinel comparison"""
        return _has_sentinel_cmp(c) or any(cfront.callee_name(y) in _BYTE_READS + ("feof", "ferror") for y in cfront.calls_in(c)) or bool(_c_refs(c) & bytevars)
    EXCEEDED, BELOW = (">", ">=", "=="), ("<", "<=")
    ccfg = cfront.CCFG(rd)
    view = ccfg.view()
    found_part = None
    for n in ccfg.nodes:
        if n.id not in view.reach:
            continue
        ctl = [(b.c, lab == "T") for b, lab in view.controlling_branches(n) if b.c is not None and lab in ("T", "F")]
        ctl = [y for c, t in ctl for y in _c_conjuncts(c, t)]          # `if (a && b)` is `if (a) if (b)`
        conds, want, what, how = [], EXCEEDED, None, "is taken when"
        if n.kind == "return":
            # the text is returned: that must not require the scanned length to stay under a constant
            conds, want, what, how = ctl, BELOW, "the return of the header text", "is reached only when"
        elif n.kind == "raise" or (n.kind == "stmt" and n.label in ("break", "goto") and isinstance(n.c, dict) and id(n.c) in inloop):
            # giving up / leaving the scan; an exit that also depends on what was read (end of file, an I/O error, the sentinel
            # found) is not an exit because of the length
            if not any(about_the_bytes(c) and bound(c, t, EXCEEDED) is None and
                       ((_has_sentinel_cmp(c) and _sentinel_mismatch(c, t) is not True) or _eof_test(c, t, bytevars)) for c, t in ctl):
                conds, what = ctl, ("the throw" if n.kind == "raise" else "the %s" % n.label)
        elif n.kind == "loop" and n.c is not None and id(n.c) in inloop:
            # leaving the scanning loop (or a loop inside it) because its condition became false
            conds, what = [(n.c, False)], "the end of the loop `%s`" % cfront.render(n.c)[:60]
        for c, truth in conds:
            b = bound(c, truth, want)
            if b is None:
                continue
            txt = "%s at line %s %s `%s`: the reader gives up after a fixed amount of header text, a file whose header is longer can be written but not read back" % (what, n.lineno or "?", how, b[1])
            if b[0] == "direct":
                return False, txt, n.lineno
            found_part = found_part or (txt, n.lineno)
    if found_part:
        return None, found_part[0] + " (the comparison is one part of a compound condition: not decided)", found_part[1]
    return True, "", rd.get("line")


def _sentinel_mismatch(cond, truth):
    """the condition, taken with this truth value, says that the sentinel comparison did NOT match (strncmp / memcmp / compare
    returned non-zero): True / False; None when the condition is not a plain test of the comparison's result"""
    n = cfront.strip(cond)
    while n.get("kind") == "UnaryOperator" and n.get("opcode") == "!":
        n = cfront.strip(n["inner"][0])
        truth = not truth
    is_cmp = lambda x: (x.get("kind") == "CallExpr" and cfront.callee_name(x) in ("strncmp", "memcmp")) or \
        (x.get("kind") == "CXXMemberCallExpr" and cfront.callee_name(x) == "compare")
    if is_cmp(n):
        return truth                    # a non-zero result used as a truth value
    if n.get("kind") == "BinaryOperator" and n.get("opcode") in ("==", "!="):
        a, b = [cfront.strip(x) for x in n["inner"]]
        if is_cmp(b):
            a, b = b, a
        if is_cmp(a) and b.get("kind") == "IntegerLiteral" and str(b.get("value")) == "0":
            return (n["opcode"] == "!=") == truth
    return None


def _c_conjuncts(cond, truth):
    """the conditions that all hold when `cond` is taken with this truth value: a && b taken true is a and b, a || b taken false
    is !a and !b, `!` unfolded; anything else is itself"""
    n = cfront.strip(cond)
    if n.get("kind") == "UnaryOperator" and n.get("opcode") == "!":
        return _c_conjuncts(n["inner"][0], not truth)
    if n.get("kind") == "BinaryOperator" and ((n.get("opcode") == "&&" and truth) or (n.get("opcode") == "||" and not truth)):
        return [y for x in n["inner"] for y in _c_conjuncts(x, truth)]
    return [(cond, truth)]


def _eof_test(cond, truth, bytevars):
    """the condition, taken with this truth value, says that the read hit the end of the file or failed: `c == EOF`, `EOF == fgetc(f)`,
    feof(f) / ferror(f), a short fread"""
    n = cfront.strip(cond)
    while n.get("kind") == "UnaryOperator" and n.get("opcode") == "!":
        n = cfront.strip(n["inner"][0])
        truth = not truth
    if n.get("kind") in ("CallExpr",) and cfront.callee_name(n) in ("feof", "ferror"):
        return truth
    if n.get("kind") == "BinaryOperator" and n.get("opcode") in ("==", "!=", "<"):
        eq = (n["opcode"] != "!=") == truth
        sides = [cfront.strip(x) for x in n["inner"]]
        rend = [cfront.render(x) for x in sides]
        reads = [bool(_c_refs(x) & bytevars) or any(cfront.callee_name(y) in _BYTE_READS for y in cfront.calls_in(x)) for x in sides]
        if any(reads) and eq and (n["opcode"] == "<" or any(r_ in ("-1", "(-1)", "EOF") for r_ in rend)):
            return True
    return False


def _c_after(body, stmt):
    """the statements executed, in this order, once `stmt` has been left normally: its later siblings in the block it stands in, then
    those of the enclosing blocks (plain blocks and try blocks only; None when stmt is nested in anything else)"""
    par = _c_parents(body)
    out, x = [], stmt
    while id(x) in par:
        p = par[id(x)]
        kids = [y for y in (p.get("inner") or []) if isinstance(y, dict) and y.get("kind")]
        if p.get("kind") == "CompoundStmt":
            out.extend(kids[[id(y) for y in kids].index(id(x)) + 1:])
        elif not (p.get("kind") == "CXXTryStmt" and kids and kids[0] is x):
            return None
        x = p
    return out


def _c_lin(n, env, consts):
    """(a, b) when the integer expression is a * <the counter when the scan ended> + b with constants a, b: literals, sizeof, named
    constants, the variables of env (their value at this point), + - and products with a constant; None for anything else"""
    n = cfront.strip(n)
    k = n.get("kind")
    inner = [y for y in (n.get("inner") or []) if isinstance(y, dict) and y.get("kind")]
    if k == "DeclRefExpr":
        nm = (n.get("referencedDecl") or {}).get("name")
        if nm in env:
            return env[nm]
    if k == "BinaryOperator" and n.get("opcode") in ("+", "-", "*") and len(inner) == 2:
        a, b = _c_lin(inner[0], env, consts), _c_lin(inner[1], env, consts)
        if a is None or b is None:
            return None
        if n["opcode"] == "*":
            if a[0] and b[0]:
                return None
            return (a[0] * b[1] + b[0] * a[1], a[1] * b[1])
        sg = 1 if n["opcode"] == "+" else -1
        return (a[0] + sg * b[0], a[1] + sg * b[1])
    if k == "UnaryOperator" and n.get("opcode") in ("+", "-") and inner:
        a = _c_lin(inner[0], env, consts)
        return None if a is None else (a if n["opcode"] == "+" else (-a[0], -a[1]))
    if any((x.get("referencedDecl") or {}).get("name") in env for x in cfront.walk(n) if x.get("kind") == "DeclRefExpr"):
        return None
    if k == "UnaryExprOrTypeTraitExpr" and n.get("name", "sizeof") == "sizeof" and not inner:
        sz = _C_SIZEOF.get(" ".join(w for w in ((n.get("argType") or {}).get("qualType") or "").split() if w not in ("const", "volatile")))
        return None if sz is None else (0, sz)
    c = c_const_int(n, consts)
    return None if c is None else (0, c)


def header_bytes_reread(rd, body, loop, cnt):
    """(K, text): the one fread that follows the scanning loop takes <bytes counted by the loop> + K bytes.  The statements that
    follow the loop are read in execution order, keeping for the counter and for every variable computed from it its value as
    counter-at-loop-exit + constant: `count += 1; fread(p, 1, count, f)`, `count++`, `const size_t n = 1 + count; fread(p, 1, n, f)`,
    `fread(p, 1, count + 1, f)`, `fread(p, count + 1, 1, f)` are the same length.  A variable stored to under a branch or in a loop,
    or whose address is taken, has no known value from there on.  K is None when the length is not of that form."""
    seq = _c_after(body, loop)
    if seq is None:
        return None, "the scanning loop is nested in a branch or loop"
    consts = c_inits(rd)
    env = {cnt: (1, 0)}
    par = _c_parents(body)

    def forget(st, but=()):
        for nm, x, kind in _c_writes(st):
            if id(x) not in but:
                env.pop(nm, None)
        for x in cfront.walk(st):
            if x.get("kind") == "UnaryOperator" and x.get("opcode") == "&" and _c_kids(x):
                t = cfront.strip(_c_kids(x)[0])
                if t.get("kind") == "DeclRefExpr":
                    env.pop((t.get("referencedDecl") or {}).get("name"), None)

    for st in seq:
        frs = [c for c in cfront.calls_in(st) if cfront.callee_name(c) == "fread"]
        if frs:
            # executed exactly once: not under a loop, not in an arm of a branch (the condition of an if is fine)
            x = frs[0]
            while x is not st:
                p = par[id(x)]
                pk = p.get("kind")
                if pk in _C_LOOPS or pk in ("ConditionalOperator", "SwitchStmt", "LambdaExpr") or (pk == "BinaryOperator" and p.get("opcode") in ("&&", "||") and _c_kids(p)[0] is not x) \
                        or (pk == "IfStmt" and (p.get("hasInit") or p.get("hasVar") or _c_kids(p)[0] is not x)):
                    return None, "the fread after the scanning loop is conditional"
                x = p
            if len(frs) != 1 or any(nm in env for nm, x, kind in _c_writes(st) if not (kind == "decl" and id(frs[0]) in {id(y) for y in cfront.walk(x)})):
                return None, "the statement of the fread also stores to the counter"
            a = cfront.call_args(frs[0])
            if len(a) != 4:
                return None, cfront.render(frs[0])
            size, n = _c_lin(a[1], env, consts), _c_lin(a[2], env, consts)
            ln = n if size == (0, 1) else (size if n == (0, 1) else None)
            if ln is None or ln[0] != 1:
                return None, "%s with %s" % (cfront.render(frs[0]), {k: "%s*n%+d" % v for k, v in env.items()})
            return ln[1], cfront.render(frs[0])
        top = cfront.strip(st)
        k = top.get("kind")
        kids = _c_kids(top)
        if k == "DeclStmt":
            for d in kids:
                if d.get("kind") == "VarDecl" and d.get("name"):
                    init = _c_kids(d)
                    inner_writes = [w for w in _c_writes(d) if w[1] is not d]
                    v = _c_lin(init[-1], env, consts) if init and not inner_writes else None
                    forget(d, but=(id(d),))
                    env.pop(d["name"], None)
                    if v is not None and v[0]:
                        env[d["name"]] = v
            continue
        tgt = cfront.strip(kids[0]) if kids else {}
        nm = (tgt.get("referencedDecl") or {}).get("name") if tgt.get("kind") == "DeclRefExpr" else None
        simple = nm is not None and len(_c_writes(top)) == 1
        if simple and k == "UnaryOperator" and top.get("opcode") in ("++", "--"):
            if nm in env:
                env[nm] = (env[nm][0], env[nm][1] + (1 if top["opcode"] == "++" else -1))
            continue
        if simple and k == "CompoundAssignOperator" and top.get("opcode") in ("+=", "-=") and len(kids) == 2:
            v = _c_lin(kids[1], env, consts)
            if nm in env and v is not None:
                sg = 1 if top["opcode"] == "+=" else -1
                env[nm] = (env[nm][0] + sg * v[0], env[nm][1] + sg * v[1])
            else:
                env.pop(nm, None)
            continue
        if simple and k == "BinaryOperator" and top.get("opcode") == "=" and len(kids) == 2:
            v = _c_lin(kids[1], env, consts)
            env.pop(nm, None)
            if v is not None and v[0]:
                env[nm] = v
            continue
        forget(st)
    return None, "no fread follows the scanning loop"


def reader_model(rd):
    """What the C++ header reader does with the byte stream, in either of the two recognised idioms:
       (a) a fixed window shifted by one byte per fgetc and compared with strncmp/memcmp against a literal, a byte counter,
           `count += K` after the loop and one fread of count bytes from the start;
       (b) the bytes appended to a std::string whose tail is compared with std::string::compare against a string constant,
           K further fgetc's appended after the loop.
    Returns dict(S=sentinel, width=bytes compared, K=bytes taken after the match, window=(ok, text), textvar=name of the
    string returned, line=...) or raises AnalysisError."""
    body = cfront.body_of(rd)
    inits = c_inits(rd)
    loops = [x for x in cfront.walk(body) if x.get("kind") in ("WhileStmt", "DoStmt", "ForStmt")]
    scan = [l for l in loops if any(cfront.callee_name(c) == "fgetc" for c in cfront.calls_in(l))]
    if len(scan) > 1:
        # the scanning loop is the one that compares against the sentinel; other loops that read bytes are looked at below
        withcmp = [l for l in scan if _has_sentinel_cmp(l)]
        inner = [l for l in withcmp if not any(m is not l and id(m) in {id(x) for x in cfront.walk(l)} for m in withcmp)]
        if len(inner) == 1:
            scan = inner
    if len(scan) != 1:
        raise AnalysisError("the byte scanning loop (one loop calling fgetc) not found in read_sfile_header")
    loop = scan[0]
    inloop = {id(x) for x in cfront.walk(loop)}
    order = {id(x): i for i, x in enumerate(cfront.walk(body))}
    # loops after the scanning loop that read more bytes of the file: what follows the trailer is row data
    later = [l for l in loops if id(l) not in inloop and order[id(l)] > order[id(loop)] and id(loop) not in {id(x) for x in cfront.walk(l)}
             and any(cfront.callee_name(c) in _BYTE_READS for c in cfront.calls_in(l))]
    later = [l for l in later if not any(m is not l and id(l) in {id(x) for x in cfront.walk(m)} for m in later)]       # outermost
    inlater = {id(x): l for l in later for x in cfront.walk(l)}
    ngetc = len([c for c in cfront.calls_in(loop) if cfront.callee_name(c) == "fgetc"])
    if ngetc != 1:
        raise AnalysisError("the scanning loop of read_sfile_header does not read exactly one byte per iteration")
    cmpc = [c for c in cfront.calls_in(loop) if cfront.callee_name(c) in ("strncmp", "memcmp")]
    cmps = [c for c in cfront.walk(loop) if c.get("kind") == "CXXMemberCallExpr" and cfront.callee_name(c) == "compare"]
    if len(cmpc) == 1 and not cmps:
        args = cfront.call_args(cmpc[0])
        S = c_string_literal(args[1])
        buf = cfront.render(args[0])
        if S is None:
            S, buf = c_string_literal(args[0]), cfront.render(args[1])
        wtxt = c_render(args[2], inits)
        if not wtxt.isdigit():
            raise AnalysisError("comparison width %s in read_sfile_header is not a constant" % wtxt)
        width = int(wtxt)
        shifts = [cfront.render(x) for x in cfront.walk(loop) if x.get("kind") == "BinaryOperator" and x.get("opcode") == "=" and cfront.render(x["inner"][0]).startswith(buf + "[")]
        byte = [k for k, v in inits.items() if cfront.callee_name(cfront.strip(v)) == "fgetc"]
        want = ["(%s[%d] = %s[%d])" % (buf, i, buf, i + 1) for i in range(width - 1)] + ["(%s[%d] = %s)" % (buf, width - 1, byte[0] if byte else "c")]
        # the byte counter: the one variable stepped by one per pass of the scanning loop
        cnt = None
        incs = [cfront.render(x["inner"][0]) for x in cfront.walk(loop) if x.get("kind") == "UnaryOperator" and x.get("opcode") == "++"] + \
               [cfront.render(x["inner"][0]) for x in cfront.walk(loop) if x.get("kind") == "CompoundAssignOperator" and x.get("opcode") == "+=" and cfront.render(x["inner"][1]) == "1"]
        if len(incs) == 1:
            cnt = incs[0]
        # bytes taken after the loop: the header is read again from the start by one fread of <counter> + K bytes
        fr = [c for c in cfront.calls_in(body) if id(c) not in inloop and cfront.callee_name(c) == "fread"]
        K, reread = None, "one byte counter and one fread after the loop not found"
        if len(fr) == 1 and cnt is not None:
            K, reread = header_bytes_reread(rd, body, loop, cnt)
        # a later loop that advances the byte counter: the header length then depends on the bytes after the sentinel
        varskip = None
        for l in later:
            adds = [x for x in cfront.walk(l) if (x.get("kind") == "UnaryOperator" and x.get("opcode") == "++" or x.get("kind") == "CompoundAssignOperator" and x.get("opcode") == "+=")
                    and cfront.render(x["inner"][0]) == cnt]
            if adds:
                K = None
                dep = _loop_depends_on_bytes(rd, l)
                if dep and varskip is None:
                    varskip = (l.get("line"), "`%s` is advanced inside a loop that runs %s" % (cnt, dep))
        return dict(S=S, width=width, K=K, varskip=varskip, window=(shifts == want, str(shifts)), idiom="shifted window + strncmp; " + reread, line=cmpc[0].get("line"))
    if len(cmps) == 1 and not cmpc:
        c = cmps[0]
        base = cfront.render(cfront.strip(c["inner"][0])["inner"][0])
        args = cfront.call_args(c)
        if len(args) != 3:
            raise AnalysisError("std::string::compare in read_sfile_header is not the (pos, len, str) form")
        sname = cfront.render(args[2])
        S = c_string_literal(args[2])
        if S is None:
            S = c_string_consts(rd).get(sname)
        if S is None:
            S = c_string_literal(c_subst(args[2], inits))           # `static const char marker[] = "..."`, never assigned
        ltxt = c_render(args[1], inits)
        if ltxt.isdigit():
            width = int(ltxt)
        elif ltxt in ("%s.size()" % sname, "%s.length()" % sname) and S is not None:
            width = len(S)
        elif c_const_int(args[1], inits) is not None:
            width = c_const_int(args[1], inits)                     # sizeof(marker) - 1, a named constant ...
        else:
            raise AnalysisError("compared length %s in read_sfile_header not understood" % ltxt)
        ptxt = c_render(args[0], inits)
        tail = ptxt in ("(%s.size() - %s)" % (base, ltxt), "(%s.length() - %s)" % (base, ltxt), "(%s.size() - %d)" % (base, width))
        # every byte read in the loop is appended to the text exactly once, before the comparison
        loop_inits = c_inits(rd, region=loop)
        after_inits = c_inits(rd, region={id(x) for x in cfront.walk(body)} - inloop)
        byte = [k for k, v in loop_inits.items() if cfront.callee_name(cfront.strip(v)) == "fgetc"]
        app = [x for x in cfront.walk(loop) if x.get("kind") == "CXXMemberCallExpr" and cfront.callee_name(x) == "push_back"
               and cfront.render(cfront.strip(x["inner"][0])["inner"][0]) == base]
        appended = len(app) == 1 and len(byte) >= 1 and cfront.render(app[0]["inner"][1]) in byte
        after = [x for x in cfront.walk(body) if id(x) not in inloop]
        post_getc = [x for x in after if x.get("kind") == "CallExpr" and cfront.callee_name(x) == "fgetc"]
        post_app = [x for x in after if x.get("kind") == "CXXMemberCallExpr" and cfront.callee_name(x) == "push_back"
                    and cfront.render(cfront.strip(x["inner"][0])["inner"][0]) == base]
        other = [cfront.callee_name(x) for x in after if x.get("kind") == "CallExpr" and cfront.callee_name(x) in ("fread", "fgets", "fseek", "fscanf", "getc", "ungetc")]
        post_ok = all(c_render(x["inner"][1], after_inits).startswith("fgetc(") for x in post_app)
        K = len(post_getc) if len(post_getc) == len(post_app) and post_ok and not other else None
        varskip = None
        for l in later:
            if any(id(x) in inlater and inlater[id(x)] is l for x in post_getc + post_app):
                K = None
                dep = _loop_depends_on_bytes(rd, l)
                if dep and varskip is None and any(inlater.get(id(x)) is l for x in post_app):
                    varskip = (l.get("line"), "bytes are appended to `%s` inside a loop that runs %s" % (base, dep))
        return dict(S=S, width=width, K=K, varskip=varskip, window=(bool(tail and appended), "%s.compare(%s, %s, %s)" % (base, ptxt, ltxt, sname)),
                    idiom="accumulated text + std::string::compare on its tail", line=c.get("line"))
    raise AnalysisError("sentinel comparison (strncmp/memcmp on a window, or std::string::compare on the tail) not found in read_sfile_header")


# ---------------------------------------------------------------------------
def header_text(chk, repo):
    """the text handed to the C++ header writer on the first write, evaluated: (ev, node, call, term) or None"""
    wh = repo.func("esutil.sfile.SFile._write_header")
    chk.analysed_unit(wh.qualname)
    sites = find_calls(Ev(repo, wh), named("write_header_and_update_offset"))
    return wh, [(e, n, c, e.ev(c.args[0], n) if c.args else None) for e, n, c in sites]


def line_source(t):
    """t is `X.split(sep)` or `X.partition(sep)[2].split(sep)` (the lines of X, the first `skip` of them dropped):
    (X, sep, skip) or None"""
    if t[0] == "meth" and t[2] == "split" and len(t[3]) == 1 and is_lit(t[3][0], str) and not t[4]:
        sep, x = t[3][0][1], t[1]
        if x[0] == "sub" and x[2] == lit(2) and x[1][0] == "meth" and x[1][2] == "partition" and x[1][3] == (lit(sep),):
            return x[1][1], sep, 1
        if x[0] == "sub" and x[2] == lit(1) and x[1][0] == "meth" and x[1][2] == "split" and x[1][3] == (lit(sep), lit(1)):
            return x[1][1], sep, 1
        return x, sep, 0
    return None


def line_slice(t):
    """t selects lines lo .. (n - drop) of the text X split on sep: (X, sep, lo, drop) or None"""
    if t[0] != "slice" or t[4] != NONE:
        return None
    src = line_source(t[1])
    if src is None:
        return None
    x, sep, skip = src
    lo, hi = t[2], t[3]
    if lo == NONE:
        lo = lit(0)
    if not is_lit(lo, int) or lo[1] < 0:
        return None
    if hi == NONE:
        drop = 0
    elif is_lit(hi, int) and hi[1] < 0:
        drop = -hi[1]
    elif hi[0] == "op" and hi[1] == "-" and hi[2] == ("call", "len", (t[1],), ()) and is_lit(hi[3], int):
        drop = hi[3][1]
    else:
        return None
    return x, sep, skip + lo[1], drop


def first_line(t):
    """t is the first line of X: (X, sep) or None"""
    if t[0] == "sub" and t[2] == lit(0) and t[1][0] == "meth" and len(t[1][3]) >= 1 and is_lit(t[1][3][0], str):
        if t[1][2] in ("split", "partition"):
            return t[1][1], t[1][3][0][1]
    return None


def framing(chk, repo, cfun):
    fr = {}
    wh, sites = header_text(chk, repo)
    R = "R01.1"
    if len(sites) != 1 or sites[0][3] is None:
        chk.ob(R, "writer::whole-text-written-once", None, wh.where(), "exactly one call of write_header_and_update_offset is reachable from _write_header (found %d)" % len(sites))
        return fr
    e, n, c, text = sites[0]
    chk.ob(R, "writer::whole-text-written-once", True, e.fi.where(c), "the header is handed to the C++ writer by one call; its argument evaluates to %s" % show(text))
    ps = pieces(text)
    known = all(is_lit(p, str) or p[0] == "fmt" or (p[0] == "call" and p[1] == "pprint.pformat") for p in ps)
    di = [i for i, p in enumerate(ps) if p[0] == "call" and p[1] == "pprint.pformat"]
    if not known or len(di) != 1:
        # the text is not a concatenation of literals, formatted numbers and one pformat: nothing can be said about the framing
        chk.ob(R, "writer::header-is-joined-line-list", None, e.fi.where(c), "the header text does not evaluate to literal pieces around one pprint.pformat(...): %s" % show(text))
        return fr
    pre, post = ps[:di[0]], ps[di[0] + 1:]
    flat = lambda seq: "".join(p[1] if is_lit(p, str) else "\x00%s\x00" % p[1] for p in seq)     # formatted numbers as \0spec\0
    if not all(is_lit(p, str) for p in post):
        chk.ob(R, "writer::header-is-joined-line-list", None, e.fi.where(c), "what follows the pretty-printed dict is not literal text: %s" % show(text))
        return fr
    head = flat(pre)
    T_w = "".join(p[1] for p in post)
    sep = "\r\n" if head.endswith("\r\n") else ("\n" if head.endswith("\n") else "")
    joined = bool(sep) and T_w.startswith(sep)
    chk.ob(R, "writer::header-is-joined-line-list", joined, e.fi.where(c),
           "the header text is <first line> + sep + pprint.pformat(dict) + sep + literal trailer, sep a line separator (evaluated: %s)" % show(text))
    if not joined:
        return fr
    fr.update(text=text, dict_arg=ps[di[0]][2][0] if ps[di[0]][2] else None, where=e.fi.where(c), sep=sep)
    # line 0 is what _get_size_string produces
    gs = repo.func("esutil.sfile.SFile._get_size_string")
    gev = Ev(repo, gs)
    grets = [x for x in gev.view.nodes() if x.kind == "return"]
    gterm = gev.ev(grets[0].ast.value, grets[0]) if len(grets) == 1 and grets[0].ast.value is not None else None
    gknown = gterm is not None and all(is_lit(p, str) or p[0] == "fmt" for p in pieces(gterm))
    line0 = head[:-len(sep)]
    first_ok = None if not gknown else (flat(pieces(gterm)) == line0 and sep not in line0)
    chk.ob(R, "writer::size-line-first-dict-second", first_ok, e.fi.where(c), "line 0 is the SIZE line (%s), then the pretty-printed dict" % (show(gterm) if gterm is not None else "?"))
    chk.notes["writer_trailer"] = repr(T_w)
    # C++ reader constants
    rd = cfun.get("Records::read_sfile_header")
    if rd is None:
        raise AnalysisError("C++ anchor Records::read_sfile_header missing")
    chk.analysed_unit("Records::read_sfile_header")
    m = reader_model(rd)
    S, width, K = m["S"], m["width"], m["K"]
    chk.notes["reader_sentinel"] = {"literal": repr(S), "compared_bytes": width, "skip_after": K, "idiom": m["idiom"]}
    # how many bytes after the sentinel still belong to the header is fixed by the writer's trailer; the bytes that follow it are
    # row data and take every value (the first field of the first row may hold 0x0A, 0x20 ...), so nothing read there may decide it
    vs = m.get("varskip")
    if vs is not None or K is not None:
        chk.ob(R, "reader::header-length-independent-of-row-bytes", vs is None, "%s:%s" % (W, vs[0]) if vs and vs[0] else W,
               "the number of bytes counted as header after the sentinel is a constant, it does not depend on the bytes that follow the trailer (row data: any byte "
               "value, including newline and blank, can start the first row)%s" % ("" if vs is None else ": " + vs[1] + ", so a first row beginning with such bytes is swallowed into the header and the data offset is wrong"))
    # a header is as long as the user's dict and the dtype description make it: no exit of the reader may be taken because a
    # fixed number of bytes has been scanned
    okb, btxt, bline = scan_length_bounds(rd)
    chk.ob(R, "reader::accepts-header-of-any-length", okb, "%s:%s" % (W, bline) if bline else W,
           "the header text has no maximum length (the user's keys and values and the dtype description of any number of fields make it as long as they "
           "are), so no exit of the C++ header reader -- throw, return, break, or the scanning loop's own condition -- may be taken because the number "
           "of bytes scanned has reached a constant%s" % ("" if not btxt else ": " + btxt))
    chk.ob(R, "reader::constants-found", None if (S is None or K is None) else True, W, "sentinel %r compared over %d bytes, then %s more bytes belong to the header (%s)" % (S, width, K, m["idiom"]))
    if S is None or K is None:
        return fr
    chk.ob(R, "reader::compares-whole-sentinel", width == len(S), W, "the comparison covers the whole sentinel literal (%d of %d bytes)" % (width, len(S)))
    # the window compared holds the last `width` bytes read
    chk.ob(R, "reader::window-slides-by-one-byte", m["window"][0], W, "the %d bytes compared are the last %d bytes read, advancing one byte per iteration (%s)" % (width, width, m["window"][1]))
    pos = T_w.find(S)
    ok = pos >= 0 and len(T_w) - (pos + len(S)) == K
    chk.ob(R, "framing::reader-stops-exactly-at-end-of-trailer", ok, W,
           "writer trailer %r = (context %r) + sentinel %r + %d bytes: the data offset returned by the reader equals the length of the header written" % (T_w, T_w[:max(pos, 0)], S, K))
    anchored = S.startswith("\n") and S.endswith("\n") and S.strip("\n") == "END"
    chk.ob(R, "framing::sentinel-anchored-on-line-boundaries", anchored, W,
           "the sentinel must be a whole line (%r): pprint output never contains a line consisting of END alone because all string content is repr-escaped, "
           "whereas the bare letters END occur inside user keys/values/field names (e.g. 'WEEKEND', field TREND), which the property's quantifier includes; "
           "found %r, so the reader stops at the first END anywhere in the header" % ("\nEND\n", S))
    # python parser drops exactly the trailer pieces
    rh = repo.func("esutil.sfile.SFile.read_header")
    chk.analysed_unit(rh.qualname)
    rev = Ev(repo, rh)
    ntrail = T_w.count(sep)
    rrets = [x for x in rev.view.nodes() if x.kind == "return" and x.ast.value is not None]
    hterm = rev.ev(rrets[0].ast.value, rrets[0]) if len(rrets) == 1 else None
    fr["read_header_value"] = hterm
    sl = [x for x in subterms(hterm) if x and x[0] == "slice"] if hterm is not None else []
    sel = line_slice(sl[0]) if len(sl) == 1 else None
    call_rd = lambda t: t is not None and t[0] == "sub" and t[1][0] == "meth" and t[1][2] == "read_sfile_header"
    if sel is None:
        chk.ob(R, "parser::drops-size-line-and-trailer-lines", None, rh.where(), "the line selection evaluated by read_header is not recognised (%s)" % (show(hterm) if hterm is not None else None))
    else:
        X, psep, lo, drop = sel
        # a verdict only when the text that is split is known to be the one the C++ reader returned
        chk.ob(R, "parser::drops-size-line-and-trailer-lines", (lo == 1 and drop == ntrail) if (call_rd(X) and X[2] == lit(0)) else (False if call_rd(X) else None), rh.where(),
               "the dict text is lines[1 : len(lines)-%s] of the text returned by the C++ reader: the SIZE line and the %s trailing pieces produced by splitting the trailer are dropped (found lines[%s : len-%s])" % (ntrail, ntrail, lo, drop))
        chk.ob(R, "parser::splits-on-writer-separator", psep == sep, rh.where(), "the header text is split on the writer's separator (%r vs %r)" % (psep, sep))
    offs = rev.attr_defs().get("self._data_start", [])
    offt = [rev.ev(v, nn) if v is not None else None for nn, v in offs]
    def offset_kept(t):
        if call_rd(t):
            return t[2] == lit(1)
        if is_lit(t) or any(call_rd(x) for x in subterms(t)):
            return False        # a constant, or something computed from what the reader returned
        return None
    chk.ob(R, "parser::data-offset-kept", (offset_kept(offt[0]) if len(offt) == 1 else (False if any(offset_kept(t) is False for t in offt) else None)) if offt and None not in offt else None, rh.where(),
           "the offset returned by the C++ reader becomes the data start (%s)" % [show(t) if t else None for t in offt])
    so = repo.func("esutil.sfile.SFile.open")
    offs = [t for ee, nn, cc in find_calls(Ev(repo, so), named("Recfile")) for t in kw_terms(ee, nn, cc, "offset")]
    chk.ob(R, "SFile.open::reader-starts-at-data-offset", all(o == ("attr", SELF, "_data_start") for o in offs) if offs else None, so.where(), "the record reader is opened at the data start (%s)" % [show(t) for t in offs])
    inits = c_inits(rd)
    rets = [x for x in cfront.walk(cfront.body_of(rd)) if x.get("kind") == "ReturnStmt"]
    good = []
    for r in rets:
        bv = [cc for cc in cfront.calls_in(c_subst(r, inits)) if cfront.callee_name(cc) == "Py_BuildValue"]
        if len(bv) != 1:
            good.append(None)           # the value is built in a way this rule does not know
            continue
        a = cfront.call_args(bv[0])
        fmt = c_string_literal(a[0]) or ""
        good.append(len(a) == 3 and fmt[:1] == "s" and len(fmt) == 2 and c_render(a[1], inits).endswith(".c_str()") and c_render(a[2], inits) == "ftell(mFptr)")
    chk.ob(R, "reader::returns-text-and-position", None if (not good or None in good) else all(good), W, "the reader returns the header text (decoded as UTF-8, the encoding it was written in) and the file position after it (%s)" % [c_render(r, inits) for r in rets])
    return fr


# ---------------------------------------------------------------------------
# The C++ header writer puts the text it is given into the file byte for byte.  The text is user data (keys and values of the
# header dict, field names), so it contains every character, '%' and '\\' included.  Two conditions, both decided from the data
# flow of the text inside the writer (and the helpers it hands the text to), whatever output call is used:
#   * the text never sits in the format position of a printf-family call (there each '%' is a conversion);
#   * the one output call that receives it copies it unchanged: fputs(text), fwrite(text, 1, text.size()), fprintf("%s", text)
#     with no width / precision; a width, a precision or a non-string conversion changes or truncates it.
# ---------------------------------------------------------------------------

_PRINTF_FMT_POS = {"printf": 0, "vprintf": 0, "fprintf": 1, "vfprintf": 1, "dprintf": 1, "vdprintf": 1, "sprintf": 1, "vsprintf": 1,
                   "snprintf": 2, "vsnprintf": 2, "PyOS_snprintf": 2, "syslog": 1, "PyErr_Format": 1, "PyUnicode_FromFormat": 0,
                   "PyString_FromFormat": 0, "PyBytes_FromFormat": 0}
_COPY_INTO_FIRST = ("sprintf", "snprintf", "vsprintf", "vsnprintf", "PyOS_snprintf", "strcpy", "strncpy", "memcpy", "memmove", "strcat", "strncat", "stpcpy")
_STREAM_OUT = ("fprintf", "vfprintf", "fputs", "fwrite", "fputc", "putc", "fputs_unlocked", "fwrite_unlocked", "write", "dprintf")


def _c_refs(n):
    return {(x.get("referencedDecl") or {}).get("name") for x in cfront.walk(n) if x.get("kind") == "DeclRefExpr"}


def _c_refs_members(n):
    """names of variables and of members of `this` mentioned in an expression"""
    out = set(_c_refs(n))
    for x in cfront.walk(n):
        if x.get("kind") == "MemberExpr" and x.get("name"):
            out.add(x["name"])
    return out


def _c_writes_file(cfun, fn, depth=0, seen=None):
    """does the function (or a function of this file it calls) hand bytes to a stream output call on mFptr"""
    seen = seen if seen is not None else set()
    if id(fn) in seen or depth > 3:
        return False
    seen.add(id(fn))
    for c in cfront.calls_in(cfront.body_of(fn)):
        nm = cfront.callee_name(c)
        if nm in _STREAM_OUT and "mFptr" in _c_refs_members(c):
            return True
        g = (cfun.get("Records::%s" % nm) or cfun.get(nm)) if nm else None
        if g is not None and cfront.has_body(g) and _c_writes_file(cfun, g, depth + 1, seen):
            return True
    return False


def _c_single_fwrite(fn):
    """the function's only output call is one fwrite outside any loop"""
    body = cfront.body_of(fn)
    outs = [c for c in cfront.calls_in(body) if cfront.callee_name(c) in _STREAM_OUT]
    inloop = {id(x) for l in cfront.walk(body) if l.get("kind") in ("WhileStmt", "DoStmt", "ForStmt") for x in cfront.walk(l)}
    return len(outs) == 1 and cfront.callee_name(outs[0]) == "fwrite" and id(outs[0]) not in inloop


def _c_subst_params(n, pmap):
    """copy of an expression with references to parameters replaced by the given argument expressions"""
    if not isinstance(n, dict) or not pmap:
        return n
    if n.get("kind") == "DeclRefExpr":
        rd = n.get("referencedDecl") or {}
        if rd.get("kind") == "ParmVarDecl" and rd.get("name") in pmap:
            return pmap[rd["name"]]
    out = dict(n)
    if "inner" in n:
        out["inner"] = [_c_subst_params(c, pmap) for c in (n.get("inner") or [])]
    return out


def c_derived_names(fn, seeds):
    """names of locals of fn whose value is computed from the seed names: declaration initialisers, assignments, std::string
    append / += / assign, and the destination buffer of sprintf / strcpy / memcpy-like calls; to a fixed point"""
    names = set(seeds)
    body = cfront.body_of(fn)
    nodes = list(cfront.walk(body))
    changed = True
    while changed:
        changed = False

        def add(nm):
            nonlocal changed
            if nm and nm not in names:
                names.add(nm)
                changed = True
        for x in nodes:
            k = x.get("kind")
            if k == "VarDecl" and x.get("name"):
                init = [y for y in x.get("inner", []) or [] if isinstance(y, dict) and y.get("kind")]
                if init and _c_refs(init[-1]) & names:
                    add(x["name"])
            elif k in ("BinaryOperator", "CompoundAssignOperator") and (x.get("opcode") == "=" or k == "CompoundAssignOperator"):
                lhs = cfront.strip(x["inner"][0])
                if lhs.get("kind") == "DeclRefExpr" and _c_refs(x["inner"][1]) & names:
                    add(cfront.render(lhs))
            elif k == "CXXOperatorCallExpr" and cfront.callee_name(x) in ("operator=", "operator+="):
                a = cfront.call_args(x)
                if len(a) == 2 and cfront.strip(a[0]).get("kind") == "DeclRefExpr" and _c_refs(a[1]) & names:
                    add(cfront.render(a[0]))
            elif k == "CXXMemberCallExpr" and cfront.callee_name(x) in ("append", "assign", "push_back", "insert", "replace"):
                obj = cfront.strip(cfront.strip(x["inner"][0]).get("inner", [{}])[0])
                if obj.get("kind") == "DeclRefExpr" and any(_c_refs(a) & names for a in cfront.call_args(x)):
                    add(cfront.render(obj))
            elif k == "CallExpr" and cfront.callee_name(x) in _COPY_INTO_FIRST:
                a = cfront.call_args(x)
                if a and any(_c_refs(y) & names for y in a[1:]):
                    for nm in _c_refs(a[0]):
                        add(nm)
    return names


def text_outputs(cfun, fn, seeds, depth=0, seen=None):
    """What happens to the text held in the seed names inside fn and the functions of this file it is passed to.
    Returns (formats, outs): formats = [(line, call text, verdict)] for printf-family calls (verdict False: the format argument
    is derived from the text; None: a format that is neither a literal nor derived from the text while the text is among the
    arguments); outs = [(line, call text, verdict, why)] for stream output calls that receive the text."""
    seen = seen if seen is not None else set()
    names = c_derived_names(fn, seeds)
    inits = c_inits(fn)
    formats, outs = [], []
    has = lambda n: bool(_c_refs(n) & names)
    for c in [x for x in cfront.walk(cfront.body_of(fn)) if x.get("kind") in ("CallExpr", "CXXMemberCallExpr")]:
        nm = cfront.callee_name(c)
        args = cfront.call_args(c)
        line, txt = c.get("line"), cfront.render(c)
        L = None
        if nm in _PRINTF_FMT_POS and len(args) > _PRINTF_FMT_POS[nm]:
            fa = args[_PRINTF_FMT_POS[nm]]
            L = c_string_literal(c_subst(fa, inits))
            if L is None:
                if has(fa):
                    formats.append((line, txt, False))
                elif any(has(a) for a in args):
                    formats.append((line, txt, None))
            else:
                formats.append((line, txt, True))
        if nm in _STREAM_OUT and any(has(a) for a in args):
            if nm in _PRINTF_FMT_POS:
                pos = _PRINTF_FMT_POS[nm]
                va = args[pos + 1:]
                if L is None:
                    outs.append((line, txt, False if has(args[pos]) else None, "the text is the format"))
                    continue
                ds = printf_directives(L)["directives"]
                if nm.startswith("v") or len(ds) != len(va) or any(d["suppress"] for d in ds) or "%n" in L:
                    outs.append((line, txt, None, "format %r not matched with its arguments" % L))
                    continue
                mine = [d for d, a in zip(ds, va) if has(a)]
                lossy = [d["text"] for d in mine if d["conv"] != "s" or d["width"] is not None or d["prec"] is not None or d["length"]]
                if lossy:
                    outs.append((line, txt, False, "conversion %s pads, truncates or reinterprets the text" % ", ".join(lossy)))
                elif L == "%s" and len(va) == 1:
                    outs.append((line, txt, True, "\"%s\" copies the text"))
                else:
                    outs.append((line, txt, None, "format %r writes more than the text" % L))
            elif nm.startswith("fputs") and len(args) == 2 and has(args[0]):
                outs.append((line, txt, True, "fputs copies the text"))
            elif nm.startswith("fwrite") and len(args) == 4 and has(args[0]):
                sz = sorted([c_render(args[1], inits), c_render(args[2], inits)])
                whole = sz[0] == "1" and any(sz[1] in ("%s.size()" % n_, "%s.length()" % n_, "strlen(%s)" % n_, "strlen(%s.c_str())" % n_) for n_ in names if n_)
                outs.append((line, txt, True if whole else None, "fwrite of 1 x size() bytes" if whole else "byte count %s x %s not recognised as the length of the text" % tuple(sz)))
            else:
                outs.append((line, txt, None, "output call not understood"))
            continue
        # the text handed to another function of this file
        callee = cfun.get(nm) if nm else None
        if callee is not None and cfront.has_body(callee) and depth < 2 and nm not in seen and any(has(a) for a in args):
            ps = cfront.params_of(callee)
            sub = [p for p, a in zip(ps, args) if p and has(a)]
            if sub:
                f2, o2 = text_outputs(cfun, callee, sub, depth + 1, seen | {nm})
                formats.extend(f2)
                outs.extend(o2)
    return formats, outs


def header_bytes_verbatim(chk, cfun):
    R = "R01.1"
    wr = cfun.get("Records::write_header_and_update_offset")
    if wr is None:
        raise AnalysisError("C++ anchor Records::write_header_and_update_offset missing")
    chk.analysed_unit("Records::write_header_and_update_offset")
    ps = [p for p in cfront.params_of(wr) if p]
    formats, outs = text_outputs(cfun, wr, ps)
    bad = [(l, t) for l, t, v in formats if v is False]
    unk = [(l, t) for l, t, v in formats if v is None]
    where = lambda l: "%s:%s" % (W, l) if l else cwhere(wr)
    chk.ob(R, "cxx-writer::text-never-a-printf-format", False if bad else (None if unk else True), where(bad[0][0] if bad else (unk[0][0] if unk else wr.get("line"))),
           "the header text (user keys, values and field names: any characters, '%%' included) is never the format argument of a printf-family call, where every "
           "'%%' would be taken as a conversion ('%%%%' written as '%%', '%%d'/'%%s' reading arguments that are not there)%s"
           % ("" if not (bad or unk) else ": " + "; ".join("`%s`" % t for l, t in (bad or unk))))
    fl = [o for o in outs if o[2] is False]
    un = [o for o in outs if o[2] is None]
    okv = False if fl else (None if (un or len(outs) != 1) else True)
    pick = (fl or un or outs or [(wr.get("line"), "", None, "")])[0]
    chk.ob(R, "cxx-writer::text-written-byte-for-byte", okv, where(pick[0]),
           "the C++ header writer hands the text to one output call that copies it unchanged (fputs, fwrite of its length, or fprintf \"%%s\" without width or precision): %s"
           % ("; ".join("`%s` -- %s" % (t, w) for l, t, v, w in outs) if outs else "no output call receiving the text found"))


def _returns(ev):
    return [n for n in ev.view.nodes() if n.kind == "return"]


def _return_terms(ev):
    return [ev.ev(n.ast.value, n) if n.ast.value is not None else NONE for n in _returns(ev)]


def _peel(t, methods):
    """strip argument-less str method calls off a term: (core, [method names])"""
    seen = []
    while t[0] == "meth" and t[2] in methods and not t[3] and not t[4]:
        seen.append(t[2])
        t = t[1]
    return t, seen


def size_line(chk, repo, cfun):
    R = "R01.2"
    ex = repo.func("esutil.sfile.SFile._extract_size_from_string")
    chk.analysed_unit(ex.qualname)
    ev = Ev(repo, ex)
    line = ("param", ex.params[1]) if len(ex.params) > 1 else None
    # the two spellings of "name = value": line.split("=") -> [name, value] and line.partition("=") -> (name, "=", value); with
    # exactly one "=" in the line they give the same name and the same value
    parts = ("meth", line, "split", (lit("="),), ())
    parts3 = ("meth", line, "partition", (lit("="),), ())
    rparts3 = ("meth", line, "rpartition", (lit("="),), ())
    name_terms = (("sub", parts, lit(0)), ("sub", parts3, lit(0)), ("sub", rparts3, lit(0)))
    value_terms = (("sub", parts, lit(1)), ("sub", parts3, lit(2)), ("sub", rparts3, lit(2)))

    def one_equals(L):
        """do the facts L imply that the line holds exactly one '='"""
        if (("cmp", "Eq", ("call", "len", (parts,), ()), lit(2)), True) in L or (("cmp", "Eq", ("meth", line, "count", (lit("="),), ()), lit(1)), True) in L:
            return True
        for p3, rest in ((parts3, 2), (rparts3, 0)):
            sep = ("sub", p3, lit(1))
            found = (("cmp", "Eq", sep, lit("")), False) in L or (sep, True) in L or (("cmp", "Eq", sep, lit("=")), True) in L
            clean = (("cmp", "In", lit("="), ("sub", p3, lit(rest))), False) in L
            if found and clean:
                return True
        return False
    # (a parser moved into a private helper: the raises are the helper's, and its having returned establishes their negations)
    rlits = [facts_at(e, n) for e, n in all_raises(ev)]
    retlits = [facts_at(ev, n) for n in _returns(ev)]
    chk.ob(R, "size-parser::one-equals-sign", bool(retlits) and bool(rlits) and all(one_equals(L) for L in retlits), ex.where(),
           "the SIZE line must split into exactly name and value: every return is control dependent on len(line.split('=')) == 2 "
           "(or, with partition, on a separator found and no further '=' in the value), the other outcome raises")
    names = []
    for L in rlits:
        for x, vals in excluded_values(L).items():
            core, seen = _peel(x, ("strip", "upper"))
            if core in name_terms and "strip" in seen and "upper" in seen:
                names.append(vals)
    chk.ob(R, "size-parser::name-accepted", {"SIZE", "NROWS"} in names, ex.where(), "the name SIZE (or legacy NROWS), stripped and upper-cased, is required: every other name raises (%s)" % names)
    vals = _return_terms(ev)
    chk.ob(R, "size-parser::value", bool(vals) and all(v[0] == "call" and v[1] == "eval" and len(v[2]) == 1 and v[2][0] in value_terms and not v[3] for v in vals), ex.where(),
           "the row count is the evaluated right-hand side (blank padding tolerated) (%s)" % [show(v) for v in vals])
    gs = repo.func("esutil.sfile.SFile._get_size_string")
    gt = _return_terms(Ev(repo, gs))
    okw = False
    if len(gt) == 1:
        ps = pieces(gt[0])
        L = "".join(p[1] for p in ps if is_lit(p, str))
        nf = [p for p in ps if not is_lit(p, str)]
        okw = L.count("=") == 1 and L.split("=")[0].strip() == "SIZE" and len(nf) == 1 and nf[0][0] == "fmt" and ps.index(nf[0]) > 0
    chk.ob(R, "size-writer::name-and-single-equals", okw, gs.where(), "the writer's SIZE line has the accepted name and one '=' (%s)" % [show(t) for t in gt])
    rh = repo.func("esutil.sfile.SFile.read_header")
    rev = Ev(repo, rh)
    retnames = {n.ast.value.id for n in _returns(rev) if isinstance(n.ast.value, ast.Name)}
    stores = [(n, n.ast.value) for n in rev.view.nodes() if n.kind == "stmt" and isinstance(n.ast, ast.Assign) and len(n.ast.targets) == 1
              and isinstance(n.ast.targets[0], ast.Subscript) and isinstance(n.ast.targets[0].value, ast.Name) and n.ast.targets[0].value.id in retnames
              and isinstance(n.ast.targets[0].slice, ast.Constant) and n.ast.targets[0].slice.value == "_SIZE"]
    ok = False
    found = []
    for n, v in stores:
        t = rev.ev(v, n)
        found.append(show(t))
        if t[0] == "mcall" and t[1] == ex.qualname and len(t[2]) == 1:
            fl = first_line(t[2][0][1])
            ok = fl is not None and fl[0][0] == "sub" and fl[0][2] == lit(0) and fl[0][1][0] == "meth" and fl[0][1][2] == "read_sfile_header"
    chk.ob(R, "parser::size-from-first-line", ok and len(stores) == 1, rh.where(), "_SIZE in the header read back is the count of the SIZE line: hdr['_SIZE'] = _extract_size_from_string(<first line of the text read>) (%s)" % found)
    so = repo.func("esutil.sfile.SFile.open")
    nr = [t for e, n, c in find_calls(Ev(repo, so), named("Recfile")) for t in kw_terms(e, n, c, "nrows")]
    gn = repo.func("esutil.sfile.SFile.get_nrows")
    stored = ("sub", ("attr", SELF, "_hdr"), lit("_SIZE"))
    rets = _return_terms(Ev(repo, gn))
    # the header held by the handle is the one read_header() returned when open() stored it
    stored_in_open = (stored, ("sub", ("mcall", "esutil.sfile.SFile.read_header", ()), lit("_SIZE")))
    okn = len(nr) == 1 and (nr[0] in stored_in_open or (nr[0] == ("mcall", gn.qualname, ()) and bool(rets) and all(r == stored for r in rets)))
    chk.ob(R, "SFile.open::row-count-from-header", okn, so.where(), "the reader is told the stored row count (nrows=%s)" % [show(t) for t in nr])


BINARY = {"self.is_ascii": False, "self.delim": None}


# numpy callables that return a new array of a given shape and dtype, with their positional parameters
_FRESH_ARRAY = {"numpy.zeros": ("shape", "dtype", "order"), "numpy.empty": ("shape", "dtype", "order"), "numpy.ones": ("shape", "dtype", "order"),
                "numpy.full": ("shape", "fill_value", "dtype", "order"), "numpy.ndarray": ("shape", "dtype")}


def _fresh_array(t):
    """(term, {parameter: argument term}) of a call that allocates a new array, positional and keyword arguments bound to the
    parameter names; '?' is set when an argument cannot be bound (* / **, unknown keyword: numpy.ndarray(buffer=...) is not a new
    array); None when the term is not such a call"""
    if not (isinstance(t, tuple) and len(t) >= 4 and t[0] == "call" and t[1] in _FRESH_ARRAY):
        return None
    names = _FRESH_ARRAY[t[1]]
    a = {}
    for i, v in enumerate(t[2]):
        if i >= len(names) or (isinstance(v, tuple) and v and v[0] == "star"):
            a["?"] = True
        else:
            a[names[i]] = v
    for k, v in t[3]:
        if k in names and k not in a:
            a[k] = v
        elif k != "like" or v != NONE:
            a["?"] = True
    return t, a


# ---------------------------------------------------------------------------
# Where the rows go.  "Reading back returns the rows written" needs every row Write is given to land after the last byte the
# file already holds (header, rows of earlier writes).  A FILE* has one position shared by everything done on the handle: the
# constructor leaves a handle opened for update at the data offset (goto_offset), the readers leave it wherever they stopped, the
# SIZE-line updater rewinds.  So the position on entry of Write is not the end of the file in general, and Write has to put it
# there itself: on every path to the call that writes the rows the last positioning of the stream is a seek of 0 bytes from
# SEEK_END.  Forward data flow over the CFG of Write with the finite domain {END, OTHER (positioned elsewhere), ENTRY (as the
# caller left it), ? (handed to code this analysis does not know)}; functions of the file called on the way are analysed with the
# state they are entered in and their parameters bound to the arguments (a seek wrapped in a helper is the same seek).
# ---------------------------------------------------------------------------

_C_SEEK = ("fseek", "fseeko", "fseeko64", "_fseeki64", "fseek64")
_C_REPOSITION = ("rewind", "fsetpos", "fsetpos64", "freopen")
_C_KEEP_POSITION_KIND = ("fwrite", "fprintf", "vfprintf", "fputs", "fputc", "putc", "fread", "fgets", "fgetc", "getc", "fscanf", "fflush", "ftell", "ftello", "feof",
                         "ferror", "clearerr", "fileno", "fgetpos", "setvbuf", "setbuf", "fwrite_unlocked", "getc_unlocked")


class CStreamPos:
    def __init__(self, cfun, stream="mFptr"):
        self.cfun, self.stream = cfun, stream
        self.sites = None           # {id(call): (function name, call, states)} while recording
        self._memo = {}

    def _is_stream(self, a, pmap):
        return cfront.render(_c_subst_params(a, pmap)) == self.stream

    def _const(self, a, pmap, inits):
        return c_const_int(_c_subst_params(c_subst(a, inits), pmap), {})

    def _call(self, fn, c, S, pmap, inits, depth):
        nm = cfront.callee_name(c)
        args = cfront.call_args(c)
        on_stream = [i for i, a in enumerate(args) if self._is_stream(a, pmap)]
        # fseek and its spellings, and wrappers named after it with the same three parameters (myfseeko: fseeko or _fseeki64 by platform)
        if (nm in _C_SEEK or (nm and "seek" in nm.lower() and not (self.cfun.get("Records::%s" % nm) or self.cfun.get(nm)))) and on_stream == [0] and len(args) == 3:
            off, wh = self._const(args[1], pmap, inits), self._const(args[2], pmap, inits)
            if wh == 2:
                return frozenset(["END"]) if off == 0 else (frozenset(["OTHER"]) if off is not None else frozenset(["?"]))
            if wh == 1 and off == 0:
                return S
            return frozenset(["OTHER"]) if wh is not None else frozenset(["?"])
        if nm in _C_REPOSITION and on_stream:
            return frozenset(["OTHER"])
        if nm in _STREAM_OUT and on_stream and self.sites is not None:
            old = self.sites.get(id(c))
            self.sites[id(c)] = (fn.get("name"), c, S | (old[2] if old else frozenset()))
        if nm in _C_KEEP_POSITION_KIND or nm in _STREAM_OUT:
            return S
        g = (self.cfun.get("Records::%s" % nm) or self.cfun.get(nm)) if nm else None
        if g is not None and cfront.has_body(g) and g is not fn and depth < 5:
            ps = cfront.params_of(g)
            sub = {p: _c_subst_params(c_subst(a, inits), pmap) for p, a in zip(ps, args) if p}
            return self.run(g, S, sub, depth + 1)[0]
        if on_stream:
            return frozenset(["?"])         # the stream handed to a function this analysis has no model of
        return S

    def _node(self, fn, n, S, pmap, inits, depth):
        if n.c is None:
            return S
        calls = cfront.node_calls(n)
        for c in reversed(calls):           # arguments before the call they are arguments of
            S = self._call(fn, c, S, pmap, inits, depth)
        for x in cfront.walk(n.c):
            if x.get("kind") == "BinaryOperator" and x.get("opcode") == "=" and cfront.render(x["inner"][0]) == self.stream:
                S = frozenset(["OTHER"])    # a stream just opened is at the start of the file
        return S

    def run(self, fn, entry, pmap=None, depth=0):
        """(states at the normal exit, {node id: states before the node}) for the function entered in `entry`"""
        pmap = pmap or {}
        key = (fn.get("name"), id(fn), entry, tuple(sorted((k, cfront.render(v)) for k, v in pmap.items())), self.sites is not None)
        if key in self._memo:
            return self._memo[key]
        self._memo[key] = (entry, {})       # recursion: as entered
        cc = cfront.CCFG(fn)
        inits = c_inits(fn)
        before = {cc.entry.id: frozenset(entry)}
        after = {}
        work = [cc.entry.id]
        while work:
            i = work.pop()
            n = cc.node(i)
            out = self._node(fn, n, before.get(i, frozenset()), pmap, inits, depth)
            if after.get(i) == out:
                continue
            after[i] = out
            for j in cc.g.successors(i):
                new = before.get(j, frozenset()) | out
                if new != before.get(j) or j not in after:
                    before[j] = new
                    work.append(j)
        res = (before.get(cc.exit.id, frozenset()), before)
        self._memo[key] = res
        return res


def write_position(chk, cfun, w, wc, arms, winits):
    """R01.3: the rows handed to Records::Write go after the last byte already in the file"""
    R, key = "R01.3", "Records::Write::rows-go-to-the-end-of-the-file"
    sp = CStreamPos(cfun)
    try:
        _, before = sp.run(w, frozenset(["ENTRY"]))
        sp.sites = {}
        for n, c, g in arms["bin"] + arms["other"]:
            S = before.get(n.id, frozenset())
            if g is None:
                sp.sites[id(c)] = (w.get("name"), c, S)
            else:
                pm = {p: c_subst(a_, winits) for p, a_ in zip(cfront.params_of(g), cfront.call_args(c)) if p}
                sp._memo.clear()
                sp.run(g, S, pm, 1)
        sites = list(sp.sites.values())
        sp.sites = None
        sp._memo.clear()
        ctor = cfun.get("Records::Records")
        left = sp.run(ctor, frozenset(["OTHER"]))[0] if ctor is not None and cfront.has_body(ctor) else frozenset(["?"])
    except AnalysisError as e:
        chk.ob(R, key, None, cwhere(w), "the stream position could not be followed through Write (%s)" % e)
        return
    # a stream opened with a literal "a..." mode writes at the end whatever its position
    fopens = [c for f in cfun.values() if cfront.has_body(f) for c in cfront.calls_in(cfront.body_of(f)) if cfront.callee_name(c) in ("fopen", "fopen64", "fdopen")]
    modes = [c_string_literal(cfront.call_args(c)[1]) for c in fopens if len(cfront.call_args(c)) >= 2]
    if fopens and all(m is not None and m.startswith("a") for m in modes):
        chk.ob(R, key, True, cwhere(w), "the file is opened in append mode (%s): every write goes to the end" % modes)
        return
    if not sites:
        chk.ob(R, key, None, cwhere(w), "the call of Write that puts the rows of a binary file into the stream was not found")
        return
    ok, why = True, []
    for fname, c, S in sites:
        txt = "%s in %s" % (cfront.render(c), fname)
        if "OTHER" in S:
            ok = False
            why.append("%s is reached with the stream positioned somewhere else than the end of the file (rewind / seek to an offset is the last positioning on a path)" % txt)
        elif "ENTRY" in S:
            if "OTHER" in left:
                ok = False
                why.append("%s is reached on a path of Write with no seek to the end of the file (fseek(mFptr, 0, SEEK_END)): the rows go wherever the handle was left, "
                           "and the constructor leaves a handle opened for update at the data offset (goto_offset), the readers wherever they stopped: "
                           "rows appended through mode 'r+' overwrite the rows the file holds" % txt)
            elif "?" in left or not left:
                ok = None if ok else ok
                why.append("%s: position on entry of Write not known" % txt)
        elif "?" in S or not S:
            ok = None if ok else ok
            why.append("%s: stream handed to code that is not modelled" % txt)
    chk.ob(R, key, ok, cwhere(w), "on every path of Write the last positioning of the stream before the rows are written is a seek to the end of the file, so that they land after the header "
           "and the rows already there whatever was done on the handle before%s" % ("" if not why else ": " + "; ".join(why)))


# ---------------------------------------------------------------------------
# Which arrays Write accepts.  The property is about any structured array; what Recfile.write guarantees of the object it hands
# over is that its rows are one after the other (C-contiguous) and nothing else: it may be read-only (numpy.frombuffer over bytes,
# setflags(write=False), a mode='r' memmap, a broadcast view), not aligned, not the owner of its buffer.  Write only reads the
# buffer.  So no throw of Write may be decided by a flag of the array other than the contiguity ones.  The conditions the throws
# are control dependent on are evaluated in three-valued logic over the flag word: flag tests (PyArray_CHKFLAGS and the macros
# that expand to it, PyArray_FLAGS(a) & mask, ->flags & mask, PyArray_FailUnlessWriteable) are decided for each of the eight
# valuations of WRITEABLE / ALIGNED / OWNDATA with C_CONTIGUOUS set, everything else is unknown.  A valuation under which
# a throw is certainly taken is a class of arrays of the quantifier that cannot be written.
# ---------------------------------------------------------------------------

_NPY_FLAG_NAMES = {0x1: "C_CONTIGUOUS", 0x2: "F_CONTIGUOUS", 0x4: "OWNDATA", 0x100: "ALIGNED", 0x400: "WRITEABLE"}
_NPY_FREE_FLAGS = (0x4, 0x100, 0x400)
_NPY_FLAG_TESTS = ("PyArray_CHKFLAGS", "PyArray_FLAGS", "PyArray_FailUnlessWriteable")


class _FlagWord(int):
    """the flag word of the array: only its known bits may be looked at"""


_NPY_API_SLOTS = {"*PyArray_API[286]": "PyArray_FailUnlessWriteable"}       # functions reached through the C-API table (fixed slots of the numpy ABI)


def _npy_callee(c):
    nm = cfront.callee_name(c)
    if nm is None and c.get("kind") == "CallExpr" and c.get("inner"):
        nm = _NPY_API_SLOTS.get(cfront.render(c["inner"][0]))
    return nm


def _c_flag_atoms(n):
    return [x for x in cfront.walk(n) if (x.get("kind") == "CallExpr" and _npy_callee(x) in _NPY_FLAG_TESTS) or
            (x.get("kind") == "MemberExpr" and x.get("name") == "flags")]


def _c_flag_eval(n, flags):
    """value of an integer / boolean C expression given the flag word of the array; None when it depends on anything else"""
    n = cfront.strip(n)
    k = n.get("kind")
    inner = [y for y in (n.get("inner") or []) if isinstance(y, dict) and y.get("kind")]
    known = sum(_NPY_FLAG_NAMES)
    if k == "IntegerLiteral":
        try:
            return int(n.get("value"))
        except (TypeError, ValueError):
            return None
    if k == "CharacterLiteral":
        return n.get("value") if isinstance(n.get("value"), int) else None
    if k == "CXXBoolLiteralExpr":
        return int(bool(n.get("value")))
    if k == "UnaryOperator" and inner:
        v = _c_flag_eval(inner[0], flags)
        if v is None or isinstance(v, _FlagWord):
            return None
        return {"!": lambda: int(not v), "~": lambda: ~v, "-": lambda: -v, "+": lambda: v}.get(n.get("opcode"), lambda: None)()
    if k == "BinaryOperator" and len(inner) == 2:
        op = n.get("opcode")
        a, b = _c_flag_eval(inner[0], flags), _c_flag_eval(inner[1], flags)
        if op in ("&&", "||"):
            a, b = [None if (x is None or isinstance(x, _FlagWord)) else bool(x) for x in (a, b)]
            if op == "&&":
                return 0 if (a is False or b is False) else (1 if (a and b) else None)
            return 1 if (a is True or b is True) else (0 if (a is False and b is False) else None)
        if a is None or b is None:
            return None
        if isinstance(a, _FlagWord) or isinstance(b, _FlagWord):
            m = b if isinstance(a, _FlagWord) else a
            if op != "&" or isinstance(m, _FlagWord) or m & ~known:
                return None
            return int(flags) & m
        try:
            return {"&": lambda: a & b, "|": lambda: a | b, "^": lambda: a ^ b, "+": lambda: a + b, "-": lambda: a - b, "*": lambda: a * b,
                    "==": lambda: int(a == b), "!=": lambda: int(a != b), "<": lambda: int(a < b), "<=": lambda: int(a <= b),
                    ">": lambda: int(a > b), ">=": lambda: int(a >= b), "<<": lambda: a << b if 0 <= b < 64 else None}.get(op, lambda: None)()
        except Exception:
            return None
    if k == "ConditionalOperator" and len(inner) == 3:
        c = _c_flag_eval(inner[0], flags)
        if c is None or isinstance(c, _FlagWord):
            return None
        return _c_flag_eval(inner[1] if c else inner[2], flags)
    if k == "CallExpr":
        nm, args = _npy_callee(n), cfront.call_args(n)
        if nm == "PyArray_CHKFLAGS" and len(args) == 2:
            m = _c_flag_eval(args[1], flags)
            if m is None or isinstance(m, _FlagWord) or m & ~known:
                return None
            return int((int(flags) & m) == m)
        if nm == "PyArray_FLAGS" and len(args) == 1:
            return _FlagWord(flags)
        if nm == "PyArray_FailUnlessWriteable":
            return 0 if int(flags) & 0x400 else -1
        return None
    if k == "MemberExpr" and n.get("name") == "flags":
        return _FlagWord(flags)
    return None


def write_accepts_any_flags(chk, w, wc, winits):
    """R01.3: no throw of Records::Write is decided by the WRITEABLE / ALIGNED / OWNDATA flag of the array"""
    R, key = "R01.3", "Records::Write::no-throw-decided-by-writeable-aligned-owndata"
    view = wc.view()
    ok, why = True, []
    for r in wc.nodes:
        if r.kind != "raise" or r.id not in view.reach:
            continue
        flagged, others = [], []
        for b, lab in view.controlling_branches(r):
            if b.c is None or lab not in ("T", "F"):
                continue
            cond = c_subst(b.c, winits)
            (flagged if _c_flag_atoms(cond) else others).append((cond, lab))
        if not flagged:
            continue
        rels = c_controls(wc, r, winits)
        if holds(rels, "mFileType", "!=", "BINARY_FILE"):
            continue                        # a throw of the text path
        rejected, unknown = [], False
        for bits in range(1 << len(_NPY_FREE_FLAGS)):
            fl = 0x3 | sum(f for i, f in enumerate(_NPY_FREE_FLAGS) if bits >> i & 1)
            vals = [_c_flag_eval(cond, fl) for cond, lab in flagged]
            if any(v is None or isinstance(v, _FlagWord) for v in vals):
                unknown = True
                continue
            if all(bool(v) == (lab == "T") for v, (cond, lab) in zip(vals, flagged)):
                rejected.append(fl)
        txt = " and ".join("%s%s" % ("" if lab == "T" else "not ", cfront.render(cond)) for cond, lab in flagged)
        if rejected and len(rejected) < (1 << len(_NPY_FREE_FLAGS)):
            # the other conditions of the throw: tests that an array of the text/binary kind in hand passes are not in the way
            plain = all(any(s in cfront.render(cond) for s in ("PyObject_TypeCheck", "PyArray_Check", "mDebug", "mFileType")) for cond, lab in others)
            full = 0x3 | sum(_NPY_FREE_FLAGS)
            alone = ["without " + _NPY_FLAG_NAMES[f] for f in _NPY_FREE_FLAGS if (full & ~f) in rejected] + \
                    ["with " + _NPY_FLAG_NAMES[f] for f in _NPY_FREE_FLAGS if (0x3 | f) in rejected and 0x3 not in rejected]
            msg = "%s at line %s is taken when %s: a C-contiguous array %s cannot be written although Write only reads its buffer" % (
                r.text()[:80], r.lineno, txt, " / ".join(alone) or "with flag word(s) %s" % ", ".join(hex(x) for x in rejected[:4]))
            if plain:
                ok = False
            elif ok:
                ok = None
            why.append(msg)
        elif unknown:
            if ok:
                ok = None
            why.append("%s at line %s depends on a flag test that could not be decided (%s)" % (r.text()[:60], r.lineno, txt))
    chk.ob(R, key, ok, cwhere(w), "every C-contiguous array is accepted whatever its WRITEABLE / ALIGNED / OWNDATA flags (read-only arrays are structured arrays like any other and Write "
           "only reads the buffer)%s" % ("" if not why else ": " + "; ".join(why)))


def payload(chk, repo, cfun):
    R = "R01.3"
    eng = effects.Effects(repo, c_summaries())
    fi = repo.func("esutil.recfile.Util.Recfile.write")
    chk.analysed_unit(fi.qualname)
    bev = Ev(repo, fi, flags=BINARY)
    # binary path: what reaches Records::Write is a view of the caller's array and nothing converts it
    calls = find_calls(bev, lambda c: True)
    names = [call_name(c) for e, n, c in calls]
    chk.ob(R, "Recfile.write[binary]::no-conversion", not any(nm in ("to_native_inplace", "to_native", "byteswap", "astype", "copy", "newbyteorder") for nm in names), fi.where(),
           "on the binary path nothing converts or copies the data (calls: %s)" % names)
    import checks.C15 as C15
    an = effects._Analyse(eng, fi, {"self.is_ascii": False})
    init = {p: {("P", p, "same", p == "data")} for p in an.params}
    C15._run_with_init(an, init)
    data = ("param", fi.params[1]) if len(fi.params) > 1 else None
    wargs = [e.ev(c.args[0], n) for e, n, c in calls if call_name(c) == "Write" and c.args]
    _LAYOUT_KW = ("order", "copy", "subok", "requirements")

    def _layout_only(t):
        """peel wrappers that keep every row's bytes, the dtype and the byte order: numpy.ascontiguousarray / asarray / asanyarray /
        require / array / copy of one positional argument (the second positional parameter of all of them is a dtype) with no
        keyword other than order= / copy= / subok= / requirements=, and .copy()"""
        while isinstance(t, tuple) and t:
            if t[0] == "call" and len(t) >= 3 and str(t[1]).startswith("numpy.") and str(t[1]).split(".")[-1] in ("ascontiguousarray", "asarray", "asanyarray", "require", "array", "copy") \
                    and t[2] and len(t[2]) == 1 and t[2][0][0] != "star" and all(k in _LAYOUT_KW for k, _ in (t[3] if len(t) > 3 and t[3] else ())):
                t = t[2][0]
                continue
            if t[0] == "meth" and t[2] == "copy" and all(k == "order" for k, _ in (t[4] if len(t) > 4 and t[4] else ())) and \
                    (not t[3] or (len(t[3]) == 1 and is_lit(t[3][0], str))):
                t = t[1]
                continue
            break
        return t

    def _same_array(t):
        """the caller's array itself or a view of it that changes only the Python class: data, data.view(), data.view(numpy.ndarray),
        data.view(type=numpy.ndarray) (ndarray.view(dtype_or_type=None, type=None): a class in either position selects the class of the
        view and leaves dtype and bytes alone; a dtype would re-interpret the bytes)"""
        if t == data:
            return True
        if isinstance(t, tuple) and len(t) == 5 and t[0] == "meth" and t[1] == data and t[2] == "view":
            given = list(t[3]) + [v for k, v in t[4] if k == "type"]
            return all(k == "type" for k, _ in t[4]) and len(given) <= 1 and all(v == ("glob", "numpy.ndarray") for v in given)
        return False
    w0 = _layout_only(wargs[0]) if len(wargs) == 1 else None
    ok = None if len(wargs) != 1 else _same_array(w0)
    chk.ob(R, "Recfile.write[binary]::writes-view-of-callers-array", ok, fi.where(), "Records::Write receives data.view(ndarray): the caller's bytes, dtype and byte order as they are (%s)" % [show(t) for t in wargs])
    # the same on the Python side of the writer: no raise of the binary path is decided by a flag of the array other than contiguity
    _free = {"writeable", "w", "aligned", "a", "owndata", "o", "behaved", "b", "carray", "ca", "farray", "fa", "writebackifcopy", "x"}
    _is_flags = lambda x: isinstance(x, tuple) and len(x) == 3 and x[0] == "attr" and x[2] == "flags"
    _free_flag = lambda x: isinstance(x, tuple) and len(x) == 3 and ((x[0] == "attr" and _is_flags(x[1]) and str(x[2]).lower() in _free) or
                                                                     (x[0] == "sub" and _is_flags(x[1]) and is_lit(x[2], str) and x[2][1].lower() in _free))
    hits = []
    for e, n in all_raises(bev):
        for atom, truth in path_literals(e, n):
            if any(_free_flag(x) for x in subterms(atom)):
                hits.append("raise at line %s when %s%s" % (n.lineno, "" if truth else "not ", show(atom)))
    chk.ob(R, "Recfile.write[binary]::no-raise-decided-by-writeable-aligned-owndata", not hits, fi.where(),
           "no raise of the binary write path is decided by the WRITEABLE / ALIGNED / OWNDATA flag of the caller's array: read-only arrays are structured arrays like any other "
           "and writing only reads them (%s)" % (hits or "none"))
    # C++ Write
    w = cfun["Records::Write"]
    chk.analysed_unit("Records::Write")
    winits = c_inits(w)
    # the array is the (one) parameter of Write, whatever it is called: mData must be its buffer, mNrows computed from it
    wps = [p for p in cfront.params_of(w) if p]
    wasg = {}
    for x in cfront.walk(cfront.body_of(w)):
        if x.get("kind") == "BinaryOperator" and x.get("opcode") == "=":
            wasg.setdefault(cfront.render(x["inner"][0]), []).append(c_subst(x["inner"][1], winits))
    shown = {k: [cfront.render(v) for v in vs] for k, vs in wasg.items() if k in ("mData", "mNrows")}
    if len(wps) != 1 or len(wasg.get("mData", [])) != 1 or len(wasg.get("mNrows", [])) != 1:
        okp = None
    else:
        arr = wps[0]
        derived = c_derived_names(w, [arr])         # locals computed from the parameter (a cast pointer, or a converted copy: not told apart here)
        tri = lambda e, exact: True if exact else (None if _c_refs(e) & derived else False)
        dtxt = cfront.render(wasg["mData"][0])
        okd_ = tri(wasg["mData"][0], dtxt in ("PyArray_DATA(%s)" % arr, "PyArray_BYTES(%s)" % arr))     # False: the buffer written is not taken from the array handed in
        okn_ = tri(wasg["mNrows"][0], arr in _c_refs(wasg["mNrows"][0]))
        okp = False if False in (okd_, okn_) else (None if None in (okd_, okn_) else True)
    chk.ob(R, "Records::Write::data-pointer-and-count", okp, cwhere(w), "mData is the buffer of the array handed to Write and mNrows its size (%s, %s)" % (shown.get("mData"), shown.get("mNrows")))
    cfi = cfun["Records::copy_field_info"]
    rs = [cfront.render(x["inner"][1]) for x in cfront.walk(cfront.body_of(cfi)) if x.get("kind") == "BinaryOperator" and x.get("opcode") == "=" and cfront.render(x["inner"][0]) == "mRowSize"]
    chk.ob(R, "Records::copy_field_info::row-size-is-itemsize", len(rs) == 1 and "descr" in rs[0] and ("ELSIZE" in rs[0] or "elsize" in rs[0]), cwhere(cfi), "the row size is the dtype's item size (%s)" % rs)
    # The binary path of Write, wherever it lives: the calls of Write that put bytes into the file (fwrite & co. on mFptr, or a
    # function of this file that does) are sorted by the test on mFileType they are control dependent on.  The one under
    # `mFileType == BINARY_FILE` is the binary writer; its fwrite is read with the writer's parameters replaced by the arguments
    # of the call and with the values Write stored in mData / mNrows written as those members.
    wc = cfront.CCFG(w)
    wview = wc.view()
    arms = {"bin": [], "txt": [], "other": []}
    for n in wc.nodes:
        if n.id not in wview.reach:
            continue
        for c in cfront.node_calls(n):
            nm = cfront.callee_name(c)
            g = None
            if nm in _STREAM_OUT:
                if "mFptr" not in _c_refs_members(c):
                    continue
            else:
                g = cfun.get("Records::%s" % nm) or cfun.get(nm) if nm else None
                if g is None or not cfront.has_body(g) or not _c_writes_file(cfun, g):
                    continue
            rels = c_controls(wc, n, winits)
            arm = "bin" if holds(rels, "mFileType", "==", "BINARY_FILE") else ("txt" if holds(rels, "mFileType", "!=", "BINARY_FILE") else "other")
            arms[arm].append((n, c, g))
    disp = {k: [cfront.render(c) for _, c, _ in v] for k, v in arms.items()}
    wb, pmap = None, {}
    if len(arms["bin"]) == 1:
        _, bc, g = arms["bin"][0]
        if g is None:
            wb = w                      # the fwrite sits in Write itself
        else:
            wb = g
            pmap = {p: c_subst(a_, winits) for p, a_ in zip(cfront.params_of(g), cfront.call_args(bc)) if p}
    stored = {}
    for member in ("mData", "mNrows"):
        if len(wasg.get(member, [])) == 1:
            stored[cfront.render(wasg[member][0])] = member
    if wb is None:
        chk.ob(R, "Records::WriteAllAsBinary::single-fwrite", None, cwhere(w), "the call of Write that writes the rows of a binary file (one call under mFileType == BINARY_FILE) was not found (%s)" % disp)
    else:
        chk.analysed_unit("Records::%s" % wb.get("name"))
        binits = c_inits(wb) if wb is not w else winits
        if wb is w:
            fwc = [c for _, c, _ in arms["bin"]]
        else:
            fwc = [c for c in cfront.calls_in(cfront.body_of(wb)) if cfront.callee_name(c) in _STREAM_OUT or
                   ((cfun.get("Records::%s" % cfront.callee_name(c)) or cfun.get(cfront.callee_name(c) or "")) is not None and
                    _c_writes_file(cfun, cfun.get("Records::%s" % cfront.callee_name(c)) or cfun.get(cfront.callee_name(c))))]
        fw = [c_render(c, binits) for c in fwc]

        def as_members(c):
            """the arguments of the fwrite in terms of Write: parameters of the writer -> arguments of its call, values stored in
            mData / mNrows -> those members"""
            out = []
            for a_ in cfront.call_args(c):
                t = cfront.render(_c_subst_params(c_subst(a_, binits), pmap))
                out.append(stored.get(t, t))
            return out
        one = len(fwc) == 1 and cfront.callee_name(fwc[0]) == "fwrite" and len(cfront.call_args(fwc[0])) == 4
        got = as_members(fwc[0]) if one else None
        chk.ob(R, "Records::WriteAllAsBinary::single-fwrite", None if not fw else (one and got == ["mData", "mRowSize", "mNrows", "mFptr"]), cwhere(wb),
               "one fwrite of mNrows rows of mRowSize bytes from the buffer (%s%s)" % (fw, "" if not got or not pmap else ", i.e. fwrite(%s)" % ", ".join(got)))
        ccfg = cfront.CCFG(wb)
        thr = [n for n in ccfg.nodes if n.kind == "raise"]
        rels = [c_controls(ccfg, n, binits) for n in thr]
        short = False
        if one:
            cnt = c_render(cfront.call_args(fwc[0])[2], binits)
            # fwrite returns at most the count asked for: `written < count` and `written != count` both mean a short write
            short = bool(thr) and any(holds(r, fw[0], "<", cnt) or holds(r, fw[0], "!=", cnt) for r in rels)
        chk.ob(R, "Records::WriteAllAsBinary::short-write-throws", None if not one else short, cwhere(wb), "a short write raises: a throw is control dependent on fwrite(...) < mNrows (%s)" % rels)
    okd = None
    if len(arms["bin"]) == 1 and arms["txt"] and not arms["other"]:
        okd = True
    elif arms["bin"] or arms["txt"] or arms["other"]:
        # the single fwrite reached for text files, the row-by-row writer for binary ones, or either of them whatever the type
        swapped = any(g is not None and g is not w and _c_single_fwrite(g) for _, _, g in arms["txt"] + arms["other"]) or \
            any(g is not None and not _c_single_fwrite(g) for _, _, g in arms["bin"])
        okd = False if swapped else None
    chk.ob(R, "Records::Write::binary-dispatch", okd, cwhere(w), "binary files take the single-fwrite path (%s)" % disp)
    write_position(chk, cfun, w, wc, arms, winits)
    write_accepts_any_flags(chk, w, wc, winits)
    sft = cfun["Records::set_file_type"]
    chk.analysed_unit("Records::set_file_type")
    okf, seen = file_type_by_delimiter(sft)
    chk.ob(R, "Records::set_file_type::binary-iff-no-delimiter", okf, cwhere(sft), "a file is binary exactly when the delimiter is empty (%s)" % seen)
    # readers
    filedtype = ("attr", SELF, "dtype")
    for q in ("esutil.recfile.Util.Recfile._read_binary_slice", "esutil.recfile.Util.Recfile._read_columns"):
        f = repo.func(q)
        chk.analysed_unit(q)
        fev = Ev(repo, f)
        # the allocation, however its arguments are passed: zeros(n, dtype=d) = zeros((n,), d) = zeros(shape=n, dtype=d) = empty(...) =
        # ndarray(n, d) = full(n, v, d)
        def fits(fa):
            t, a = fa
            shape, dt = a.get("shape"), a.get("dtype")
            if a.get("?") or shape is None or shape[0] == "star":
                return None                     # arguments handed over with * / **, or a keyword this rule does not know
            one_d = shape[0] not in ("tuple", "list") or (len(shape[1]) == 1 and shape[1][0][0] != "star")
            return bool(one_d and dt is not None and mentions_term(dt, filedtype))
        # the buffer is what the C++ reader is handed as its first argument (followed through the locals that carry it); where that
        # is not an allocation this rule knows, the allocations of the function are looked at instead
        bufs = [e.ev(c.args[0], n) for e, n, c in find_calls(fev, named("read_binary_slice", "read_columns", "read_binary_columns"), follow=False) if c.args]
        alts = [x for b in bufs for x in (b[1] if b[0] == "phi" else (b,))]
        z = [_fresh_array(x) for x in alts]
        if not z or None in z:
            z = [a for a in (_fresh_array(e.ev(c, n)) for e, n, c in find_calls(fev, named(*sorted({q.split(".")[-1] for q in _FRESH_ARRAY})), follow=False)) if a is not None]
            verdicts = [fits(a) for a in z]
            okz = None if (not z or None in verdicts or (len(z) > 1 and False in verdicts)) else all(verdicts)
        else:
            verdicts = [fits(a) for a in z]
            okz = False if False in verdicts else (None if None in verdicts else True)
        chk.ob(R, f.name + "::zeroed-buffer-of-file-dtype", okz, f.where(), "rows are read into a freshly allocated array of n rows, zeros(n, dtype=<file dtype / its column subset>) (or numpy.empty: the initial content does not matter to rows the reader fills) (%s)" % [show(t) for t, _ in z])
    op = repo.func("esutil.recfile.Util.Recfile.open")
    oev = Ev(repo, op, flags=BINARY)
    dts = [oev.ev(v, n) if v is not None else None for n, v in oev.attr_defs().get("self.dtype", [])]
    dts = [t for t in dts if t != NONE]

    def as_given(t):
        """True: numpy.dtype(<the dtype keyword>); False: the dtype goes through a byte-order changing step; None: not recognised"""
        if t is not None and t[0] == "call" and t[1] == "numpy.dtype" and len(t[2]) == 1 and not t[3]:
            x = t[2][0]
            if x == ("param", "dtype") or (x[0] == "meth" and x[1] == ("param", "keys") and x[2] in ("get", "pop") and x[3][:1] == (lit("dtype"),)):
                return True
        if t is not None and any(isinstance(x[0], str) and ((x[0] == "call" and "byteorder" in x[1]) or (x[0] == "meth" and "byteorder" in x[2])) for x in subterms(t) if x):
            return False
        return None
    verdicts = [as_given(t) for t in dts]
    ok = None if not dts else (False if False in verdicts else (None if None in verdicts else True))
    chk.ob(R, "Recfile.open::binary-dtype-kept-as-given", ok, op.where(),
           "for binary files the reader's dtype is numpy.dtype(<given>) with its byte order; stripping is control dependent on the text condition (binary path: %s)" % [show(t) if t else None for t in dts])
    for nm in ("Records::read_binary_columns", "Records::read_binary_slice"):
        ccfg = cfront.CCFG(cfun[nm])
        view = ccfg.view()
        gos = [n for n in ccfg.nodes for c in cfront.node_calls(n) if cfront.callee_name(c) == "goto_offset"]
        rdn = [n for n in ccfg.nodes for c in cfront.node_calls(n) if cfront.callee_name(c) in ("fread", "read_from_binary_column", "skip_rows", "skip_binary_rows", "do_seek")]
        chk.ob(R, nm + "::seek-to-data-offset-first", bool(gos) and bool(rdn) and all(view.dominates(gos[0], n) for n in rdn), cwhere(cfun[nm]), "goto_offset() dominates every read/skip")
    go = cfun["Records::goto_offset"]
    fs = [cfront.render(c) for c in cfront.calls_in(cfront.body_of(go))]
    chk.ob(R, "Records::goto_offset::absolute-seek", fs == ["fseek(mFptr, mFileOffset, 0)"], cwhere(go), "goto_offset seeks to the stored data offset from the start of the file (%s)" % fs)
    ctor = cfun["Records::Records"]
    asg = [cfront.render(x) for x in cfront.walk(cfront.body_of(ctor)) if x.get("kind") == "BinaryOperator" and x.get("opcode") == "=" and cfront.render(x["inner"][0]) == "mFileOffset"]
    chk.ob(R, "Records::Records::offset-stored", asg == ["(mFileOffset = offset)"], cwhere(ctor), "the data offset given by Python is stored")
    rb = cfun["Records::read_from_binary_column"]
    fr = [cfront.render(c) for c in cfront.calls_in(cfront.body_of(rb)) if cfront.callee_name(c) == "fread"]
    chk.ob(R, "Records::read_from_binary_column::field-sized-read", fr == ["fread(buff, mSizes[colnum], 1, mFptr)"], cwhere(rb), "a column is read as its full byte size into the output (%s)" % fr)
    # SFile dtype from the header
    so = repo.func("esutil.sfile.SFile.open")
    sev = Ev(repo, so)
    sev.through_helpers = True      # self._dtype may be stored by a helper method open() calls
    kw = [t for e, n, c in find_calls(sev, named("Recfile")) if kw_terms(e, n, c, "offset") for t in kw_terms(e, n, c, "dtype")]
    ok = False
    if len(kw) == 1 and kw[0][0] == "call" and kw[0][1] == "numpy.dtype" and len(kw[0][2]) == 1:
        d = kw[0][2][0]
        if d[0] == "call" and d[1] == "esutil.sfile._match_key" and len(d[2]) >= 2:
            hdr_ok = d[2][0] in (("attr", SELF, "_hdr"), ("mcall", "esutil.sfile.SFile.read_header", ()))
            ok = hdr_ok and is_lit(d[2][1], str) and d[2][1][1].lower() == "_dtype" and (dict(d[3]).get("require") == lit(True) or (len(d[2]) == 3 and d[2][2] == lit(True)))
    chk.ob(R, "SFile.open::dtype-from-header", ok, so.where(), "the reader's dtype is rebuilt from the header's _DTYPE and handed to the record reader (dtype=%s)" % [show(t) for t in kw])


# ---------------------------------------------------------------------------
# Row transfers of the slice reader.  Records::read_binary_slice fills the array handed in by Python (n rows of the file's dtype,
# see the zeroed-buffer rule) with fread calls; for the rows read back to be the rows written, every transfer has to land at the
# byte offset of the first row it carries: the transfer that follows k rows goes to <buffer of the array> + k * <row size>.
# Decided on the clang AST by affine arithmetic over byte addresses (pointer arithmetic scaled by the pointee size, once-
# initialised locals replaced by their initialiser, PyArray_GETPTR1 read as its expansion BYTES + i * STRIDES[0]):
#   start     the destination of the first transfer is the buffer of the array;
#   advance   in a loop, what one pass adds to the destination address (through the variables the pass steps) is the number
#             of bytes the pass transfers, size * count of its fread, as a polynomial identity;
#   amount    the rows transferred add up to the rows asked for: one fread of <row size> x <rows of the slice>, or a loop that
#             counts the rows of each pass from 0 up to that number.
# The row stride of the array and its item size are the row size of the file (the Python side allocates the array with the
# file's dtype; that is another rule of this check).  Polynomials cover every row size, row count and slice; nothing is sampled.
# ---------------------------------------------------------------------------

_C_SIZEOF = {"char": 1, "unsigned char": 1, "signed char": 1, "void": 1, "bool": 1, "short": 2, "unsigned short": 2, "int": 4, "unsigned int": 4,
             "long": 8, "unsigned long": 8, "long long": 8, "unsigned long long": 8, "float": 4, "double": 8}
_C_LOOPS = ("ForStmt", "WhileStmt", "DoStmt")
_C_ROWCOUNT_OF_SLICE = ("process_slice",)
_C_TRANSPARENT = ("ImplicitCastExpr", "ParenExpr", "CStyleCastExpr", "ConstantExpr", "ExprWithCleanups", "MaterializeTemporaryExpr", "CXXStaticCastExpr",
                  "CXXReinterpretCastExpr", "CXXConstCastExpr", "CXXFunctionalCastExpr")


def _c_type(n):
    t = n.get("type") or {}
    return (t.get("desugaredQualType") or t.get("qualType") or "").strip()


def _c_pointee_size(qt):
    """bytes one step of a pointer of this type moves (void* as in GNU C: 1); None when it is not a pointer to a basic type"""
    if not qt.endswith("*"):
        return None
    base = " ".join(w for w in qt[:-1].replace("*", " * ").split() if w not in ("const", "volatile", "restrict", "__restrict"))
    if "*" in base:
        return 8
    return _C_SIZEOF.get(base)


def _c_kids(n):
    return [y for y in (n.get("inner") or []) if isinstance(y, dict) and y.get("kind")]


class CAffine:
    """C integer and address expressions as polynomials (sympy normalises polynomials, nothing else).  resolve(name) gives the
    initialiser of a local whose value at the point of interest is its one store, or None; cfun the functions of the file: a
    helper whose body is one `return <expression>;` is read as that expression with its parameters bound."""

    def __init__(self, resolve, cfun=None):
        import sympy as sp
        self.sp = sp
        self.resolve = resolve
        self.cfun = cfun or {}
        self.ROW = sp.Symbol("ROWSIZE", positive=True, integer=True)
        self.opaque = set()         # symbols standing for expressions this reading does not follow
        self.bases = {}             # symbol -> the array whose buffer it is
        self.rowcounts = set()      # symbols that are the number of rows of the slice asked for
        self.used = {}              # local replaced by its initialiser -> that polynomial
        self.env = []               # parameter bindings of the helpers being read

    def sym(self, name):
        return self.sp.Symbol(name, integer=True)

    def _opaque(self, n):
        s = self.sym("<%s>" % cfront.render(n))
        self.opaque.add(s)
        return s

    def _helper(self, n, depth):
        nm = cfront.callee_name(n)
        g = (self.cfun.get("Records::%s" % nm) or self.cfun.get(nm)) if nm else None
        if g is None or not cfront.has_body(g) or depth > 6 or len(self.env) > 3:
            return None
        st = _c_kids(cfront.body_of(g))
        if len(st) != 1 or st[0].get("kind") != "ReturnStmt" or not _c_kids(st[0]):
            return None
        ps = cfront.params_of(g)
        args = cfront.call_args(n)
        if n.get("kind") == "CXXMemberCallExpr":
            callee = cfront.strip(n["inner"][0])
            if not (callee.get("kind") == "MemberExpr" and (not _c_kids(callee) or cfront.strip(_c_kids(callee)[0]).get("kind") == "CXXThisExpr")):
                return None
        if len(ps) != len(args) or not all(ps):
            return None
        b = {p: self.ev(a_, depth + 1) for p, a_ in zip(ps, args)}
        self.env.append(b)
        try:
            return self.ev(_c_kids(st[0])[0], depth + 1)
        finally:
            self.env.pop()

    def ev(self, n, depth=0):
        sp = self.sp
        n0 = n
        while isinstance(n, dict) and n.get("kind") in _C_TRANSPARENT and _c_kids(n):
            n = _c_kids(n)[-1]
        if not isinstance(n, dict) or not n.get("kind"):
            return self._opaque(n0 if isinstance(n0, dict) else {})
        k = n.get("kind")
        inner = _c_kids(n)
        if k == "IntegerLiteral":
            try:
                return sp.Integer(int(n.get("value")))
            except (TypeError, ValueError):
                return self._opaque(n)
        if k == "DeclRefExpr":
            rd = n.get("referencedDecl") or {}
            nm = rd.get("name")
            if self.env:
                if rd.get("kind") == "ParmVarDecl" and nm in self.env[-1]:
                    return self.env[-1][nm]
                return self._opaque(n)
            if rd.get("kind") == "VarDecl" and nm and depth < 8:
                init = self.resolve(nm)
                if init is not None:
                    v = self.ev(init, depth + 1)
                    self.used[nm] = v
                    return v
            if rd.get("kind") in ("VarDecl", "ParmVarDecl") and nm:
                return self.sym(nm)
            return self._opaque(n)
        if k == "MemberExpr":
            if inner and cfront.strip(inner[0]).get("kind") == "CXXThisExpr" or not inner:
                return self.ROW if n.get("name") == "mRowSize" else self.sym(n.get("name", "?"))
            return self._opaque(n)
        if k == "CallExpr":
            nm = cfront.callee_name(n)
            args = cfront.call_args(n)
            if nm in ("PyArray_BYTES", "PyArray_DATA") and len(args) == 1:
                who = self.ev(args[0], depth)
                s = self.sym("buffer(%s)" % who)
                self.bases[s] = str(who)
                return s
            if nm == "PyArray_ITEMSIZE" and len(args) == 1:
                return self.ROW
            if nm == "PyArray_STRIDE" and len(args) == 2 and self.ev(args[1], depth) == 0:
                return self.ROW
        if k in ("CallExpr", "CXXMemberCallExpr"):
            v = self._helper(n, depth)
            if v is not None:
                return v
            s = self._opaque(n)
            if cfront.callee_name(n) in _C_ROWCOUNT_OF_SLICE:
                self.rowcounts.add(s)
            return s
        if k == "ArraySubscriptExpr" and len(inner) == 2:
            b = cfront.strip(inner[0])
            if b.get("kind") == "CallExpr" and cfront.callee_name(b) == "PyArray_STRIDES" and self.ev(inner[1], depth) == 0:
                return self.ROW
            return self._opaque(n)
        if k == "UnaryOperator" and inner:
            op = n.get("opcode")
            if op in ("-", "+"):
                v = self.ev(inner[0], depth)
                return -v if op == "-" else v
            if op == "&":
                x = cfront.strip(inner[0])
                xi = _c_kids(x)
                if x.get("kind") == "ArraySubscriptExpr" and len(xi) == 2:       # &p[i] is p + i
                    sz = _c_pointee_size(_c_type(xi[0]))
                    if sz is not None:
                        return self.ev(xi[0], depth) + sz * self.ev(xi[1], depth)
            return self._opaque(n)
        if k == "BinaryOperator" and len(inner) == 2 and n.get("opcode") in ("+", "-", "*"):
            op = n["opcode"]
            lt, rt = _c_type(inner[0]), _c_type(inner[1])
            lp, rp = lt.endswith("*"), rt.endswith("*")
            if (lp and rp) or (op == "*" and (lp or rp)) or (op == "-" and rp):
                return self._opaque(n)
            a, b = self.ev(inner[0], depth), self.ev(inner[1], depth)
            if op == "*":
                return a * b
            if lp or rp:
                sz = _c_pointee_size(lt if lp else rt)
                if sz is None:
                    return self._opaque(n)
                return (a + sz * b if op == "+" else a - sz * b) if lp else (sz * a + b)
            return a + b if op == "+" else a - b
        return self._opaque(n)


def _c_parents(root):
    par = {}
    for x in cfront.walk(root):
        for y in x.get("inner", []) or []:
            if isinstance(y, dict):
                par[id(y)] = x
    return par


def _c_loop_parts(loop):
    """(init, cond, inc, body) of a loop statement"""
    inner = loop.get("inner", []) or []
    present = lambda x: x if isinstance(x, dict) and x.get("kind") else None
    if loop.get("kind") == "ForStmt":
        init, _cv, cond, inc, body = (list(inner) + [{}] * 5)[:5]
        return present(init), present(cond), present(inc), body
    if loop.get("kind") == "WhileStmt":
        return None, present(inner[-2]) if len(inner) >= 2 else None, None, inner[-1]
    return None, present(inner[1]) if len(inner) > 1 else None, None, inner[0]


def _c_writes(root):
    """[(variable, node, kind)] for the stores to plain variables under root: assign ('=' and compound assignment), step (++ / --),
    decl (initialised declaration)"""
    out = []
    for x in cfront.walk(root):
        k = x.get("kind")
        if k in ("BinaryOperator", "CompoundAssignOperator") and (x.get("opcode") == "=" or k == "CompoundAssignOperator"):
            l = cfront.strip(x["inner"][0])
            if l.get("kind") == "DeclRefExpr":
                out.append((cfront.render(l), x, "assign"))
        elif k == "UnaryOperator" and x.get("opcode") in ("++", "--"):
            l = cfront.strip(x["inner"][0])
            if l.get("kind") == "DeclRefExpr":
                out.append((cfront.render(l), x, "step"))
        elif k == "VarDecl" and x.get("name") and _c_kids(x):
            out.append((x["name"], x, "decl"))
    return out


def _c_transfer(fn, cfun, par, allw, view, node_of, fr):
    """one fread of the slice reader: ((verdict, text) for its destination, (verdict, text) for the rows it accounts for)"""
    params = [p for p in cfront.params_of(fn) if p]
    nF = node_of.get(id(fr))
    anc = []
    x = fr
    while id(x) in par:
        x = par[id(x)]
        anc.append(x)
    loops = [a_ for a_ in anc if a_.get("kind") in _C_LOOPS]
    shown0 = "`%s`" % cfront.render(fr)
    if len(loops) > 1 or nF is None:
        return (None, shown0 + ": the call sits in nested loops"), (None, shown0 + ": the call sits in nested loops")
    loop = loops[0] if loops else None
    init, cond, inc, lbody = _c_loop_parts(loop) if loop else (None, None, None, None)
    inloop = {id(y) for part in (cond, inc, lbody) if part for y in cfront.walk(part)}
    # the variables the call can name, each with the stores made to it inside the scope that declares it (the same name declared in
    # a sibling scope is another variable)
    scoped = {}

    def stores(v):
        if v not in scoped:
            scope = None
            for a_ in anc:
                if a_.get("kind") == "CompoundStmt":
                    decls = [d for st in _c_kids(a_) if st.get("kind") == "DeclStmt" for d in _c_kids(st)]
                elif a_.get("kind") == "ForStmt":
                    i0 = _c_loop_parts(a_)[0]
                    decls = _c_kids(i0) if i0 is not None and i0.get("kind") == "DeclStmt" else []
                else:
                    continue
                if any(d.get("kind") == "VarDecl" and d.get("name") == v for d in decls):
                    scope = a_
                    break
            inside = {id(y) for y in cfront.walk(scope)} if scope is not None else None
            scoped[v] = [(y, kind) for w, y, kind in allw if w == v and (inside is None or id(y) in inside)]
        return scoped[v]

    def arriving(v):
        """the stores to v that can be the last one before the call"""
        return [(y, kind) for y, kind in stores(v) if node_of.get(id(y)) is not None and node_of[id(y)] is not nF and view.reaches(node_of[id(y)], nF)]

    def store_value(y, kind):
        if kind == "decl":
            return _c_kids(y)[-1] if cfront.strip(_c_kids(y)[-1]).get("kind") != "CXXConstructExpr" else None
        if y.get("kind") == "BinaryOperator" and y.get("opcode") == "=":
            return _c_kids(y)[1]
        return None

    def resolve(v):
        ws = arriving(v)
        if len(ws) == 1:
            return store_value(*ws[0])
        return None
    A = CAffine(resolve, cfun)
    sp = A.sp
    dst, size, count = (sp.expand(A.ev(a_)) for a_ in cfront.call_args(fr)[:3])
    nbytes = sp.expand(size * count)
    shown = "%s: %s bytes to %s" % (shown0, nbytes, dst)
    start, first, delta = {}, {}, {}        # stepping variable -> its value when the loop is entered, at the first transfer, what one pass adds
    cl, cr, cop = None, None, None
    stepped = set()                         # names stored to inside the loop
    why = ""
    if loop:
        stmts = _c_kids(lbody) if lbody.get("kind") == "CompoundStmt" else [lbody]

        def top_index(x):
            """index of the statement of the loop body whose own expression holds x (for an `if`: its condition, not its arms);
            len(stmts) for the increment of a for loop; None when x is nested deeper (not evaluated exactly once per pass)"""
            if inc is not None and id(x) in {id(y) for y in cfront.walk(inc)}:
                return len(stmts)
            for i, s_ in enumerate(stmts):
                if s_.get("kind") == "IfStmt":
                    own = _c_kids(s_)[0] if _c_kids(s_) else None
                elif s_.get("kind") in _C_LOOPS + ("SwitchStmt", "CXXTryStmt", "CompoundStmt"):
                    own = None
                else:
                    own = s_
                if own is not None and id(x) in {id(y) for y in cfront.walk(own)}:
                    return i
            return None
        ifr = top_index(fr)
        if ifr is None:
            why = "the call is not made exactly once per pass of its loop"
        # a pass that can be cut short (continue, or a break that is not an error exit) does not step everything once
        if any(y.get("kind") in ("ContinueStmt", "GotoStmt") for y in cfront.walk(lbody)):
            why = why or "a pass of the loop can be cut short"
        cn = cfront.strip(cond) if cond is not None else {}
        if cn.get("kind") == "BinaryOperator" and cn.get("opcode") in ("<", ">", "!=") and len(_c_kids(cn)) == 2:
            cop = cn["opcode"]
            cl, cr = (sp.expand(A.ev(y)) for y in _c_kids(cn))
            if cop == ">":
                cl, cr, cop = cr, cl, "<"
        used = dst.free_symbols | size.free_symbols | count.free_symbols | (cl.free_symbols | cr.free_symbols if cl is not None else set())
        stepped = {v for v, y, kind in allw if id(y) in inloop and kind != "decl" and (y, kind) in stores(v)}
        for v in sorted(stepped):
            vs = A.sym(v)
            if vs not in used:
                continue
            inside = [(y, kind) for y, kind in stores(v) if id(y) in inloop]
            outside = [(y, kind) for y, kind in arriving(v) if id(y) not in inloop]
            if len(inside) != 1 or len(outside) != 1 or top_index(inside[0][0]) is None:
                continue                # not moved by one step per pass: it keeps its name, nothing is derived from it
            y, kind = inside[0]
            vt = _c_type(_c_kids(y)[0]) if _c_kids(y) else ""
            sc = _c_pointee_size(vt) if vt.endswith("*") else 1
            if sc is None:
                continue
            if kind == "step":
                d = sp.Integer(sc if y.get("opcode") == "++" else -sc)
            elif y.get("kind") == "CompoundAssignOperator" and y.get("opcode") in ("+=", "-="):
                d = sp.expand(sc * A.ev(_c_kids(y)[1]))
                d = d if y["opcode"] == "+=" else -d
            elif y.get("opcode") == "=":
                d = sp.expand(A.ev(_c_kids(y)[1]) - vs)         # an address (or an integer) already
                if vs in d.free_symbols:
                    continue
            else:
                continue
            sv = store_value(*outside[0])
            if sv is None:
                continue
            iu = top_index(y)
            if ifr is not None:
                # the names the step is written with must mean the same at the call and at the step
                lo, hi = min(ifr, iu), max(ifr, iu)
                between = {id(z) for s_ in stmts[lo + 1:hi] for z in cfront.walk(s_)}
                if any(A.sym(w) in d.free_symbols and id(z) in between for w, z, _ in allw):
                    why = why or "what %s is stepped by is changed between the call and the step" % v
            delta[vs] = d
            start[vs] = sp.expand(A.ev(sv))
            first[vs] = sp.expand(start[vs] + (d if (ifr is not None and iu < ifr) else 0))
    # a local replaced by its initialiser stands for the value it was given: what the initialiser is written with must not have
    # been stored to since, on a way to the call that does not pass the initialisation again
    for u, poly in A.used.items():
        mu = node_of.get(id(arriving(u)[0][0])) if len(arriving(u)) == 1 else None
        for s_ in poly.free_symbols:
            for y, kind in (stores(str(s_)) if mu is not None else []):
                my = node_of.get(id(y))
                if my is not None and my is not mu and view.reaches(mu, my) and (my is nF or view.reaches(my, nF, avoiding=[mu])):
                    why = why or "%s is changed after %s was computed from it" % (s_, u)
    # ---- destination
    alien = A.opaque - A.rowcounts
    moving = [v for v in dst.free_symbols if v in delta]
    lost = sorted(str(s_) for s_ in dst.free_symbols if str(s_) in stepped and s_ not in delta)
    d0 = sp.expand(dst.subs(first, simultaneous=True))
    bases = [s_ for s_ in d0.free_symbols if s_ in A.bases]
    seen_syms = dst.free_symbols | d0.free_symbols | nbytes.free_symbols
    for v in moving:
        seen_syms = seen_syms | delta[v].free_symbols
    followed = not (alien & seen_syms)
    if why or lost:
        dres = (None, "%s: %s" % (shown, why or "how %s changes from pass to pass was not followed" % ", ".join(lost)))
    elif len(bases) != 1 or A.bases[bases[0]] not in params:
        dres = (None, "%s: the destination was not recognised as an offset into the buffer of the array handed in" % shown)
    else:
        ok, msg = True, ""
        off0 = sp.expand(d0 - bases[0])
        if off0 != 0:
            ok = False if followed else None
            msg = "the first transfer goes to byte %s of the array, not to its first row" % off0
        elif loop:
            adv = sp.expand(dst.subs({v: v + delta[v] for v in moving}, simultaneous=True) - dst)
            if sp.expand(adv - nbytes) != 0:
                ok = False if followed else None
                msg = "a pass of the loop transfers %s bytes but moves the destination by %s byte(s) (%s), so the passes after the first do not land where their rows belong" % (
                    nbytes, adv, ", ".join("%s is stepped by %s" % (v, delta[v]) for v in moving) or "nothing it is computed from is stepped")
        dres = (ok, shown + (": " + msg if msg else ""))
    # ---- amount
    if not loop:
        N = [s_ for s_ in nbytes.free_symbols if s_ in A.rowcounts]
        if why:
            ares = (None, "%s: %s" % (shown, why))
        elif len(N) == 1 and sp.expand(nbytes - A.ROW * N[0]) == 0:
            ares = (True, shown)
        elif N and not (alien & nbytes.free_symbols):
            ares = (False, "%s: that is not <row size> x <rows of the slice> = %s" % (shown, sp.expand(A.ROW * N[0])))
        else:
            ares = (None, "%s: the number of rows of the slice (%s) was not recognised in it" % (shown, "/".join(_C_ROWCOUNT_OF_SLICE)))
    else:
        ares = (None, shown + ": the loop condition was not recognised as <rows transferred so far> < <rows of the slice> (or <rows left> > 0)")
        if not why and cl is not None and not any(str(s_) in stepped and s_ not in delta for s_ in cl.free_symbols | cr.free_symbols):
            # the loop runs while rem > 0 (rem != 0): rem is the rows of the slice when the loop is entered and a pass takes the rows it transfers off it
            for rem in ((cr - cl,) if cop == "<" else (cr - cl, cl - cr)):
                rem = sp.expand(rem)
                r0 = sp.expand(rem.subs(start, simultaneous=True))
                dr = sp.expand(rem.subs({v: v + delta[v] for v in rem.free_symbols if v in delta}, simultaneous=True) - rem)
                N = [s_ for s_ in r0.free_symbols if s_ in A.rowcounts]
                if len(N) == 1 and sp.expand(r0 - N[0]) == 0 and sp.expand(dr * A.ROW + nbytes) == 0:
                    ares = (True, shown)
                    break
                if len(N) == 1 and r0.coeff(N[0]) == 1 and not (alien & (r0.free_symbols | dr.free_symbols | nbytes.free_symbols)) and ares[0] is None:
                    ares = (False, "%s: the loop runs while %s > 0, which is %s when it is entered and changes by %s per pass while a pass transfers %s bytes: the rows transferred do "
                            "not add up to the rows of the slice (%s)" % (shown, rem, r0, dr, nbytes, N[0]))
    return dres, ares


def row_transfers(chk, cfun):
    R = "R01.3"
    name = "Records::read_binary_slice"
    fn = cfun[name]
    chk.analysed_unit(name)
    body = cfront.body_of(fn)
    par = _c_parents(body)
    allw = _c_writes(body)
    ccfg = cfront.CCFG(fn)
    view = ccfg.view()
    node_of = {}
    for n in ccfg.nodes:
        if isinstance(n.c, dict) and n.id in view.reach:
            for y in cfront.walk(n.c):
                node_of.setdefault(id(y), n)
    freads = [c for c in cfront.calls_in(body) if cfront.callee_name(c) == "fread" and len(cfront.call_args(c)) == 4 and "mFptr" in _c_refs_members(cfront.call_args(c)[3])]
    res = [_c_transfer(fn, cfun, par, allw, view, node_of, fr) for fr in freads if id(fr) in node_of]

    def verdict(items):
        vs = [v for v, _ in items]
        return None if not vs else (False if False in vs else (None if None in vs else True))
    text = lambda items: "; ".join(t for v, t in items if v is False) or "; ".join(t for v, t in items if v is None) or "; ".join(t for _, t in items) or \
        "no fread on mFptr was found in the function"
    dest, amount = [d for d, _ in res], [a_ for _, a_ in res]
    chk.ob(R, name + "::transfer-destination", verdict(dest), cwhere(fn),
           "every fread of the slice reader lands at the byte offset of the first row it carries: the first transfer at the buffer of the array handed in, and in a loop the "
           "destination moves per pass by exactly the bytes the pass transfers (row stride of the array = row size of the file) -- %s" % text(dest))
    chk.ob(R, name + "::transfer-amount", verdict(amount), cwhere(fn),
           "the rows transferred add up to the rows of the slice: one fread of <row size> x <rows>, or a loop counting the rows of each pass from 0 up to that number -- %s" % text(amount))


# ---------------------------------------------------------------------------
# Value transformers.  The header read back must hold every user key with an EQUAL value, so whatever sits between the user's
# dict and pprint.pformat (and between eval and the caller) has to map every value of the property's quantifier -- None, bool,
# int, float, str, bytes and lists / tuples / dicts of them, nested -- to an equal value.  A helper of the package applied to
# the dict is evaluated abstractly, once per type of that finite domain: isinstance / type() / `is None` / hasattr tests on its
# parameter are decided from the type (three-valued), branches followed accordingly, and each value returned classified:
#   same     the parameter itself, a (deep) copy, a rebuild as the same container type whose elements are passed unchanged or
#            through analysed helpers (which then have to be `same` for every type: containers nest);
#   diff     a container rebuilt as another container type (tuple -> list ...): never equal to what was supplied;
#   unknown  anything else.
# No code is run and no sample values are used: the domain is the set of types, which covers every input.
# ---------------------------------------------------------------------------

PYTYPES = ("NoneType", "bool", "int", "float", "str", "bytes", "list", "tuple", "dict")
_PYCLASS = {"NoneType": type(None), "bool": bool, "int": int, "float": float, "str": str, "bytes": bytes, "list": list, "tuple": tuple, "dict": dict}
_MRO = {t: {c.__name__ for c in _PYCLASS[t].__mro__} for t in PYTYPES}
_BUILTIN_CLASSES = {"bool", "int", "float", "str", "bytes", "list", "tuple", "dict", "object", "set", "frozenset", "complex", "bytearray"}
_CONTAINERS = ("list", "tuple", "dict", "set", "frozenset")


class Transform:
    def __init__(self, repo):
        self.repo = repo
        self.memo = {}
        self.busy = set()

    # -- which classes does a type expression name: (set of builtin class names, anything not understood?) ---------------
    def classes(self, e, mod, depth=0):
        if isinstance(e, (ast.Tuple, ast.List)):
            names, unk = set(), False
            for x in e.elts:
                n2, u2 = self.classes(x, mod, depth)
                names |= n2
                unk = unk or u2
            return names, unk
        if isinstance(e, ast.Call) and isinstance(e.func, ast.Name) and e.func.id == "type" and len(e.args) == 1 \
                and isinstance(e.args[0], ast.Constant) and e.args[0].value is None:
            return {"NoneType"}, False
        d = dotted_name(e)
        if d is None:
            return set(), True
        if "." not in d and d in mod.consts and depth < 4 and d not in mod.imports:
            return self.classes(mod.consts[d], mod, depth + 1)
        full = self.repo.resolve_name(mod, d)
        if full in _BUILTIN_CLASSES and "." not in d and d not in mod.funcs and d not in mod.classes:
            return {full}, False
        if full.split(".")[0] == "numpy":
            return set(), False         # no value of the domain is an instance of a numpy class
        return set(), True

    def test(self, t, T, isparam, mod):
        """truth of a test for a parameter of type T: True / False / None (not decided)"""
        if isinstance(t, ast.UnaryOp) and isinstance(t.op, ast.Not):
            v = self.test(t.operand, T, isparam, mod)
            return None if v is None else not v
        if isinstance(t, ast.BoolOp):
            vs = [self.test(v, T, isparam, mod) for v in t.values]
            if isinstance(t.op, ast.And):
                return False if False in vs else (None if None in vs else True)
            return True if True in vs else (None if None in vs else False)
        if isinstance(t, ast.Call) and isinstance(t.func, ast.Name) and not t.keywords:
            f = t.func.id
            if f == "isinstance" and len(t.args) == 2 and isparam(t.args[0]):
                names, unk = self.classes(t.args[1], mod)
                if names & _MRO[T]:
                    return True
                return None if unk else False
            if f == "hasattr" and len(t.args) == 2 and isparam(t.args[0]) and isinstance(t.args[1], ast.Constant) and isinstance(t.args[1].value, str):
                return hasattr(_PYCLASS[T], t.args[1].value)        # instances of these classes have no attributes of their own
            if f == "callable" and len(t.args) == 1 and isparam(t.args[0]):
                return False
        if isinstance(t, ast.Compare) and len(t.ops) == 1:
            op, l, r = t.ops[0], t.left, t.comparators[0]
            if isinstance(op, (ast.Is, ast.IsNot, ast.Eq, ast.NotEq)):
                if isinstance(l, ast.Constant) and l.value is None:
                    l, r = r, l
                neg = isinstance(op, (ast.IsNot, ast.NotEq))
                if isparam(l) and isinstance(r, ast.Constant) and r.value is None:
                    return (T == "NoneType") != neg
            typeof = lambda x: isinstance(x, ast.Call) and isinstance(x.func, ast.Name) and x.func.id == "type" and len(x.args) == 1 and isparam(x.args[0]) \
                or (isinstance(x, ast.Attribute) and x.attr == "__class__" and isparam(x.value))
            if isinstance(op, (ast.Is, ast.IsNot, ast.Eq, ast.NotEq, ast.In, ast.NotIn)):
                if not typeof(l) and typeof(r) and not isinstance(op, (ast.In, ast.NotIn)):
                    l, r = r, l
                if typeof(l):
                    names, unk = self.classes(r, mod)
                    neg = isinstance(op, (ast.IsNot, ast.NotEq, ast.NotIn))
                    if T in names:
                        return not neg
                    return None if unk else neg
        return None

    # -- abstract execution of a helper for one type ------------------------------------------------------------------
    def result(self, fi, T):
        """("same", frozenset of qualnames the elements go through) | ("diff", text) | ("unknown", text)"""
        key = (fi.qualname, T)
        if key in self.memo:
            return self.memo[key]
        if key in self.busy:
            return ("same", frozenset())            # coinductive: the values are finite, the recursion is on strictly smaller ones
        self.busy.add(key)
        try:
            ps = [p for p in fi.params if not p.startswith("*")]
            if fi.cls:
                ps = ps[1:]
            if not ps or isinstance(fi.node, ast.AsyncFunctionDef) or rules.is_generator(fi.node):
                r = ("unknown", "%s is not a function of one value" % fi.name)
            else:
                outs = [o if o[0] != "fall" else ("unknown", "%s can end without a return" % fi.name) for o in self._exec(fi, fi.node.body, {}, ps[0], T)]
                r = self._merge(outs) if outs else ("unknown", "no return found in %s" % fi.name)
        finally:
            self.busy.discard(key)
        self.memo[key] = r
        return r

    @staticmethod
    def _merge(outs):
        for o in outs:
            if o[0] == "diff":
                return o
        for o in outs:
            if o[0] == "unknown":
                return o
        deps = frozenset()
        for o in outs:
            deps |= o[1]
        return ("same", deps)

    def _exec(self, fi, stmts, env, p, T, depth=0):
        """outcomes of running the statements: list of results; the pseudo result ("fall", env) when control runs off their end"""
        outs = []
        env = dict(env)
        for i, s in enumerate(stmts):
            if isinstance(s, ast.Pass) or (isinstance(s, ast.Expr) and isinstance(s.value, ast.Constant)) or isinstance(s, (ast.Import, ast.ImportFrom)):
                continue
            if isinstance(s, ast.Return):
                outs.extend(self._value(fi, s.value, env, p, T) if s.value is not None else [("unknown", "`return` without a value in %s" % fi.name)])
                return outs
            if isinstance(s, ast.Assign) and len(s.targets) == 1 and isinstance(s.targets[0], ast.Name):
                env[s.targets[0].id] = (s.value, dict(env))
                continue
            if isinstance(s, ast.If) and depth < 8:
                isparam = lambda e, env=env: self._isparam(e, env, p)
                v = self.test(s.test, T, isparam, fi.module)
                arms = ([s.body] if v is not False else []) + ([s.orelse] if v is not True else [])
                falls = []
                for arm in arms:
                    for o in self._exec(fi, arm, env, p, T, depth + 1):
                        (falls if o[0] == "fall" else outs).append(o)
                if not falls:
                    return outs
                if len(falls) > 1 and any(f[1] != falls[0][1] for f in falls):
                    # the arms left different bindings behind: continue once per arm
                    rest = stmts[i + 1:]
                    for f in falls:
                        outs.extend(self._exec(fi, rest, f[1], p, T, depth + 1))
                    return outs
                env = dict(falls[0][1])
                continue
            outs.append(("unknown", "statement `%s` of %s is not followed" % (norm(s)[:60], fi.name)))
            return outs
        outs.append(("fall", env))
        return outs

    def _isparam(self, e, env, p):
        seen = 0
        while isinstance(e, ast.Name) and e.id in env and seen < 8:
            e, env = env[e.id]
            seen += 1
        return isinstance(e, ast.Name) and e.id == p and p not in env

    def _helper(self, fi, f):
        """the function of the package that the expression f names (a module-level function, or a method called on self)"""
        if isinstance(f, ast.Name) and f.id in fi.module.funcs and fi.module.funcs[f.id].cls is None:
            return fi.module.funcs[f.id]
        if fi.cls and isinstance(f, ast.Attribute) and isinstance(f.value, ast.Name) and f.value.id == _selfname(fi):
            return self.repo.funcs.get("%s.%s.%s" % (fi.module.name, fi.cls, f.attr))
        d = dotted_name(f)
        if d is not None:
            return self.repo.funcs.get(self.repo.resolve_name(fi.module, d))
        return None

    def _element(self, fi, e, var, env):
        """how an element expression treats the loop variable: frozenset() unchanged, frozenset({g}) through helper g, None otherwise"""
        if isinstance(e, ast.Name) and e.id == var:
            return frozenset()
        if isinstance(e, ast.Call) and len(e.args) == 1 and not e.keywords and isinstance(e.args[0], ast.Name) and e.args[0].id == var:
            d = dotted_name(e.func)
            if d is not None and self.repo.resolve_name(fi.module, d) in ("copy.deepcopy", "copy.copy"):
                return frozenset()
            g = self._helper(fi, e.func)
            if g is not None:
                return frozenset({g.qualname})
        return None

    def _rebuild(self, fi, e, env, p, T):
        """e builds a new container from the elements of the parameter: (kind built, helpers the elements go through) or None"""
        isparam = lambda x: self._isparam(x, env, p)

        def over(comp_elt, gens, want_pair):
            if len(gens) != 1 or gens[0].ifs or gens[0].is_async:
                return None
            g = gens[0]
            if want_pair:
                it = g.iter
                if not (isinstance(it, ast.Call) and isinstance(it.func, ast.Attribute) and it.func.attr == "items" and not it.args and isparam(it.func.value)):
                    return None
                if not (isinstance(g.target, ast.Tuple) and len(g.target.elts) == 2 and all(isinstance(x, ast.Name) for x in g.target.elts)):
                    return None
                k, v = comp_elt
                dk, dv = self._element(fi, k, g.target.elts[0].id, env), self._element(fi, v, g.target.elts[1].id, env)
                return None if dk is None or dv is None else dk | dv
            if not isparam(g.iter) or not isinstance(g.target, ast.Name):
                return None
            return self._element(fi, comp_elt, g.target.id, env)
        if isinstance(e, ast.ListComp):
            d = over(e.elt, e.generators, False)
            return None if d is None else ("list", d)
        if isinstance(e, ast.SetComp):
            d = over(e.elt, e.generators, False)
            return None if d is None else ("set", d)
        if isinstance(e, ast.DictComp):
            d = over((e.key, e.value), e.generators, True)
            return None if d is None else ("dict", d)
        if isinstance(e, ast.Call) and len(e.args) == 1 and not e.keywords:
            f, a = e.func, e.args[0]
            kind = None
            if isinstance(f, ast.Name) and f.id in _CONTAINERS and f.id not in fi.module.funcs and f.id not in env:
                kind = f.id
            elif (isinstance(f, ast.Call) and isinstance(f.func, ast.Name) and f.func.id == "type" and len(f.args) == 1 and isparam(f.args[0])) \
                    or (isinstance(f, ast.Attribute) and f.attr == "__class__" and isparam(f.value)):
                kind = T
            if kind is None:
                return None
            d = None
            if isparam(a):
                d = frozenset()                                     # list(value), tuple(value), dict(value)
            elif isinstance(a, (ast.GeneratorExp, ast.ListComp)):
                if kind == "dict":
                    if isinstance(a.elt, ast.Tuple) and len(a.elt.elts) == 2:
                        d = over((a.elt.elts[0], a.elt.elts[1]), a.generators, True)
                else:
                    d = over(a.elt, a.generators, False)
            elif isinstance(a, ast.Call) and isinstance(a.func, ast.Name) and a.func.id == "map" and len(a.args) == 2 and isparam(a.args[1]) and kind != "dict":
                g = self._helper(fi, a.args[0])
                d = frozenset({g.qualname}) if g is not None else None
            return None if d is None else (kind, d)
        return None

    def _value(self, fi, e, env, p, T, depth=0):
        """results for a returned expression"""
        seen = 0
        while isinstance(e, ast.Name) and e.id in env and seen < 8:
            e, env = env[e.id]
            seen += 1
        if self._isparam(e, env, p):
            return [("same", frozenset())]
        if isinstance(e, ast.IfExp) and depth < 6:
            v = self.test(e.test, T, lambda x: self._isparam(x, env, p), fi.module)
            out = []
            if v is not False:
                out.extend(self._value(fi, e.body, env, p, T, depth + 1))
            if v is not True:
                out.extend(self._value(fi, e.orelse, env, p, T, depth + 1))
            return out
        if isinstance(e, ast.Call) and len(e.args) == 1 and not e.keywords and self._isparam(e.args[0], env, p):
            d = dotted_name(e.func)
            full = self.repo.resolve_name(fi.module, d) if d is not None else None
            if full in ("copy.deepcopy", "copy.copy"):
                return [("same", frozenset())]
            g = self._helper(fi, e.func)
            if g is not None:
                return [self.result(g, T)]
            if isinstance(e.func, ast.Name) and e.func.id == T and T in _BUILTIN_CLASSES and e.func.id not in fi.module.funcs:
                return [("same", frozenset())]                      # int(an int), str(a str), list(a list) ...
        rb = self._rebuild(fi, e, env, p, T)
        if rb is not None:
            kind, deps = rb
            if kind == T:
                return [("same", deps)]
            if T in ("list", "tuple", "dict") and kind in _CONTAINERS:
                return [("diff", "for a %s value %s returns `%s`, a %s, which never compares equal to the %s supplied" % (T, fi.name, norm(e)[:80], kind, T))]
            if T in ("str", "bytes") and kind in _CONTAINERS:
                return [("diff", "for a %s value %s returns `%s`, a %s of its characters" % (T, fi.name, norm(e)[:80], kind))]
        return [("unknown", "for a %s value %s returns `%s`" % (T, fi.name, norm(e)[:80]))]

    # -- a chain of helpers applied to the header dict ---------------------------------------------------------------
    def verdict(self, fis, tops=("dict",)):
        """helpers applied (in any order) to a value of one of the types `tops` (the header dict; or any type of the domain when
        they are applied to the dict's values) whose elements range over the whole domain: (True | False | None, text)"""
        todo = [(f, T) for f in fis for T in tops]
        seen, unknown = set(), None
        while todo:
            f, T = todo.pop()
            if (f.qualname, T) in seen:
                continue
            seen.add((f.qualname, T))
            r = self.result(f, T)
            if r[0] == "diff":
                return False, r[1]
            if r[0] == "unknown":
                unknown = unknown or r[1]
                continue
            for q in r[1]:
                g = self.repo.funcs.get(q)
                if g is None:
                    unknown = unknown or "helper %s not found" % q
                    continue
                todo.extend((g, T2) for T2 in PYTYPES)
        if unknown:
            return None, unknown
        return True, ""


def peel_helpers(repo, t):
    """t = h1(h2(... core ...)) with each h a one-argument call of copy.deepcopy or of a function / method of the package:
    (core, [FuncInfo of the package helpers], was copy.deepcopy among them)"""
    fis, deep = [], False
    for _ in range(8):
        if t[0] == "call" and len(t[2]) == 1 and not t[3]:
            if t[1] == "copy.deepcopy":
                deep = True
                t = t[2][0]
                continue
            f = repo.funcs.get(t[1])
            if f is not None:
                fis.append(f)
                t = t[2][0]
                continue
        if t[0] == "mcall" and len(t[2]) == 1 and t[2][0][0] not in ("*", "**"):
            f = repo.funcs.get(t[1])
            if f is not None:
                fis.append(f)
                t = t[2][0][1]
                continue
        break
    return t, fis, deep


# ---------------------------------------------------------------------------
def _ancestors(fn):
    """{id(stmt): [(compound statement, 'body' | 'orelse'), ...]} outermost first (nested defs skipped)"""
    out = {}

    def walk(stmts, chain):
        for s in stmts:
            out[id(s)] = chain
            if isinstance(s, (ast.FunctionDef, ast.AsyncFunctionDef, ast.ClassDef)):
                continue
            for field in ("body", "orelse", "finalbody"):
                sub = getattr(s, field, None)
                if isinstance(sub, list) and sub and isinstance(sub[0], ast.stmt):
                    walk(sub, chain + [(s, field)])
            for h in getattr(s, "handlers", []) or []:
                walk(h.body, chain + [(s, "handler")])
    walk(fn.body, [])
    return out


def _is_keys_of(e, H):
    """does the expression iterate over the keys of the dict named H (a snapshot or the live view)"""
    if isinstance(e, ast.Name):
        return e.id == H
    if isinstance(e, ast.Call) and not e.keywords:
        if isinstance(e.func, ast.Name) and e.func.id in ("list", "tuple", "sorted", "set", "frozenset") and len(e.args) == 1:
            return _is_keys_of(e.args[0], H)
        if isinstance(e.func, ast.Attribute) and e.func.attr in ("keys", "copy") and not e.args:
            return _is_keys_of(e.func.value, H)
    return False


def removed_keys(mh, H):
    """Which keys _make_header removes from the dict named H.  Returns (keys, problems, unknown):
    keys     -- set of constant key strings removed (for removals driven by a constant list of names),
    patterns -- [(case method or None, set of constants)] for removals of the dict's own keys k with f(k) in <constants>,
    problems -- positively identified removals of keys outside any constant list (text),
    unknown  -- removals whose key could not be determined (text)."""
    anc = _ancestors(mh.node)
    mod = mh.module
    local = {}
    for nm, v in rules.single_defs(mh.node).items():
        try:
            local[nm] = const_eval(v, {}, mod)
        except NotConst:
            pass
    keys, patterns, problems, unknown = set(), [], [], []
    sites = []
    for s in walk_no_nested(mh.node):
        if isinstance(s, ast.Delete):
            for t in s.targets:
                if isinstance(t, ast.Subscript) and isinstance(t.value, ast.Name) and t.value.id == H:
                    sites.append((s, t.slice, "del"))
                elif isinstance(t, ast.Name) and t.id == H:
                    unknown.append("del %s" % H)
        elif isinstance(s, ast.stmt):
            for c in [x for x in ast.walk(s) if isinstance(x, ast.Call)] if isinstance(s, (ast.Expr, ast.Assign, ast.AugAssign, ast.Return)) else []:
                if isinstance(c.func, ast.Attribute) and isinstance(c.func.value, ast.Name) and c.func.value.id == H:
                    if c.func.attr == "pop" and c.args:
                        sites.append((s, c.args[0], "pop" if len(c.args) > 1 else "pop1"))
                    elif c.func.attr in ("popitem", "clear"):
                        unknown.append("%s.%s()" % (H, c.func.attr))
    for s, key, how in sites:
        chain = anc.get(id(s), [])
        loops = [c for c, f in chain if isinstance(c, (ast.For, ast.While))]
        guards = [(c, f) for c, f in chain if isinstance(c, ast.If)]
        if any(isinstance(l, ast.While) or not isinstance(l.target, ast.Name) for l in loops):
            unknown.append(norm(s))
            continue
        # (A) every enclosing loop runs over constants: enumerate
        try:
            envs = [dict(local)]
            for l in loops:
                envs = [dict(en, **{l.target.id: v}) for en in envs for v in _iter_const(l.iter, en, mod)]
            ks = {const_eval(key, en, mod) for en in envs}
            if not all(isinstance(k, str) for k in ks):
                raise NotConst()
            # guards may only ask whether that key is present
            okg = all(f == "body" and isinstance(g.test, ast.Compare) and len(g.test.ops) == 1 and isinstance(g.test.ops[0], ast.In)
                      and pat.same(g.test.left, key) and isinstance(g.test.comparators[0], ast.Name) and g.test.comparators[0].id == H for g, f in guards)
            if okg:
                keys |= ks
            else:
                unknown.append("%s under %s" % (norm(s), [norm(g.test) for g, f in guards]))
            continue
        except NotConst:
            pass
        # (B) the loop runs over the dict's own keys and a guard selects them by membership in a constant
        if loops and isinstance(key, ast.Name) and key.id == loops[-1].target.id and _is_keys_of(loops[-1].iter, H):
            conj = []
            for g, f in guards:
                if f != "body":
                    conj = None
                    break
                conj.extend(g.test.values if isinstance(g.test, ast.BoolOp) and isinstance(g.test.op, ast.And) else [g.test])
            sel = None
            for t in conj or []:
                if isinstance(t, ast.Compare) and len(t.ops) == 1 and isinstance(t.ops[0], ast.In):
                    l = t.left
                    meth = None
                    if isinstance(l, ast.Call) and isinstance(l.func, ast.Attribute) and l.func.attr in ("lower", "upper") and not l.args:
                        meth, l = l.func.attr, l.func.value
                    if isinstance(l, ast.Name) and l.id == key.id:
                        try:
                            sel = (meth, const_eval(t.comparators[0], local, mod), norm(t))
                        except NotConst:
                            pass
            if sel is not None:
                meth, coll, text = sel
                if isinstance(coll, str):
                    problems.append("`%s` is a substring test against the text %r: every user key that occurs anywhere inside it (e.g. %r) is removed"
                                    % (text, coll, coll.split()[0].strip("_")[:4] if coll.split() else ""))
                elif all(isinstance(k, str) for k in coll):
                    patterns.append((meth, set(coll)))
                else:
                    unknown.append(norm(s))
                continue
        unknown.append(norm(s))
    return keys, patterns, problems, unknown


def _iter_const(e, env, mod):
    v = const_eval(e, env, mod)
    if isinstance(v, str) or not hasattr(v, "__iter__"):
        raise NotConst()
    return list(v)


def _split_ifexp(ev, value, at):
    """[(value expr, [canonical literals])] for a possibly conditional expression"""
    if isinstance(value, ast.IfExp):
        return [(v, canon(ev, value.test, True, at) + l) for v, l in _split_ifexp(ev, value.body, at)] + \
               [(v, canon(ev, value.test, False, at) + l) for v, l in _split_ifexp(ev, value.orelse, at)]
    return [(value, [])]


def filtered_copies(ev, mh, H, header):
    """Stores `H[k] = <value>` made while iterating over the user's header (for k, v in header.items() / for k in header): the dict is
    built entry by entry instead of copied whole and pruned.  One record per store:
      value  -- "deep" (copy.deepcopy of the entry's value), "alias" (the value itself or a shallow copy), None (something else)
      lits   -- canonical literals of the tests on the header the store depends on
      select -- [(case method or None, constant collection, text)]: the store is skipped for keys k with f(k) in the collection
      unknown -- texts of controlling tests that are neither"""
    anc = _ancestors(mh.node)
    mod = mh.module
    local = {}
    for nm, v in rules.single_defs(mh.node).items():
        try:
            local[nm] = const_eval(v, {}, mod)
        except NotConst:
            pass
    out = []
    for n in ev.view.nodes():
        a = n.ast
        if n.kind != "stmt" or not isinstance(a, ast.Assign) or len(a.targets) != 1:
            continue
        t = a.targets[0]
        if not (isinstance(t, ast.Subscript) and isinstance(t.value, ast.Name) and t.value.id == H and isinstance(t.slice, ast.Name)):
            continue
        loops = [c for c, f in anc.get(id(a), []) if isinstance(c, ast.For) and f == "body"]
        if not loops:
            continue
        loop = loops[-1]
        ln = ev.owner(loop.iter)
        it = ev.ev(loop.iter, ln) if ln is not None else None
        k = t.slice.id
        if it == ("meth", header, "items", (), ()) and isinstance(loop.target, ast.Tuple) and len(loop.target.elts) == 2 \
                and all(isinstance(x, ast.Name) for x in loop.target.elts) and loop.target.elts[0].id == k and loop.target.elts[1].id != k:
            val = ("elem", it, loop.target.elts[1].id)
        elif it in (header, ("meth", header, "keys", (), ()), ("call", "list", (header,), ()), ("call", "list", (("meth", header, "keys", (), ()),), ())) \
                and isinstance(loop.target, ast.Name) and loop.target.id == k:
            val = ("sub", header, ("elem", it))
        else:
            continue
        vt = ev.ev(a.value, n)
        core, helpers, hasdeep = peel_helpers(ev.repo, vt)
        if vt == ("call", "copy.deepcopy", (val,), ()):
            kind = "deep"
        elif helpers and core == val:
            kind = ("through", helpers, hasdeep)        # the value goes through helpers of the package: judged by the caller
        elif vt in (val, ("call", "copy.copy", (val,), ())):
            kind = "alias"
        else:
            kind = None
        lits, select, unknown = [], [], []
        for b, lab in ev.view.controlling_branches(n):
            if b.kind != "branch":
                if b.kind == "loop" and isinstance(b.ast, ast.While):
                    unknown.append(norm(b.ast.test))
                continue
            test, truth = b.ast.test, lab == "T"
            while isinstance(test, ast.UnaryOp) and isinstance(test.op, ast.Not):
                test, truth = test.operand, not truth
            sel = None
            if isinstance(test, ast.Compare) and len(test.ops) == 1 and isinstance(test.ops[0], (ast.In, ast.NotIn)):
                l, meth = test.left, None
                if isinstance(l, ast.Call) and isinstance(l.func, ast.Attribute) and l.func.attr in ("lower", "upper") and not l.args and not l.keywords:
                    meth, l = l.func.attr, l.func.value
                if isinstance(l, ast.Name) and l.id == k:
                    skipped_when_in = truth == isinstance(test.ops[0], ast.NotIn)        # the store runs when k is NOT in the collection
                    try:
                        coll = const_eval(test.comparators[0], local, mod)
                        sel = (meth, coll, norm(test)) if skipped_when_in else None
                    except NotConst:
                        sel = None
                    if sel is None:
                        unknown.append(norm(b.ast.test))
                    else:
                        select.append(sel)
                    continue
            cl = canon(ev, b.ast.test, lab == "T", b)
            if all(mentions_term(atom, header) and not any(x and x[0] == "elem" for x in subterms(atom)) for atom, _ in cl):
                lits.extend(cl)
            else:
                unknown.append(norm(b.ast.test))
        out.append(dict(node=n, value=kind, lits=lits, select=select, unknown=unknown, text=norm(a)))
    return out



def header_content(chk, repo, fr):
    R = "R01.4"
    mh = repo.func("esutil.sfile.SFile._make_header")
    chk.analysed_unit(mh.qualname)
    ev = Ev(repo, mh)
    rets = _returns(ev)
    rnames = {n.ast.value.id if isinstance(n.ast.value, ast.Name) else None for n in rets}
    H = next(iter(rnames)) if len(rnames) == 1 and None not in rnames else None
    chk.ob(R, "_make_header::returns-head", True if H else None, mh.where(), "the built dict is returned (every return gives back the one dict the function fills: %s)" % H)
    if H is None:
        return
    data = ("param", mh.params[1])
    header = ("param", "header")
    # where the dict comes from, case by case
    origins = []
    for n in ev.view.nodes():
        if n.kind == "stmt" and isinstance(n.ast, ast.Assign) and any(isinstance(t, ast.Name) and t.id == H for t in n.ast.targets):
            base = path_literals(ev, n)
            for v, lits in _split_ifexp(ev, n.ast.value, n):
                origins.append((ev.ev(v, n), base + lits, n))
    isnone = ("cmp", "Is", header, NONE)
    deep = ("call", "copy.deepcopy", (header,), ())
    empty = (("dict", ()), ("call", "dict", (), ()))
    shallow = (header, ("call", "dict", (header,), ()), ("meth", header, "copy", (), ()), ("call", "copy.copy", (header,), ()))
    given = lambda L: (isnone, False) in L or (header, True) in L          # a header was passed (`is not None`, or truthy: an empty dict needs no copy)
    absent = lambda L: (isnone, True) in L or (header, False) in L
    # helpers of the package applied to the copy (or to each value copied): every value of the quantifier must come out equal
    tf = Transform(repo)
    changed = []
    for i, (t, L, n) in enumerate(origins):
        core, helpers, hasdeep = peel_helpers(repo, t)
        if helpers and core == header:
            v, why = tf.verdict(helpers)
            if v is False:
                changed.append("the stored header is `%s`: %s" % (show(t), why))
            elif v is True and hasdeep:
                origins[i] = (deep, L, n)
    deeps = [n for t, L, n in origins if t == deep and given(L)]
    # an unconditional `head = {}` that the copy, made later when a header was given, replaces is the same thing as the else arm
    default = lambda L, n: not given(L) and not absent(L) and bool(deeps) and not any(ev.view.reaches(d, n) for d in deeps)
    good = [(t in empty and (absent(L) or default(L, n))) or (t == deep and given(L)) for t, L, n in origins]
    # the other way to the same dict: start empty and copy the user's entries one by one (each value deep-copied; keys are strings)
    fills = filtered_copies(ev, mh, H, header)
    plain = lambda L: not given(L) and not absent(L)
    for f in fills:
        if isinstance(f["value"], tuple):
            _, helpers, hasdeep = f["value"]
            v, why = tf.verdict(helpers, tops=PYTYPES)
            if v is False:
                changed.append("`%s`: %s" % (f["text"], why))
            f["value"] = "deep" if (v is True and hasdeep) else None
    if not origins:
        ok = None
    elif all(good) and deeps and any(t in empty for t, L, n in origins):
        ok = True
    elif any(t in shallow for t, L, n in origins) or any(t == deep and absent(L) for t, L, n in origins) or any(t in empty and given(L) for t, L, n in origins):
        ok = False          # the caller's dict itself / a shallow copy is stored, or the arms are exchanged
    elif fills and all(t in empty and (plain(L) or absent(L)) for t, L, n in origins):
        if any(f["value"] == "alias" for f in fills):
            ok = False      # the user's own value objects are stored
        elif all(f["value"] == "deep" and given(f["lits"]) and not f["unknown"] for f in fills):
            ok = True
        else:
            ok = None
    else:
        ok = None
    if changed:
        ok = False          # a value of the user's header is replaced by one that does not compare equal to it
    chk.ob(R, "_make_header::user-header-deep-copied", ok, mh.where(), "the stored header starts as a deep copy of the user's dict (or empty when none was given), every value equal to the one supplied: %s%s%s"
           % ([(show(t), [(show(a), b) for a, b in L]) for t, L, n in origins], "" if not fills else "; filled entry by entry: %s" % [(f["text"], f["value"]) for f in fills],
              "" if not changed else "; " + "; ".join(changed)))
    keys, patterns, problems, unknown = removed_keys(mh, H)
    for f in fills:
        # entries that are never copied are entries removed
        for meth, coll, text in f["select"]:
            if isinstance(coll, str):
                problems.append("`%s` is a substring test against the text %r: every user key that occurs anywhere inside it is left out" % (text, coll))
            elif all(isinstance(k, str) for k in coll):
                patterns.append((meth, set(coll)))
            else:
                unknown.append(text)
        unknown.extend(f["unknown"])
    allk = set(keys)
    for meth, coll in patterns:
        allk |= coll
    if problems:
        okk, okc = False, False
    elif unknown or not allk:
        okk = okc = None
    else:
        okk = all(k.startswith("_") for k in allk)
        # both spellings: the constant-driven removals are closed under lower()/upper(); a removal selected through
        # key.lower()/key.upper() covers every spelling by construction
        okc = all(k.lower() in keys and k.upper() in keys for k in keys) and all(meth is not None or all(k.lower() in coll and k.upper() in coll for k in coll) for meth, coll in patterns)
    why = "; ".join(problems) if problems else ("not recognised: %s" % unknown if unknown else sorted(allk))
    chk.ob(R, "_make_header::only-reserved-keys-removed", okk, mh.where(), "only underscore-prefixed reserved keys are removed from the user header (%s)" % why)
    chk.ob(R, "_make_header::removal-by-loop-key", okc, mh.where(), "removal touches only the listed keys (both spellings) (%s)" % why)

    def stores(e_, key):
        return [n for n in e_.view.nodes() if n.kind == "stmt" and isinstance(n.ast, ast.Assign) and any(
            isinstance(t, ast.Subscript) and isinstance(t.value, ast.Name) and t.value.id == H and isinstance(t.slice, ast.Constant) and t.slice.value == key for t in n.ast.targets)]
    sd, sv = stores(ev, "_DTYPE"), stores(ev, "_VERSION")
    if not sd or not sv:
        always = None
    else:
        always = not any(ev.view.path_exists_entry_to(r, avoiding=s) for r in rets for s in (sd, sv))
    version = ev.modev().ev(mh.module.consts["SFILE_VERSION"]) if "SFILE_VERSION" in mh.module.consts else None
    vok = bool(sv) and version is not None and all(ev.ev(n.ast.value, n) == version for n in sv)
    chk.ob(R, "_make_header::dtype-and-version", None if always is None else (always and vok), mh.where(), "_DTYPE and _VERSION (= SFILE_VERSION) are recorded on every path to the return")
    bev = Ev(repo, mh, flags={"self._delim": None})
    # a store whose path condition says the file has a delimiter (through a local that holds `self._delim is not None` as well as through
    # the test itself) is not on the binary path
    _dl = ("attr", SELF, "_delim")
    _canon = lambda atom, truth: canon_cmp(atom[1], atom[2], atom[3], truth) if atom[0] == "cmp" and len(atom) == 4 else (atom, truth)
    text_only = lambda n: any((atom == ("cmp", "Is", _dl, NONE) and not truth) or (atom == _dl and truth) for atom, truth in (_canon(a_, t_) for a_, t_ in path_literals(bev, n)))
    bd = [bev.ev(n.ast.value, n) for n in stores(bev, "_DTYPE") if not text_only(n)]
    descr = ("attr", ("attr", data, "dtype"), "descr")
    same = lambda t: t == descr or (t[0] == "call" and t[1] in ("list", "copy.copy", "copy.deepcopy") and t[2] == (descr,) and not t[3])
    if not bd or any(not same(t) and opaque(t) for t in bd):
        okb = None          # nothing stored on the binary path that this rule can read
    else:
        okb = all(same(t) for t in bd)
    chk.ob(R, "_make_header::binary-dtype-unmodified", okb, mh.where(),
           "for binary files _DTYPE is data.dtype.descr unmodified (byte order, shapes, names) (binary path stores %s)" % [show(t) for t in bd])
    # user's dict is not mutated: effect analysis
    eng = effects.Effects(repo, c_summaries())
    import checks.C15 as C15
    s = C15.analyse_with_arrays(eng, repo.func("esutil.sfile.SFile.write"), ["header"], {})
    sites = s.mut.get("header", [])
    chk.ob(R, "SFile.write::user-header-not-modified", not sites, mh.where(), "no store or deletion reaches the caller's header dict%s" % ("" if not sites else ": " + sites[0].describe()))
    wh = repo.func("esutil.sfile.SFile._write_header")
    want = ("mcall", mh.qualname, (("data", ("param", "data")), ("header", ("param", "header"))))
    got = fr.get("dict_arg")
    pcore, phelpers, _ = peel_helpers(repo, got) if got is not None else (None, [], False)
    pwhy = ""
    if got is None or got == want:
        okp = None if got is None else True
    elif phelpers and pcore == want:
        # the dict goes through helpers of the package on its way to pformat: every value must come out equal
        okp, pwhy = tf.verdict(phelpers)
    elif (got[0] == "mcall" and got[1] == mh.qualname) or got[0] in ("param", "dict", "lit") or (got[0] == "call" and any(x[0] == "param" for x in subterms(got) if x)):
        okp = False         # _make_header called with other arguments, or the user's dict / a literal / a copy of an argument printed instead
    else:
        okp = None          # an attribute or a value this evaluation does not resolve
    chk.ob(R, "_write_header::dict-pretty-printed", okp, fr.get("where", wh.where()),
           "the header text is pprint.pformat of the dict built by _make_header(data, header=header) (%s)%s" % (show(got) if got is not None else "header text not evaluated", "" if not pwhy else ": " + pwhy))
    rh = repo.func("esutil.sfile.SFile.read_header")
    ht = fr.get("read_header_value")
    if ht is None:
        rev = Ev(repo, rh)
        rr = _return_terms(rev)
        ht = rr[0] if len(rr) == 1 else None
    okr = None
    rwhy = ""
    rcore, rhelpers, _ = peel_helpers(repo, ht) if ht is not None else (None, [], False)
    rv = True
    if rhelpers and rcore[0] == "call" and rcore[1] in ("eval", "ast.literal_eval"):
        # what eval gives back goes through helpers of the package before it is returned: every value must come out equal
        rv, rwhy = tf.verdict(rhelpers)
        ht = rcore
    if rv is not True:
        okr = rv
    elif ht is not None and ht[0] == "call" and ht[1] in ("eval", "ast.literal_eval") and len(ht[2]) == 1:
        j = ht[2][0]
        if j[0] == "meth" and j[2] == "join" and is_lit(j[1], str) and len(j[3]) == 1 and line_slice(j[3][0]) is not None:
            # lines glued with nothing (or with text) between them do not give back what pprint wrote
            okr = j[1][1] != "" and j[1][1].strip() == ""
    chk.ob(R, "read_header::dict-evaluated", okr, rh.where(), "the dict lines are re-joined with white space and evaluated (%s)%s" % (show(ht) if ht is not None else None, "" if not rwhy else ": " + rwhy))
    rd = repo.func("esutil.sfile.SFile.read")
    rdev = Ev(repo, rd)
    tups = [rdev.ev(v.elts[1], n) for n in _returns(rdev) if n.ast.value is not None for v, _ in _split_ifexp(rdev, n.ast.value, n)
            if isinstance(v, ast.Tuple) and len(v.elts) == 2]
    stored = ("attr", SELF, "_hdr")
    alias = (stored, ("call", "dict", (stored,), ()), ("meth", stored, "copy", (), ()), ("call", "copy.copy", (stored,), ()))
    if tups and all(t == ("call", "copy.deepcopy", (stored,), ()) for t in tups):
        okc = True
    elif any(t in alias for t in tups):
        okc = False         # the handle's own dict (or a shallow copy sharing its values) is handed out
    else:
        okc = None
    chk.ob(R, "SFile.read::header-returned-by-copy", okc, rd.where(),
           "read(header=True) returns a deep copy of the stored header (%s)" % [show(t) for t in tups])


IO_RESOLVE = "esutil.io._get_fname_ftype_from_inputs"


def _io_part(t, i):
    """is t element i of what _get_fname_ftype_from_inputs(<the file argument>, **keywords) returns: (file name, file object, type, fs)"""
    return len(t) == 3 and t[0] == "sub" and t[2] == lit(i) and isinstance(t[1], tuple) and len(t[1]) == 4 and t[1][0] == "call" and t[1][1] == IO_RESOLVE


def _under_rec(lits, is_type):
    """the path literals under the assumption that the file type is 'rec': (feasible, implied) -- feasible False when a literal
    contradicts it, None when a test on the type is not understood; implied True when a literal holds only for 'rec'"""
    feasible, implied = True, False
    for atom, truth in lits:
        if not any(is_type(x) for x in subterms(atom)):
            continue
        val = None
        if atom[0] == "cmp" and is_type(atom[2]):
            if atom[1] == "Eq" and is_lit(atom[3], str):
                val = atom[3][1] == "rec"
                implied = implied or (val and truth)
            elif atom[1] == "In" and atom[3][0] in ("tuple", "list", "set") and all(is_lit(x, str) for x in atom[3][1]):
                val = "rec" in [x[1] for x in atom[3][1]]
                implied = implied or (truth and [x[1] for x in atom[3][1]] == ["rec"])
            elif atom[1] == "In" and _table_keys(atom[3]) is not None:
                val = "rec" in _table_keys(atom[3])
        if val is None:
            feasible = None if feasible else feasible
        elif val != truth:
            feasible = False
    return feasible, implied


def _table_keys(t):
    """constant string keys of a dict display (or of its .keys()) that is not modified after it is built"""
    if t[0] == "meth" and t[2] == "keys" and not t[3]:
        t = t[1]
    if t[0] == "dict" and all(is_lit(k, str) for k, _ in t[1]):
        return [k[1] for k, _ in t[1]]
    return None


def rec_dispatch(ev, target, with_data):
    """Which function does the front end call for file type 'rec', and with what?  The type is element 2, the file object element 1
    of the tuple returned by _get_fname_ftype_from_inputs.  Recognised: an arm of an if/elif chain taken when type == 'rec', and a
    table {type name: function} indexed with the type (subscript or .get).  (verdict, what was found)."""
    is_type = lambda t: _io_part(t, 2)
    found, verdicts, elsewhere = [], [], []
    arm = False
    for n in ev.view.nodes():
        lits = None
        if n.kind in ("stmt", "return"):
            lits = path_literals(ev, n)
            arm = arm or _under_rec(lits, is_type) == (True, True)
        for c in rules.stmts_calls(n):
            ft = ev.ev(c.func, n)
            how = None
            if ft == ("glob", target):
                how = "arm"
            elif ft[0] == "sub" and is_type(ft[2]) and _table_keys(ft[1]) is not None:
                how = "table"
                entry = dict((k[1], v) for k, v in ft[1][1]).get("rec")
            elif ft[0] == "meth" and ft[2] == "get" and len(ft[3]) >= 1 and is_type(ft[3][0]) and _table_keys(ft[1]) is not None:
                how = "table"
                entry = dict((k[1], v) for k, v in ft[1][1]).get("rec")
            if how is None:
                continue
            lits = path_literals(ev, n) if lits is None else lits
            feasible, implied = _under_rec(lits, is_type)
            if how == "table" and entry is None:
                found.append("the table indexed with the type has no entry 'rec': %s" % norm(c))
                verdicts.append(False)
                continue
            if feasible is False:
                if how == "arm":
                    elsewhere.append(norm(c))
                continue                # not reached for 'rec'
            if how == "arm" and not implied:
                found.append("%s not under a test for 'rec'" % norm(c))
                verdicts.append(None)
                continue
            if how == "table" and entry != ("glob", target):
                found.append("table entry 'rec' is %s" % (show(entry) if entry is not None else "missing"))
                verdicts.append(False if (entry is None or entry[0] == "glob") else None)
                continue
            args, kws = ev._args(c, lambda x: ev.ev(x, n))
            wanted = [lambda t: _io_part(t, 1)] + ([lambda t: t == ("param", ev.fi.params[1])] if with_data else [])
            kwparam = [("param", p[2:]) for p in ev.fi.params if p.startswith("**")]
            if not (len(args) == len(wanted) and all(w(a) for w, a in zip(wanted, args))):
                roles = False           # the file object (and the data) are not in their places
            elif len(kws) == 1 and kws[0][0] == "**" and kws[0][1] in kwparam:
                roles = True
            elif not any(mentions_term(v, kp) for _, v in kws for kp in kwparam):
                roles = False           # the caller's keywords (header=, rows=, columns= ...) are not forwarded
            else:
                roles = None
            found.append(norm(c))
            verdicts.append(roles if feasible else None)
    if not verdicts:
        # an arm for 'rec' that does not call the record reader/writer, or that function called only for other types, is a
        # contradiction; nothing at all is an unknown layout
        if elsewhere:
            found = ["only reached for other types: %s" % ", ".join(elsewhere)]
        return (False if (arm or elsewhere) else None), found
    if False in verdicts:
        return False, found
    if None in verdicts or len(verdicts) != 1:
        return None, found
    return True, found



def _positional_name(repo, ev, c, i):
    """name of the i-th positional parameter of the function (or of the class, through its __init__) the call names, when the
    callee resolves to one of the package; None otherwise"""
    d = dotted_name(c.func)
    if d is None or ev.mod is None:
        return None
    full = repo.resolve_name(ev.mod, d)
    f = repo.funcs.get(full)
    skip = 0
    if f is None:
        f, skip = repo.funcs.get(full + ".__init__"), 1
    if f is None:
        return None
    a = f.node.args
    ps = [x.arg for x in a.posonlyargs + a.args][skip:]
    return ps[i] if i < len(ps) and i >= len(a.posonlyargs) - skip else None


def _param_only(t):
    """is the term built from parameters, constants and keys.get(...) / keys.pop(...) / keys[...] only (nothing read from the
    file, the file system or the handle)"""
    for x in subterms(t):
        if not x or not isinstance(x[0], str):
            continue
        if x == SELF or x[0] in ("glob", "mcall", "expr", "rec", "phi", "mutable", "unbound", "callx", "elem", "ctx"):
            return False
        if x[0] == "meth" and len(x) == 5 and not (isinstance(x[1], tuple) and x[1][:1] == ("param",) and x[2] in ("get", "pop")):
            return False
        if x[0] == "call" and len(x) >= 3 and x[1] not in ("bool", "int", "len", "isinstance"):
            return False
    return True


def user_value_handed_on(chk, repo, R, key, q, callee, role, pos, is_user, what):
    """The front end `q` hands the value the user gave for `what` to `callee` (keyword `role` / positional `pos`) on every path:
    the variable that carries it is not overwritten by something that is not derived from it unless the condition of the
    overwrite says the user gave none.  True: the argument is (derived from) the user's value on every path.  False: on some path
    a value not derived from it replaces it under a condition that looks at the parameters only and not at the value (nothing
    read from the file or the handle can justify it), or the argument is a constant, or it is not handed over at all.
    None: anything else."""
    fi = repo.func(q)
    ev = Ev(repo, fi)
    user = lambda t: any(is_user(x) for x in subterms(t))
    calls = find_calls(ev, named(callee))
    if not calls:
        chk.ob(R, key, None, fi.where(), "call of %s not found in %s" % (callee, fi.name))
        return

    def none_given(lits):
        """do the literals say the user gave nothing (value is None / falsy / key absent)"""
        for atom, truth in lits:
            if is_user(atom) and not truth:
                return True
            if atom[0] == "cmp" and atom[1] in ("Is", "Eq") and truth and is_user(atom[2]) and atom[3] == NONE:
                return True
            if atom[0] == "cmp" and atom[1] == "In" and not truth and atom[2] == lit(what):
                return True
        return False

    def judge_replacement(lits, shown):
        """a value not derived from the user's replaces it under `lits`"""
        if none_given(lits):
            return True, None
        if any(user(atom) for atom, _ in lits):
            return None, "%s replaces the user's %s under a condition on it that is not recognised" % (shown, what)
        if all(_param_only(atom) for atom, _ in lits):
            cond = " and ".join(("" if tr else "not ") + show(at) for at, tr in lits) or "unconditionally"
            return False, "%s replaces the user's %s when %s: a condition that does not look at the %s and at nothing of the file, so a call with a %s that takes this path loses it" % (
                shown, what, cond, what, what)
        return None, "%s replaces the user's %s under a condition this rule cannot judge" % (shown, what)

    verdicts, why = [], []
    for e, n, c in calls:
        a = kwarg(c, role)
        if a is None and pos is not None and len(c.args) > pos and not any(isinstance(x, ast.Starred) for x in c.args[:pos + 1]):
            a = c.args[pos]
        if a is None:
            carried = any(isinstance(x, ast.Starred) for x in c.args) or any(k.arg is None for k in c.keywords)
            verdicts.append(None if carried else False)
            why.append("%s at line %s hands no %s over" % (norm(c)[:60], getattr(c, "lineno", "?"), what))
            continue
        t = e.ev(a, n)
        if e is ev and isinstance(a, ast.Name):
            defs = e.rd()[n.id].get(a.id) or ()
            v = True if defs else None
            for d in sorted(defs):
                if d == e.cfg.entry.id:
                    if not user(e._param(a.id)):
                        v = None
                    continue
                dn = e.cfg.node(d)
                td = e._def_term(dn, a.id)
                if user(td):
                    continue
                inc = e.rd()[dn.id].get(a.id) or ()
                kills = any((user(e._param(a.id)) if i == e.cfg.entry.id else user(e._def_term(e.cfg.node(i), a.id))) for i in inc)
                if not kills:
                    continue                # a default set before the user's value is looked at
                ok, msg = judge_replacement(path_literals(e, dn), "`%s` at line %s" % (norm(dn.ast)[:50], dn.lineno))
                if ok is not True:
                    why.append(msg)
                    v = False if (ok is False or v is False) else None
            if v is True and not user(t):
                v = None
            verdicts.append(v)
        elif t[0] == "ifexp" and user(t[2]) != user(t[3]):
            cond, truth = t[1], not user(t[2])          # the arm that is not the user's value is taken when cond is `truth`
            while cond[0] == "not" and len(cond) == 2:
                cond, truth = cond[1], not truth
            one = canon_cmp(cond[1], cond[2], cond[3], truth) if cond[0] == "cmp" and len(cond) == 4 else (cond, truth)
            ok, msg = judge_replacement([one], "the other arm of `%s`" % norm(a)[:60])
            if ok is not True:
                why.append(msg)
            verdicts.append(ok)
        elif user(t) and t[0] not in ("phi", "ifexp"):
            verdicts.append(True)
        elif is_lit(t):
            verdicts.append(False)
            why.append("%s hands the constant %s over as the %s" % (norm(c)[:60], show(t), what))
        else:
            verdicts.append(None)
            why.append("%s=%s not recognised" % (role, show(t)))
    ok = False if False in verdicts else (None if None in verdicts else True)
    chk.ob(R, key, ok, fi.where(), "%s hands the user's %s to %s on every path: no assignment replaces it by a value not derived from it unless the user gave none%s" % (
        fi.name, what, callee, "" if not why else " (%s)" % "; ".join(why)))


def front_ends(chk, repo):
    R = "R01.5"
    hdr_of_keys = lambda x: (len(x) >= 4 and x[0] == "meth" and x[1] == ("param", "keys") and x[2] in ("get", "pop") and x[3][:1] == (lit("header"),)) or \
        (len(x) == 3 and x[0] == "sub" and x[1] == ("param", "keys") and x[2] == lit("header")) or x == ("param", "header")
    user_value_handed_on(chk, repo, R, "sfile.write::user-header-handed-to-SFile.write", "esutil.sfile.write", "write", "header", 1, hdr_of_keys, "header")
    user_value_handed_on(chk, repo, R, "SFile.write::user-header-handed-to-_write_header", "esutil.sfile.SFile.write", "_write_header", "header", 1,
                         lambda x: x == ("param", "header"), "header")
    has_data = lambda t: mentions_term(t, ("param", "data"))

    def header_keyword(t):
        """the value the caller gave under the keyword `header`, None when there is none: keys.get('header') / keys.get('header', None) /
        keys.pop('header', None) are one value (the default of dict.get is None)"""
        return len(t) == 5 and t[0] == "meth" and t[1] == ("param", "keys") and not t[4] and (
            (t[2] == "get" and t[3] in ((lit("header"),), (lit("header"), NONE))) or (t[2] == "pop" and t[3] == (lit("header"), NONE)))
    header_keyword.shown = "keys.get('header', None)"
    table = [
        ("esutil.sfile.write", "SFile", {0: "outfile"}), ("esutil.sfile.write", "write", {0: "data", "header": header_keyword}),
        ("esutil.sfile.read", "SFile", {0: "filename"}), ("esutil.sfile.read_header", "SFile", {0: "filename"}),
        ("esutil.sfile.SFile.write", "_write_header", {0: "data", "header": "header"}), ("esutil.sfile.SFile.write", "write", {0: "data"}),
        ("esutil.recfile.Util.write", "Recfile", {0: "filename", "mode": "mode"}), ("esutil.recfile.Util.write", "write", {0: "data"}),
        ("esutil.recfile.Util.read", "Recfile", {0: "filename", "dtype": "dtype", "mode": "'r'"}),
        ("esutil.recfile.Util.Recfile.write", "Write", {0: has_data}),
        ("esutil.io.write_rec", "write", {0: "data", 1: "fileobj"}),
        ("esutil.io.read_rec_plain", "Recfile", {0: "fileobj"}),
    ]
    for q, callee, roles in table:
        fi = repo.func(q)
        chk.analysed_unit(q)
        ev = Ev(repo, fi)
        calls = find_calls(ev, named(callee))
        if not calls:
            chk.ob(R, "%s->%s::present" % (q, callee), False, fi.where(), "expected call to %s not found" % callee)
            continue
        okany = False
        for e, n, c in calls:
            bad = []
            for role, want in roles.items():
                a = (c.args[role] if role < len(c.args) else None) if isinstance(role, int) else kwarg(c, role)
                if a is None and isinstance(role, int) and len(c.args) <= role:
                    # the positional role handed over by keyword: the name of that parameter of the function / class called
                    pn = _positional_name(repo, e, c, role)
                    a = kwarg(c, pn) if pn else None
                if a is None or any(isinstance(x, ast.Starred) for x in c.args[:role + 1 if isinstance(role, int) else 0]):
                    bad.append("%s missing" % (role,))
                    continue
                got = e.ev(a, n)
                if callable(want):
                    good = want(got)
                else:
                    # the wanted value is written in terms of the parameters of the front end and evaluated in the front end
                    # (at the call when the call is there, at its end when the call sits in a helper)
                    good = got == ev.ev_src(want, n if e is ev else ev.cfg.exit)
                if not good:
                    bad.append("%s=%s (want %s)" % (role, show(got), want if not callable(want) else getattr(want, "shown", "derived from data")))
            okany = okany or not bad
        chk.ob(R, "%s->%s::roles" % (q, callee), okany, fi.where(), "%s calls %s with %s" % (fi.name, callee, {k: (v if not callable(v) else getattr(v, "shown", "<data>")) for k, v in roles.items()}))
    sw = repo.func("esutil.sfile.write")
    sev = Ev(repo, sw)
    swaps = []
    for n in sev.view.nodes():
        a = n.ast
        if n.kind == "stmt" and isinstance(a, ast.Assign) and isinstance(a.targets[0], ast.Tuple) and isinstance(a.value, ast.Tuple) and len(a.targets[0].elts) == 2:
            t, v = [norm(x) for x in a.targets[0].elts], [norm(x) for x in a.value.elts]
            if t == v[::-1] and set(t) == {"outfile", "data"}:
                swaps.append(n)
    isarr = (("call", "isinstance", (("param", "outfile"), ("glob", "numpy.ndarray")), ()), True)
    ok = len(swaps) == 1 and path_literals(sev, swaps[0]) == [isarr]
    chk.ob(R, "sfile.write::argument-swap-branch", ok, sw.where(), "write(data, file) is accepted by swapping exactly when the first argument is an array")
    ior = repo.func("esutil.io.read")
    iow = repo.func("esutil.io.write")
    for f, callee in ((ior, "read_rec"), (iow, "write_rec")):
        chk.analysed_unit(f.qualname)
        okd, found = rec_dispatch(Ev(repo, f), "esutil.io." + callee, with_data=(callee == "write_rec"))
        want = "%s(fobj, **keywords)" % callee if callee == "read_rec" else "%s(fobj, data, **keywords)" % callee
        chk.ob(R, "io.%s::rec-dispatch" % f.name, okd, f.where(), "type 'rec' dispatches to %s (%s)" % (want, found))
    rr = repo.func("esutil.io.read_rec")
    chk.analysed_unit(rr.qualname)
    rev = Ev(repo, rr)
    calls = [(e, n, c) for e, n, c in find_calls(rev, lambda c: dotted_name(c.func) == "sfile.read", follow=False)]
    ok = bool(calls)
    for e, n, c in calls:
        ok = ok and len(c.args) >= 1 and e.ev(c.args[0], n) == ("param", "fileobj")
        for k in ("header", "rows", "columns", "fields"):
            v = kwarg(c, k)
            t = e.ev(v, n) if v is not None else None
            ok = ok and t is not None and t[0] == "meth" and t[1] == ("param", "keys") and t[2] == "get" and t[3][:1] == (lit(k),)
    chk.ob(R, "io.read_rec::forwards-selection", ok, rr.where(), "read_rec forwards file, header=, rows=, fields=, columns= to sfile.read (%d call(s))" % len(calls))
    tn = [(n, path_literals(rev, n)) for e, n, c in find_calls(rev, named("to_native"), follow=False)]
    asked = (rev.ev_src("keys.get('ensure_native', False)", rev.cfg.entry), True)
    chk.ob(R, "io.read_rec::byte-order-kept-unless-asked", len(tn) == 1 and asked in tn[0][1], rr.where(), "the byte order read from the file is changed only when ensure_native is requested")


# ---------------------------------------------------------------------------
# R01.3: rows appended to a binary file have the dtype the file declares.  The C++ writer copies the buffer of the array as it is
# and the header (written once, by the first write) goes on describing the file with the dtype of the first write, byte order
# included.  So SFile.write may hand an array to the record writer of a handle that already has a dtype only when the dtype of the
# array EQUALS that dtype: a refusal (raise) that is taken whenever `<file dtype> != data.dtype` must stand before the write.  An
# equivalence that is coarser than dtype equality (can_cast with casting other than 'no', equality of names / itemsize / kind / str
# or of descr with the byte order cut off ...) lets rows of the other byte order, or of another layout of the same size, through.
# The file dtype is the attribute SFile.open hands to Recfile as dtype=.  The raise is found in write() or the private helpers it
# calls; its condition is read off the branches it is control dependent on, a boolean flag variable tested there replaced by the
# conditions under which it was set (loop-with-flag / `bad = True` idiom).
# ---------------------------------------------------------------------------

_DTYPE_COARSE_ATTRS = ("names", "itemsize", "kind", "char", "str", "name", "num", "type", "shape", "ndim", "base", "subdtype", "alignment", "isnative", "byteorder",
                       "newbyteorder", "hasobject", "metadata")
_DTYPE_COARSE_CALLS = ("numpy.can_cast", "numpy.promote_types", "numpy.result_type", "numpy.common_type", "numpy.issubdtype", "numpy.find_common_type", "len")


def _term_literals(t, want):
    """canonical literals that all hold when the boolean term has the wanted truth value (a and b true, a or b false, not)"""
    if t[0] == "not" and len(t) == 2:
        return _term_literals(t[1], not want)
    if t[0] == "bool" and len(t) == 3 and ((t[1] == "and" and want) or (t[1] == "or" and not want)):
        return [y for x in t[2] for y in _term_literals(x, want)]
    if t[0] == "cmp" and len(t) == 4:
        return [canon_cmp(t[1], t[2], t[3], want)]
    return [(t, want)]


def _flag_test(test, truth):
    """(name, 'truthy' | 'isnone', wanted outcome) when the test looks at one local variable only: `x`, `not x`, `x is None`,
    `x is not None`, `x == None`, `x != None`; None otherwise"""
    while isinstance(test, ast.UnaryOp) and isinstance(test.op, ast.Not):
        test, truth = test.operand, not truth
    if isinstance(test, ast.Name):
        return test.id, "truthy", truth
    if isinstance(test, ast.Compare) and len(test.ops) == 1 and isinstance(test.ops[0], (ast.Is, ast.IsNot, ast.Eq, ast.NotEq)):
        l, r = test.left, test.comparators[0]
        if isinstance(r, ast.Name) and isinstance(l, ast.Constant) and l.value is None:
            l, r = r, l
        if isinstance(l, ast.Name) and isinstance(r, ast.Constant) and r.value is None:
            return l.id, "isnone", truth == isinstance(test.ops[0], (ast.Is, ast.Eq))
    return None


def _value_outcome(t, mode):
    """does a value have the outcome the flag test asks about (is it None / is it true): True, False, or None when not known"""
    if is_lit(t):
        return (t[1] is None) if mode == "isnone" else bool(t[1])
    if t[0] in ("cat", "fmt"):                          # a string that is being put together
        if mode == "isnone":
            return False
        return True if any(is_lit(x, str) and x[1] for x in pieces(t)) else None
    if t[0] in ("tuple", "list", "dict", "set") and mode == "isnone":
        return False
    return None


def _flag_alternatives(e, node, depth=0):
    """the condition of a node as a disjunction of conjunctions of canonical literals: the branch outcomes it is control dependent
    on, where a branch that tests a local flag (`if bad:` / `if not ok:` / `if mess is not None:`) is replaced, definition by
    definition of the flag that reaches it, by the condition under which that definition gives the flag the tested outcome: a
    constant or a string that is being built has the outcome or not (the condition is that of the assignment); the result of a
    private helper is looked at return by return (the condition is that of the return, inside the helper, with its parameters
    bound); anything else stays a literal about the value"""
    alts = [[]]
    for b, lab in e.view.controlling_branches(node):
        if not (b.kind == "branch" or (b.kind == "loop" and isinstance(b.ast, ast.While))):
            continue
        ft = _flag_test(b.ast.test, lab == "T")
        defs = sorted(e.rd()[b.id].get(ft[0]) or ()) if ft else []
        if not defs or e.cfg.entry.id in defs or depth > 2:
            lits = canon(e, b.ast.test, lab == "T", b)
            alts = [a + lits for a in alts]
            continue
        name, mode, want = ft
        expansions = []
        for d in defs:
            dn = e.cfg.node(d)
            here = [x for alt in _flag_alternatives(e, dn, depth + 1) for x in [alt]]
            t = e._def_term(dn, name)
            got = _value_outcome(t, mode)
            call = dn.ast.value if dn.kind == "stmt" and isinstance(dn.ast, ast.Assign) and isinstance(dn.ast.value, ast.Call) else None
            sub = callee_ev(e, dn, call) if call is not None and got is None else None
            if got is not None:
                if got == want:
                    expansions.extend(here)
            elif sub is not None:
                for r in sub.view.nodes():
                    if r.kind != "return":
                        continue
                    rv = sub.ev(r.ast.value, r) if r.ast.value is not None else NONE
                    rgot = _value_outcome(rv, mode)
                    if rgot is not None and rgot != want:
                        continue
                    extra = [] if rgot is not None else [(rv, want) if mode == "truthy" else canon_cmp("Is", rv, NONE, want)]
                    for ralt in _flag_alternatives(sub, r, depth + 1):
                        expansions.extend(h + extra + ralt for h in here)
                if want == (mode == "isnone") and any(m.kind != "return" for m in sub.view.pred(sub.cfg.exit)):
                    expansions.extend(h + [(("expr", "%s runs off its end" % sub.fi.name), True)] for h in here)
            elif mode == "truthy":
                expansions.extend(h + _term_literals(t, want) for h in here)
            else:
                expansions.extend(h + [canon_cmp("Is", t, NONE, want)] for h in here)
        alts = [a + x for a in alts for x in expansions][:64]
    return alts


def _kw_self_attrs(e, c, kw):
    """names of the attributes of self handed to the call under the keyword: written at the call, or stored under that key in a
    local dict that is handed over with **"""
    out = set()
    sn = _selfname(e.fi)
    a = kwarg(c, kw)
    if a is not None:
        if _self_attr(a, sn) is not None:
            out.add(_self_attr(a, sn))
        return out
    for k in c.keywords:
        if k.arg is None and isinstance(k.value, ast.Name):
            model = e._dict_events(k.value.id)
            for n, kind, key, v in (model[2] if model else ()):
                if kind == "set" and key == kw and v is not None and _self_attr(v, sn) is not None:
                    out.add(_self_attr(v, sn))
    return out


def append_dtype_guard(chk, repo):
    R, key = "R01.3", "SFile.write::append-refused-unless-dtype-equals-file-dtype"
    wr = repo.func("esutil.sfile.SFile.write")
    so = repo.func("esutil.sfile.SFile.open")
    chk.analysed_unit(wr.qualname)
    fattrs = set()
    opens = find_calls(Ev(repo, so), named("Recfile"))
    for e, n, c in opens:
        fattrs |= _kw_self_attrs(e, c, "dtype")
    if len(fattrs) != 1:
        chk.ob(R, key, None, so.where(), "the attribute that holds the dtype of the open file (handed to Recfile as dtype=) was not identified (%s)" % sorted(fattrs))
        return
    F = ("attr", SELF, fattrs.pop())
    DATA = ("param", "data")
    D = ("attr", DATA, "dtype")
    delim_flags = {}
    for e, n, c in opens:
        for a in _kw_self_attrs(e, c, "delim"):
            delim_flags["self.%s" % a] = None
    ev = Ev(repo, wr, flags=delim_flags)
    def top_of(e, n):
        """the statement of write() itself in which the node of a helper is reached"""
        while e is not ev and e.outer is not None:
            e, n = e.outer
        return n if e is ev else None
    sinks = [(e, top_of(e, n), c) for e, n, c in find_calls(ev, named("write"))
             if isinstance(c.func, ast.Attribute) and e.ev(c.func.value, n) not in (SELF, DATA) and c.args and mentions_term(e.ev(c.args[0], n), DATA) and top_of(e, n) is not None]
    if not sinks:
        chk.ob(R, key, None, wr.where(), "the call that hands the data to the record writer was not found in SFile.write")
        return

    def projection(t, root):
        """the chain of attribute / method / subscript steps that leads from `root` to t; None when t is not such a chain"""
        steps = []
        while t != root:
            if t[0] == "attr" and len(t) == 3:
                steps.append(t[2]); t = t[1]
            elif t[0] == "meth" and len(t) == 5:
                steps.append(t[2] + "()"); t = t[1]
            elif t[0] in ("sub", "slice") and len(t) >= 3:
                steps.append("[...]"); t = t[1]
            else:
                return None
        return tuple(reversed(steps))

    def judge(atom, truth):
        """(verdict, text) for a literal that mentions both the file dtype and the data: True when the raise is taken exactly when the
        two dtypes differ, False when it is a coarser equivalence, None otherwise"""
        txt = ("" if truth else "not ") + show(atom)
        if atom[0] == "cmp" and atom[1] == "Eq" and len(atom) == 4:
            for x, y in ((atom[2], atom[3]), (atom[3], atom[2])):
                px, py = projection(x, F), projection(y, D)
                if px is None or py is None:
                    continue
                if px == py and px in ((), ("descr",)):
                    return (True, txt) if not truth else (None, txt)
                if px == py and px and all(st in _DTYPE_COARSE_ATTRS or st.rstrip("()") in _DTYPE_COARSE_ATTRS or st == "[...]" for st in px) and px != ("[...]",):
                    return (False, "%s compares only .%s of the two dtypes" % (txt, ".".join(px))) if not truth else (None, txt)
        calls = [x for x in subterms(atom) if x and x[0] == "call" and len(x) == 4 and x[1] in _DTYPE_COARSE_CALLS and mentions_term(x, F) and mentions_term(x, DATA)]
        if atom[0] == "call" and calls and calls[0] == atom and atom[1] == "numpy.can_cast":
            casting = dict(atom[3]).get("casting", atom[2][2] if len(atom[2]) > 2 else lit("safe"))
            both = len(atom[2]) >= 2 and ((projection(atom[2][0], F) == () and projection(atom[2][1], D) == ()) or
                                          (projection(atom[2][1], F) == () and projection(atom[2][0], D) == ()))
            if is_lit(casting, str) and both and not truth:
                if casting[1] == "no":
                    return True, txt
                return False, "%s: casting=%r holds for dtypes that are not equal (%s)" % (
                    txt, casting[1], "the same up to byte order" if casting[1] == "equiv" else "any dtype that converts under that rule")
            return None, txt
        if calls:
            return False, "%s: %s is coarser than dtype equality" % (txt, calls[0][1])
        return None, txt

    exact, coarse, unknown, nguards = [], [], [], 0
    fname = F[2]

    def unread(a):
        """an expression the evaluator kept as text (a comprehension, a chained comparison ...) that looks at both dtypes"""
        texts = [x[1] for x in subterms(a) if x and x[0] in ("expr", "rec") and len(x) > 1 and isinstance(x[1], str)]
        return bool(texts) and (mentions_term(a, F) or any(fname in x for x in texts)) and (mentions_term(a, DATA) or any("data" in x for x in texts))
    for e, n in all_raises(ev):
        tn = top_of(e, n)
        if tn is None or not any(ev.view.reaches(tn, sn_) and tn.id != sn_.id for _, sn_, _ in sinks):
            continue
        for alt in _flag_alternatives(e, n):
            if any(a[0] == "cmp" and a[1] == "Is" and a[3] == NONE and projection(a[2], SELF) is not None and a[2] != F and tr is False for a, tr in alt):
                continue                    # the text arm (delimiter is not None): not about binary files
            cands = [(a, tr) for a, tr in alt if (mentions_term(a, F) and mentions_term(a, DATA)) or unread(a)]
            if not cands:
                continue
            nguards += 1
            rest = [(a, tr) for a, tr in alt if (a, tr) not in cands]
            for a, tr in cands:
                v, txt = judge(a, tr)
                where = e.fi.where(n.ast)
                if v is True and len(cands) == 1 and all(not mentions_term(a2, DATA) and not opaque(a2) for a2, _ in rest):
                    exact.append((where, txt))
                elif v is False:
                    coarse.append((where, txt))
                else:
                    unknown.append((where, txt))
    what = "data handed to the record writer of a file that already has a dtype has exactly that dtype (byte order included): a raise taken whenever %s != data.dtype stands before %s" % (
        show(F), norm(sinks[0][2])[:40])
    if exact:
        chk.ob(R, key, True, exact[0][0], "%s (raise when %s)" % (what, exact[0][1]))
    elif unknown:
        chk.ob(R, key, None, unknown[0][0], "%s; the condition of the refusal is not recognised: %s" % (what, "; ".join(t for _, t in unknown + coarse)))
    elif coarse:
        chk.ob(R, key, False, coarse[0][0], "%s; the only refusal found is taken when %s, so rows whose dtype differs from the file's are appended raw and read back under the file's dtype" % (
            what, "; ".join(t for _, t in coarse)))
    else:
        plain = all(e.ev(c.args[0], n_) == DATA for e, n_, c in find_calls(ev, named("write"))
                    if isinstance(c.func, ast.Attribute) and c.args and any(c is c2 for _, _, c2 in sinks))
        chk.ob(R, key, False if plain else None, wr.where(), "%s; no raise on the way to the write compares the dtype of the data with the dtype of the file" % what)


# ---------------------------------------------------------------------------
# R01.6: every row count >= 1 is readable.  The record reader is told the number of rows of the file (parameter `nrows` of the
# Records constructor, the SWIG entry point Recfile.open calls with nrows=).  The property quantifies over all row counts >= 1, so
# no throw on the way from the constructor to the reader being usable may be taken because of a comparison of that count with a
# constant that some count >= 1 satisfies (nrows < 2, nrows <= 1, nrows == 1, nrows > 1000 ...), and the count the reader keeps
# is the count it was given.  The count is followed through once-initialised locals and into the methods of the file it is
# handed to as an argument; a comparison with something that is not a constant (the size of the file ...) is not judged.
# ---------------------------------------------------------------------------

def _c_int_const(n, inits):
    """integer value of a constant expression, a leading minus included; None when it is not a constant"""
    n = cfront.strip(c_subst(n, inits))
    if n.get("kind") == "UnaryOperator" and n.get("opcode") in ("-", "+") and n.get("inner"):
        v = _c_int_const(n["inner"][0], {})
        return None if v is None else (-v if n["opcode"] == "-" else v)
    return c_const_int(n, {})


def _count_relation(cond, truth, var, inits):
    """How the condition, taken with this truth value, constrains the integer variable `var`:
    ('never', text)  no value >= 1 satisfies it;  ('some', text)  some value >= 1 satisfies it (so it is taken for a legal count);
    ('unknown', text) it looks at the variable in a way that is not understood;  None: it does not look at the variable, or compares
    it with something that is not a constant."""
    n = cfront.strip(c_subst(cond, inits))
    while n.get("kind") == "UnaryOperator" and n.get("opcode") == "!":
        n = cfront.strip(n["inner"][0])
        truth = not truth
    if var not in _c_refs(n):
        return None
    txt = ("" if truth else "!") + "(%s)" % cfront.render(n)[:70]
    is_var = lambda x: cfront.strip(x).get("kind") == "DeclRefExpr" and cfront.render(cfront.strip(x)) == var
    if is_var(n):                                       # the count as a truth value: != 0
        return ("some", txt) if truth else ("never", txt)
    if n.get("kind") == "BinaryOperator" and n.get("opcode") in _CNEG and len(n.get("inner") or []) == 2:
        l, r = n["inner"]
        op = n["opcode"] if truth else _CNEG[n["opcode"]]
        if is_var(r) and not is_var(l):
            l, r, op = r, l, _CSWAP[op]
        if is_var(l) and var not in _c_refs(r):
            k = _c_int_const(r, inits)
            if k is None:
                return None                              # compared with something that is not a constant: not this rule's business
            some = {"<": k > 1, "<=": k >= 1, "==": k >= 1, "!=": True, ">": True, ">=": True}[op]
            return ("some" if some else "never", "%s %s %d" % (var, op, k))
    return ("unknown", txt)


def _c_alternatives(cond, truth):
    """the conditions one of which holds when `cond` is taken with this truth value: a || b taken true, a && b taken false"""
    n = cfront.strip(cond)
    if n.get("kind") == "UnaryOperator" and n.get("opcode") == "!":
        return _c_alternatives(n["inner"][0], not truth)
    if n.get("kind") == "BinaryOperator" and ((n.get("opcode") == "||" and truth) or (n.get("opcode") == "&&" and not truth)):
        return [y for x in n["inner"] for y in _c_alternatives(x, truth)]
    return [(cond, truth)]


def row_count_accepted(chk, cfun):
    R = "R01.6"
    ctor = cfun.get("Records::Records")
    key = "Records::every-row-count>=1-is-accepted"
    if ctor is None or "nrows" not in cfront.params_of(ctor):
        chk.ob(R, key, None, W, "the constructor of the record reader with its nrows parameter was not found")
        return
    # what tells the reader it is opened for reading: the mode parameter and the members it is copied to
    modes = {p for p in cfront.params_of(ctor) if p and "mode" in p.lower()}
    for x in cfront.walk(cfront.body_of(ctor)):
        if x.get("kind") in ("BinaryOperator", "CXXOperatorCallExpr") and (x.get("opcode") == "=" or cfront.callee_name(x) == "operator="):
            ops = cfront.call_args(x) if x.get("kind") == "CXXOperatorCallExpr" else x.get("inner") or []
            if len(ops) == 2 and (_c_refs(ops[1]) - {None}) & modes:
                modes |= {m for m in _c_refs_members(ops[0]) if m and not m.startswith("operator")}
    bad, undecided, seen, stores = [], [], [], []

    def about_mode_only(c):
        refs = {r for r in _c_refs_members(c) if r and not r.startswith("operator")}
        return bool(refs) and refs <= modes

    def passed_guard(ccfg, view, b, lab):
        """the other arm of the branch never returns normally (it throws): the branch outcome is what every successful call has"""
        import networkx as nx
        other = "F" if lab == "T" else "T"
        arms = [j for j in view.g.successors(b.id) if other in (view.g[b.id][j].get("labels") or ())]
        return bool(arms) and not any(j == ccfg.exit.id or nx.has_path(view.g, j, ccfg.exit.id) for j in arms)

    def visit(fn, var, context, depth):
        if depth > 3 or (id(fn), var) in [(id(f), v) for f, v in seen]:
            return
        seen.append((fn, var))
        inits = c_inits(fn)
        inits.pop(var, None)
        try:
            ccfg = cfront.CCFG(fn)
        except AnalysisError:
            undecided.append("%s: control flow not recovered" % fn.get("name"))
            return
        view = ccfg.view()
        aliases = {var} | {k for k, v in inits.items() if cfront.strip(v).get("kind") == "DeclRefExpr" and cfront.render(cfront.strip(v)) == var}
        for n in ccfg.nodes:
            if n.id not in view.reach or not isinstance(n.c, dict):
                continue
            ctl = [(b.c, lab == "T", passed_guard(ccfg, view, b, lab)) for b, lab in view.controlling_branches(n) if b.c is not None and lab in ("T", "F")]
            conj = [y for c, t, _ in ctl for y in _c_conjuncts(c, t)]
            # having got past `if (...) throw` says nothing about which files are concerned: every successful open got past it
            free = [y for c, t, g_ in ctl if not g_ for y in _c_conjuncts(c, t)]
            if n.kind == "raise":
                hits, others, impossible, unknown = [], list(context), False, []
                for c, t in conj:
                    rels = [_count_relation(a, at, var, inits) for a, at in _c_alternatives(c, t)]
                    if any(r is not None for r in rels) and all(r is not None and r[0] == "never" for r in rels):
                        impossible = True               # this throw is not taken for any count >= 1
                    elif not any(c is c_ for c_, _ in free):
                        continue                        # the outcome of a guard that was passed: not what this throw is taken for
                    elif any(r is not None and r[0] == "some" for r in rels):
                        hits.append([r for r in rels if r is not None and r[0] == "some"][0][1])
                    elif any(r is not None and r[0] == "unknown" for r in rels):
                        unknown.append([r for r in rels if r is not None and r[0] == "unknown"][0][1])
                    elif all(r is None for r in rels):
                        others.append(c)
                if impossible or not (hits or unknown):
                    continue
                where = "%s line %s" % (fn.get("name"), n.lineno or "?")
                if hits and not unknown and all(about_mode_only(c) for c in others):
                    bad.append((n.lineno, "the throw at %s is taken when %s: a file with that many rows (a legal count, >= 1) can be written but not opened for reading" % (
                        where, " and ".join(hits))))
                else:
                    undecided.append("the throw at %s depends on the row count (%s) together with conditions this rule does not judge" % (where, " and ".join(hits + unknown)))
            # the count handed on to a method of the file: followed with the parameter it becomes
            for c in cfront.calls_in(n.c):
                nm = cfront.callee_name(c)
                g = (cfun.get("Records::%s" % nm) or cfun.get(nm)) if nm else None
                if g is None or not cfront.has_body(g):
                    continue
                for p, a in zip(cfront.params_of(g), cfront.call_args(c)):
                    sa = cfront.strip(c_subst(a, inits))
                    if p and sa.get("kind") == "DeclRefExpr" and cfront.render(sa) == var:
                        visit(g, p, context + [c_ for c_, t_ in free if var not in _c_refs(c_)], depth + 1)
            # the count kept on the object
            for x in cfront.walk(n.c):
                if x.get("kind") == "BinaryOperator" and x.get("opcode") == "=" and len(x.get("inner") or []) == 2:
                    l, r = cfront.strip(x["inner"][0]), cfront.strip(c_subst(x["inner"][1], inits))
                    if l.get("kind") == "MemberExpr" and var in _c_refs(r):
                        stores.append((l.get("name"), r.get("kind") == "DeclRefExpr" and cfront.render(r) == var, cfront.render(x)[:60], n.lineno))

    visit(ctor, "nrows", [], 0)
    for f, v in seen:
        chk.analysed_unit("Records::%s" % f.get("name"))
    if bad:
        ln, msg = bad[0]
        chk.ob(R, key, False, "%s:%s" % (W, ln) if ln else W, "no row count >= 1 is refused by the record reader: " + msg)
    else:
        chk.ob(R, key, None if undecided else True, cwhere(ctor),
               "no row count >= 1 is refused by the record reader: no throw between the constructor and the count being stored is taken because of a comparison of nrows "
               "with a constant that a count >= 1 satisfies%s" % ("" if not undecided else " (%s)" % "; ".join(undecided)))
    kept = [s_ for s_ in stores if s_[1]]
    chk.ob(R, "Records::row-count-kept-as-given", True if kept else (False if stores else None), "%s:%s" % (W, stores[0][3]) if stores and stores[0][3] else cwhere(ctor),
           "the number of rows the reader works with is the nrows it was given, stored unchanged (%s)" % (
               ", ".join(s_[2] for s_ in stores) or "no assignment of it to a member found"))


# ---------------------------------------------------------------------------
# R01.7: typestate of the file handle.  SFile.write tells the first write to a file (header dict and END line written) from an
# append (only the SIZE line updated) by state it keeps on the handle: attributes that the write path itself records on the first
# write and compares with None.  open() is public and re-opens a handle on another file, so whatever an earlier file left in
# those attributes must be gone when open() has created the record reader/writer: on every path through open() that creates
# it, each of them is assigned (None, or what was read from the new file) after entry.  Decided by a forward data-flow analysis
# over the CFG of open() whose states are joint valuations {attribute: none | set | stale | unknown} x {record object created},
# methods called on self (close() ...) and module functions given self summarised by the same analysis.
# ---------------------------------------------------------------------------

def _self_attr(e, selfname):
    return e.attr if isinstance(e, ast.Attribute) and isinstance(e.value, ast.Name) and e.value.id == selfname else None


def _selfname(fi):
    a = fi.node.args
    pos = a.posonlyargs + a.args
    return pos[0].arg if fi.cls and pos else None


def write_path_state(repo, wr):
    """(methods of the class reachable from wr through calls on self, attributes compared with None / used as a truth value in them,
    attributes assigned in them)"""
    todo, seen = [wr], {}
    while todo:
        f = todo.pop()
        if f.qualname in seen:
            continue
        seen[f.qualname] = f
        sn = _selfname(f)
        for x in walk_no_nested(f.node):
            if isinstance(x, ast.Call) and _self_attr(x.func, sn) is not None:
                g = repo.funcs.get("%s.%s.%s" % (f.module.name, f.cls, x.func.attr))
                if g is not None:
                    todo.append(g)
    tested, assigned = {}, set()
    for f in seen.values():
        sn = _selfname(f)

        def truth_uses(t):
            while isinstance(t, ast.UnaryOp) and isinstance(t.op, ast.Not):
                t = t.operand
            if isinstance(t, ast.BoolOp):
                for v in t.values:
                    truth_uses(v)
            elif _self_attr(t, sn) is not None:
                tested.setdefault(t.attr, f)
        for x in walk_no_nested(f.node):
            if isinstance(x, ast.Compare) and len(x.ops) == 1 and isinstance(x.ops[0], (ast.Is, ast.IsNot, ast.Eq, ast.NotEq)):
                l, r = x.left, x.comparators[0]
                if isinstance(l, ast.Constant) and l.value is None:
                    l, r = r, l
                if isinstance(r, ast.Constant) and r.value is None and _self_attr(l, sn) is not None:
                    tested.setdefault(l.attr, f)
            elif isinstance(x, (ast.If, ast.While, ast.IfExp, ast.Assert)):
                truth_uses(x.test)
            elif isinstance(x, (ast.Assign, ast.AugAssign, ast.AnnAssign)):
                for t in (x.targets if isinstance(x, ast.Assign) else [x.target]):
                    for y in rules._flat_targets(t):
                        if _self_attr(y, sn) is not None:
                            assigned.add(y.attr)
    return seen, tested, assigned


_READS_ONLY = ("hasattr", "getattr", "isinstance", "issubclass", "id", "type", "repr", "str", "len", "print", "callable", "bool", "hash", "dir")


class HandleFlow:
    def __init__(self, repo, tracked, creates):
        self.repo = repo
        self.tracked = list(tracked)
        self.creates = creates          # predicate(module, call): does the call create the record reader/writer
        self.memo = {}
        self.busy = set()
        self.unrolled = set()

    def _set(self, t, attr, v):
        if attr not in self.tracked:
            return t
        i = self.tracked.index(attr)
        return t[:i] + (v,) + t[i + 1:]

    def _assign(self, S, target, value, sn):
        """states after `target = value`"""
        if isinstance(target, (ast.Tuple, ast.List)):
            vals = value.elts if isinstance(value, (ast.Tuple, ast.List)) and len(value.elts) == len(target.elts) \
                and not any(isinstance(y, ast.Starred) for y in list(value.elts) + list(target.elts)) else [None] * len(target.elts)
            for y, v in zip(target.elts, vals):
                S = self._assign(S, y.value if isinstance(y, ast.Starred) else y, v, sn)
            return S
        a = _self_attr(target, sn)
        if a is None:
            return S
        v = "none" if isinstance(value, ast.Constant) and value.value is None else "set"
        return {self._set(t, a, v) for t in S}

    def _call(self, S, fi, sn, c):
        mod = fi.module
        if self.creates(mod, c):
            S = {t[:-1] + (True,) for t in S}
        f = c.func
        callee, csn = None, None
        if _self_attr(f, sn) is not None and fi.cls:
            callee = self.repo.funcs.get("%s.%s.%s" % (mod.name, fi.cls, f.attr))
            csn = _selfname(callee) if callee is not None else None
        elif isinstance(f, ast.Name) and f.id in mod.funcs and mod.funcs[f.id].cls is None:
            # a function of the module that is given the handle
            g = mod.funcs[f.id]
            ps = [p for p in g.params if not p.startswith("*")]
            for i, a in enumerate(c.args):
                if isinstance(a, ast.Name) and a.id == sn and i < len(ps):
                    callee, csn = g, ps[i]
            for k in c.keywords:
                if k.arg is not None and isinstance(k.value, ast.Name) and k.value.id == sn and k.arg in ps:
                    callee, csn = g, k.arg
        elif isinstance(f, ast.Name) and f.id in ("setattr", "delattr") and c.args and isinstance(c.args[0], ast.Name) and c.args[0].id == sn:
            nm = c.args[1] if len(c.args) > 1 else None
            if isinstance(nm, ast.Constant) and isinstance(nm.value, str):
                v = "unknown" if f.id == "delattr" or len(c.args) < 3 else ("none" if isinstance(c.args[2], ast.Constant) and c.args[2].value is None else "set")
                return {self._set(t, nm.value, v) for t in S}
            if id(c) in self.unrolled:
                return S        # accounted for at the head of the loop over constant names it sits in
            # the name is computed: any of the attributes may have been assigned
            return {tuple("unknown" for _ in self.tracked) + (t[-1],) for t in S}
        if callee is not None and csn is not None:
            out = set()
            for t in S:
                out |= self.method(callee, csn, t)
            return out
        if isinstance(f, ast.Name) and f.id in _READS_ONLY and f.id not in mod.funcs and f.id not in mod.imports:
            return S
        if isinstance(f, ast.Attribute) and f.attr == "update" and isinstance(f.value, ast.Attribute) and f.value.attr == "__dict__" and _self_attr(f.value, sn) is not None \
                and not c.args and all(k.arg is not None for k in c.keywords):
            for k in c.keywords:            # self.__dict__.update(a=None, b=0)
                S = {self._set(t, k.arg, "none" if isinstance(k.value, ast.Constant) and k.value.value is None else "set") for t in S}
            return S
        if any(isinstance(a, ast.Name) and a.id == sn for a in c.args) or \
                (isinstance(f, ast.Attribute) and f.attr in ("update", "clear") and isinstance(f.value, ast.Attribute) and f.value.attr == "__dict__"):
            # the handle itself is handed to something this analysis does not follow
            return {tuple("unknown" if v == "stale" else v for v in t[:-1]) + (t[-1],) for t in S}
        return S

    def transfer(self, fi, sn, n, S):
        for c in rules.stmts_calls(n):
            S = self._call(S, fi, sn, c)
        a = n.ast
        if n.kind == "stmt":
            if isinstance(a, ast.Assign):
                for t in a.targets:
                    S = self._assign(S, t, a.value, sn)
            elif isinstance(a, ast.AnnAssign) and a.value is not None:
                S = self._assign(S, a.target, a.value, sn)
            elif isinstance(a, ast.AugAssign):
                S = self._assign(S, a.target, None, sn)
            elif isinstance(a, ast.Delete):
                for t in a.targets:
                    if _self_attr(t, sn) is not None:
                        S = {self._set(x, t.attr, "unknown") for x in S}
        elif n.kind == "with":
            for it in a.items:
                if it.optional_vars is not None:
                    S = self._assign(S, it.optional_vars, None, sn)
        elif n.kind == "loop" and isinstance(a, ast.For):
            S = self._assign(S, a.target, None, sn)
            S = self._const_name_loop(fi, sn, a, S)
        return S

    def _const_name_loop(self, fi, sn, loop, S):
        """`for name in ("_a", "_b"): setattr(self, name, <constant>)`: a loop over a non-empty constant tuple of names whose body is
        straight-line runs once per name, so when it is left every one of them has been assigned; the effect is applied at the loop head"""
        # the same for a constant table of (name, value) pairs: `for name, value in TABLE: setattr(self, name, value)`; the table
        # (a module-level constant, a literal, or a table's .items()) is evaluated as a constant, each row bound to the loop variables
        if loop.orelse:
            return S
        tg = [loop.target] if isinstance(loop.target, ast.Name) else (list(loop.target.elts) if isinstance(loop.target, (ast.Tuple, ast.List)) else None)
        if tg is None or not all(isinstance(x, ast.Name) for x in tg):
            return S
        it = loop.iter
        items = isinstance(it, ast.Call) and isinstance(it.func, ast.Attribute) and it.func.attr == "items" and not it.args and not it.keywords
        try:
            rows = const_eval(it.func.value if items else it, {}, fi.module)
        except (NotConst, TypeError):
            return S
        if items:
            if not isinstance(rows, dict):
                return S
            rows = list(rows.items())
        if isinstance(rows, (str, bytes, dict, set, frozenset)) or not hasattr(rows, "__iter__"):
            return S
        envs = []
        for r in rows:
            vals = [r] if isinstance(loop.target, ast.Name) else (list(r) if isinstance(r, (tuple, list)) else None)
            if vals is None or len(vals) != len(tg):
                return S
            envs.append({x.id: v for x, v in zip(tg, vals)})
        if not envs:
            return S
        if any(isinstance(x, (ast.Break, ast.Continue, ast.Return, ast.Raise, ast.If, ast.Try, ast.While, ast.For, ast.With)) for b in loop.body for x in ast.walk(b)):
            return S
        for b in loop.body:
            c = b.value if isinstance(b, ast.Expr) else None
            if isinstance(c, ast.Call) and isinstance(c.func, ast.Name) and c.func.id == "setattr" and len(c.args) == 3 and not c.keywords \
                    and isinstance(c.args[0], ast.Name) and c.args[0].id == sn:
                try:
                    pairs = [(const_eval(c.args[1], en, fi.module), const_eval(c.args[2], en, fi.module)) for en in envs]
                except (NotConst, TypeError):
                    continue
                if not all(isinstance(nm, str) for nm, _ in pairs):
                    continue
                self.unrolled.add(id(c))
                for nm, v in pairs:
                    S = {self._set(t, nm, "none" if v is None else "set") for t in S}
        return S

    def method(self, fi, sn, t):
        """the states at the normal exit of fi entered in state t"""
        key = (fi.qualname, sn, t)
        if key in self.memo:
            return self.memo[key]
        if key in self.busy or len(self.busy) > 12:
            return {t}
        self.busy.add(key)
        try:
            cfg = cfg_of(fi)
            IN = {cfg.entry.id: {t}}
            work = [cfg.entry]
            while work:
                n = work.pop()
                S = IN.get(n.id, set())
                out = self.transfer(fi, sn, n, set(S)) if n.ast is not None else set(S)
                for m, labels in cfg.succ(n):
                    if m.id == cfg.raise_exit.id:
                        continue
                    add = out | (S if "exc" in labels else set())
                    cur = IN.setdefault(m.id, set())
                    if not add <= cur:
                        cur |= add
                        work.append(m)
            res = frozenset(IN.get(cfg.exit.id, set()))
        finally:
            self.busy.discard(key)
        self.memo[key] = res
        return res


def handle_state(chk, repo):
    R = "R01.7"
    wr = repo.func("esutil.sfile.SFile.write")
    op = repo.func("esutil.sfile.SFile.open")
    chk.analysed_unit(op.qualname)
    methods, tested, assigned = write_path_state(repo, wr)
    tracked = sorted(a for a in tested if a in assigned)
    if not tracked:
        chk.ob(R, "SFile.open::first-write-state-reset", None, wr.where(), "the write path does not keep the first-write / append distinction in attributes of the handle that it "
               "records and compares with None (compared: %s; recorded: %s)" % (sorted(tested), sorted(assigned)))
        return

    def creates(mod, c):
        d = dotted_name(c.func)
        if d is None:
            return False
        full = repo.resolve_name(mod, d)
        return full.startswith("esutil.recfile") and full.rsplit(".", 1)[-1] in ("Recfile", "Open")
    flow = HandleFlow(repo, tracked, creates)
    entry = tuple("stale" for _ in tracked) + (False,)
    outs = flow.method(op, _selfname(op), entry)
    opened = [t for t in outs if t[-1]]
    stale = sorted({a for t in opened for a, v in zip(tracked, t) if v == "stale"})
    unknown = sorted({a for t in opened for a, v in zip(tracked, t) if v == "unknown"})
    ok = None if not opened else (False if stale else (None if unknown else True))
    users = ", ".join("self.%s (consulted in %s)" % (a, tested[a].name) for a in tracked)
    if not opened:
        why = ": no path through open() that creates the record reader/writer (recfile.Recfile) was found"
    elif stale:
        why = ": open() can return with a file opened while %s still hold%s what an earlier file left there -- no assignment to %s on some path from the entry of open() (close() and the other " \
              "helpers called on self included) to its return; the first write to the newly opened file is then taken for an append (no header dict and END line written, the SIZE line " \
              "counts the rows of both files) or refused as an incompatible dtype" % (", ".join("self." + a for a in stale), "s" if len(stale) == 1 else "", "it" if len(stale) == 1 else "them")
    elif unknown:
        why = ": assignments to %s could not be followed" % ", ".join("self." + a for a in unknown)
    else:
        why = ""
    chk.ob(R, "SFile.open::first-write-state-reset", ok, op.where(),
           "the state by which the write path tells the first write to a file from an append -- %s -- is assigned afresh (None, or what was read from the file being opened) on every "
           "path through open() that creates the record reader/writer: open() is public and re-opens a used handle on another file%s" % (users, why))


# ---------------------------------------------------------------------------
# The running row count of an open handle (R01.2, append).  A self-describing file can be written in pieces through one handle:
# the first SFile.write puts the header, every later one only rewrites the SIZE line (Records::update_row_count) with
# <rows already in the file> + <rows of the piece>.  <rows already in the file> is state of the handle, so for the header to
# count the rows written, whatever the append path reads that number from has to hold the number it has just put on the SIZE
# line when write() returns (induction over the writes of a session), and has to hold the rows of the data after the first
# write.  Decided by a path-sensitive symbolic execution of SFile.write over the attributes of the handle: private methods
# that store to the handle or reach the two C++ header calls are executed with their parameters bound, the others are skipped;
# values are terms over the parameters of write() and the values the attributes had on entry (`old`), loops and handlers forget
# what they may store; integer terms are compared as linear forms.  No value is sampled: the terms stand for every data
# array and every count.
# ---------------------------------------------------------------------------

_COUNT_SINK = "update_row_count"
_HEADER_SINK = "write_header_and_update_offset"
_PURE_BUILTINS = ("len", "int", "abs")


class _GiveUp(Exception):
    pass


class _HState:
    __slots__ = ("loc", "att", "ev")

    def __init__(self, loc=None, att=None, ev=()):
        self.loc = dict(loc or {})
        self.att = dict(att or {})
        self.ev = tuple(ev)

    def copy(self):
        return _HState(self.loc, self.att, self.ev)

    def key(self):
        return (repr(sorted(self.loc.items())), repr(sorted(self.att.items(), key=repr)), repr(self.ev))


def _dedupe(states, cap=192):
    out, seen = [], set()
    for s_ in states:
        k = s_.key()
        if k not in seen:
            seen.add(k)
            out.append(s_)
    if len(out) > cap:
        raise _GiveUp("more than %d distinct paths" % cap)
    return out


def lin(t):
    """(constant, {atom: coefficient}) of an integer term built with + - and multiplication by literals; other terms are atoms"""
    if t[0] == "lit" and isinstance(t[1], int) and not isinstance(t[1], bool):
        return t[1], {}
    if t[0] == "op" and t[1] in ("+", "-"):
        (c1, m1), (c2, m2) = lin(t[2]), lin(t[3])
        sg = 1 if t[1] == "+" else -1
        m = dict(m1)
        for a_, k in m2.items():
            m[a_] = m.get(a_, 0) + sg * k
        return c1 + sg * c2, {a_: k for a_, k in m.items() if k}
    if t[0] == "op" and t[1] == "*":
        for x, y in ((t[2], t[3]), (t[3], t[2])):
            if x[0] == "lit" and isinstance(x[1], int) and not isinstance(x[1], bool):
                c, m = lin(y)
                return c * x[1], {a_: k * x[1] for a_, k in m.items() if k * x[1]}
    return 0, {t: 1}


def _has_unknown(t):
    return any(isinstance(x, tuple) and x and x[0] == "unk" for x in subterms(t))


def _show_loc(L):
    return "self.%s" % L[1] if L[0] == "a" else "self.%s[%r]" % (L[1], L[2])


def showh(t):
    if t[0] == "old":
        return "<%s on entry>" % _show_loc(t[1])
    if t[0] == "op":
        return "%s %s %s" % (showh(t[2]), t[1], showh(t[3]))
    if t[0] == "attr":
        return "%s.%s" % (showh(t[1]), t[2])
    if t[0] == "param":
        return t[1]
    if t[0] == "lit":
        return repr(t[1])
    if t[0] == "call":
        return "%s(%s)" % (t[1], ", ".join(showh(a_) for a_ in t[2]))
    if t[0] == "sub":
        return "%s[%s]" % (showh(t[1]), showh(t[2]))
    if t[0] == "unk":
        return "<not followed>"
    return show(t) if t[0] in ("self", "glob") else str(t[0])


class HandleExec:
    def __init__(self, repo):
        self.repo = repo
        self._n = 0
        self._rel = {}
        self.sink_where = {}

    def unk(self):
        self._n += 1
        return ("unk", self._n)

    # -- which private methods matter -------------------------------------
    def method_of(self, fi, c):
        sn = _selfname(fi)
        if sn is not None and _self_attr(c.func, sn) is not None and fi.cls:
            return self.repo.funcs.get("%s.%s.%s" % (fi.module.name, fi.cls, c.func.attr))
        return None

    @staticmethod
    def sink(c):
        return c.func.attr if isinstance(c.func, ast.Attribute) and c.func.attr in (_COUNT_SINK, _HEADER_SINK) else None

    def relevant(self, fi, _seen=None):
        """does a call of the method store to the handle or reach one of the two header calls"""
        if fi.qualname in self._rel:
            return self._rel[fi.qualname]
        seen = _seen if _seen is not None else set()
        if fi.qualname in seen:
            return False
        seen.add(fi.qualname)
        sn = _selfname(fi)
        hit = False
        for x in walk_no_nested(fi.node):
            if isinstance(x, (ast.Attribute, ast.Subscript)) and isinstance(x.ctx, (ast.Store, ast.Del)):
                b = x
                while isinstance(b, (ast.Attribute, ast.Subscript)):
                    b = b.value
                if isinstance(b, ast.Name) and b.id == sn:
                    hit = True
            elif isinstance(x, ast.Call):
                g = self.method_of(fi, x)
                if self.sink(x) or (g is not None and self.relevant(g, seen)):
                    hit = True
                elif g is None and self.escapes(x, sn):
                    hit = True
        if _seen is None:
            self._rel[fi.qualname] = hit
        return hit

    @staticmethod
    def escapes(c, sn):
        """the handle itself is handed to something (setattr, a function of the module ...)"""
        if isinstance(c.func, ast.Name) and c.func.id in _READS_ONLY:
            return False
        return any(isinstance(a_, ast.Name) and a_.id == sn for a_ in list(c.args) + [k.value for k in c.keywords]) or \
            any(isinstance(y, ast.Attribute) and y.attr == "__dict__" and isinstance(y.value, ast.Name) and y.value.id == sn for y in ast.walk(c))

    # -- expressions ------------------------------------------------------
    def cur(self, st, L):
        if L in st.att:
            return st.att[L]
        if L[0] == "k" and ("a", L[1]) in st.att:
            return ("sub", st.att[("a", L[1])], lit(L[2]))
        return ("old", L)

    def loc_of(self, e, st, sn):
        """the handle location an expression names: self.a, self.h['key'], alias['key'] with alias = self.h"""
        a_ = _self_attr(e, sn)
        if a_ is not None:
            return ("a", a_)
        if isinstance(e, ast.Subscript) and isinstance(e.slice, ast.Constant) and isinstance(e.slice.value, (str, int)):
            h = _self_attr(e.value, sn)
            if h is None and isinstance(e.value, ast.Name) and e.value.id in st.loc:
                # a local that is the object the attribute holds now (the value it had on entry and not assigned since, or the very
                # value it was assigned)
                t = st.loc[e.value.id]
                if t[0] == "old" and t[1][0] == "a" and t[1] not in st.att:
                    h = t[1][1]
                elif t[0] in ("old", "unk"):
                    hs = [L[1] for L, v in st.att.items() if L[0] == "a" and v == t]
                    h = hs[0] if len(hs) == 1 else None
            if h == "__dict__" and isinstance(e.slice.value, str):
                return ("a", e.slice.value)
            if h is not None:
                return ("k", h, e.slice.value)
        return None

    def ev(self, e, st, fi):
        sn = _selfname(fi)
        if isinstance(e, ast.Constant):
            return lit(e.value)
        if isinstance(e, ast.Name):
            if e.id == sn:
                return SELF
            if e.id in st.loc:
                return st.loc[e.id]
            return ("glob", e.id)
        L = self.loc_of(e, st, sn) if isinstance(e, (ast.Attribute, ast.Subscript)) else None
        if L is not None:
            return self.cur(st, L)
        if isinstance(e, ast.Attribute):
            return ("attr", self.ev(e.value, st, fi), e.attr)
        if isinstance(e, ast.Subscript) and not isinstance(e.slice, ast.Slice):
            return ("sub", self.ev(e.value, st, fi), self.ev(e.slice, st, fi))
        if isinstance(e, ast.BinOp) and type(e.op) in _BINOP:
            a_, b = self.ev(e.left, st, fi), self.ev(e.right, st, fi)
            return ("op", _BINOP[type(e.op)], a_, b)
        if isinstance(e, ast.UnaryOp) and isinstance(e.op, ast.USub):
            return ("op", "-", lit(0), self.ev(e.operand, st, fi))
        if isinstance(e, ast.Call) and isinstance(e.func, ast.Name) and e.func.id in _PURE_BUILTINS and e.func.id not in st.loc \
                and e.func.id not in fi.module.funcs and e.func.id not in fi.module.imports and not e.keywords and not any(isinstance(a_, ast.Starred) for a_ in e.args):
            args = tuple(self.ev(a_, st, fi) for a_ in e.args)
            if e.func.id == "int" and len(args) == 1 and (args[0][0] == "old" or (args[0][0] == "op" and args[0][1] in ("+", "-")) or (args[0][0] == "attr" and args[0][2] == "size")):
                return args[0]          # an integer already: a count kept on the handle, a sum of counts, the size of an array
            return ("call", e.func.id, args)
        if isinstance(e, ast.NamedExpr):
            raise _GiveUp("assignment expression")
        return self.unk()

    def truth(self, e, st, fi):
        """True / False when the test is decided by the state, None otherwise"""
        if isinstance(e, ast.UnaryOp) and isinstance(e.op, ast.Not):
            v = self.truth(e.operand, st, fi)
            return None if v is None else not v
        if isinstance(e, ast.Compare) and len(e.ops) == 1 and isinstance(e.ops[0], (ast.Is, ast.IsNot, ast.Eq, ast.NotEq)):
            a_, b = self.ev(e.left, st, fi), self.ev(e.comparators[0], st, fi)
            if a_[0] == "lit" and b[0] == "lit":
                if a_[1] is None or b[1] is None:
                    same = a_[1] is b[1]
                elif isinstance(e.ops[0], (ast.Eq, ast.NotEq)) and type(a_[1]) is type(b[1]):
                    same = a_[1] == b[1]
                else:
                    return None
                return same if isinstance(e.ops[0], (ast.Is, ast.Eq)) else not same
            return None
        if isinstance(e, ast.Constant):
            return bool(e.value)
        return None

    # -- statements -------------------------------------------------------
    def check_nested(self, node, fi, allowed):
        """calls that matter may only stand as a whole statement or as the whole right-hand side"""
        sn = _selfname(fi)
        for x in ast.walk(node):
            if isinstance(x, ast.Call) and x is not allowed:
                g = self.method_of(fi, x)
                if self.sink(x) or (g is not None and self.relevant(g)) or (g is None and self.escapes(x, sn)):
                    raise _GiveUp("the call %s is part of a larger expression" % norm(x)[:60])

    _READ_METHODS = ("get", "keys", "items", "values", "copy", "tell", "index", "count")

    def mutated_below(self, node, st, fi):
        """attributes of the handle whose object has a method called on it that may change what it holds under a key
        (self.h.update(...), alias.pop(...)): the entries followed for them are forgotten"""
        sn = _selfname(fi)
        out = set()
        for x in ast.walk(node):
            if isinstance(x, ast.Call) and isinstance(x.func, ast.Attribute) and x.func.attr not in self._READ_METHODS and not self.sink(x):
                h = _self_attr(x.func.value, sn)
                if h is None and isinstance(x.func.value, ast.Name) and x.func.value.id in st.loc:
                    t = st.loc[x.func.value.id]
                    hs = [L[1] for L, v in st.att.items() if L[0] == "a" and v == t] + ([t[1][1]] if t[0] == "old" and t[1][0] == "a" else [])
                    out.update(hs)
                elif h is not None:
                    out.add(h)
        return out

    def forget_below(self, st, hs):
        for h in hs:
            for M in [M for M in st.att if M[0] == "k" and M[1] == h]:
                st.att[M] = self.unk()
            st.att[("k*", h)] = self.unk()
            if h == "__dict__":
                self.forget_handle(st)

    def havoc(self, st, stmts, fi):
        """forget what the statements may store: locals they assign, and every attribute of the handle when they store to it or make
        a call that matters"""
        sn = _selfname(fi)
        st = st.copy()
        touched = False
        for s_ in stmts:
            for x in ast.walk(s_):
                if isinstance(x, ast.Name) and isinstance(x.ctx, (ast.Store, ast.Del)):
                    st.loc[x.id] = self.unk()
                elif isinstance(x, (ast.Attribute, ast.Subscript)) and isinstance(x.ctx, (ast.Store, ast.Del)):
                    b = x
                    while isinstance(b, (ast.Attribute, ast.Subscript)):
                        b = b.value
                    if isinstance(b, ast.Name) and (b.id == sn or b.id in st.loc):
                        touched = True
                elif isinstance(x, ast.Call):
                    g = self.method_of(fi, x)
                    if self.sink(x):
                        raise _GiveUp("a header call inside a loop or handler")
                    if (g is not None and self.relevant(g)) or (g is None and self.escapes(x, sn)):
                        touched = True
        if touched:
            self.forget_handle(st)
        return st

    def forget_handle(self, st):
        names = {L for L in st.att} | {t[1] for t in self._olds(st)}
        for L in names:
            st.att[L] = self.unk()
        st.att[("*",)] = self.unk()

    def _olds(self, st):
        out = []
        for v in list(st.loc.values()) + list(st.att.values()) + [x for ev_ in st.ev for x in ev_[1:] if isinstance(x, tuple)]:
            out.extend(x for x in subterms(v) if isinstance(x, tuple) and x and x[0] == "old")
        return out

    def store(self, st, target, val, fi):
        sn = _selfname(fi)
        if isinstance(target, ast.Name):
            st.loc[target.id] = val
            return
        if isinstance(target, (ast.Tuple, ast.List)):
            for y in rules._flat_targets(target):
                self.store(st, y, self.unk(), fi)
            return
        L = self.loc_of(target, st, sn)
        if L is not None:
            st.att[L] = val
            if L[0] == "a":
                for M in [M for M in st.att if M[0] == "k" and M[1] == L[1]]:
                    del st.att[M]
            return
        b = target
        while isinstance(b, (ast.Attribute, ast.Subscript)):
            b = b.value
        if isinstance(b, ast.Name) and b.id == sn:
            # a store below an attribute of the handle that is not followed (self.h[k] with a computed key ...)
            top = target
            while not (isinstance(top, ast.Attribute) and isinstance(top.value, ast.Name) and top.value.id == sn):
                top = top.value
            for M in [M for M in st.att if M[0] == "k" and M[1] == top.attr]:
                st.att[M] = self.unk()
            st.att[("k*", top.attr)] = self.unk()

    def call_stmt(self, states, c, fi, depth):
        """states after the call (a whole statement or a whole right-hand side): [(state, value)]"""
        sn = _selfname(fi)
        g = self.method_of(fi, c)
        out = []
        if g is not None and self.relevant(g):
            if depth >= 5:
                raise _GiveUp("helpers nested deeper than 5")
            ps = [p for p in g.params if not p.startswith("*")][1:]
            if any(p.startswith("*") for p in g.params) or any(isinstance(a_, ast.Starred) for a_ in c.args) or any(k.arg is None for k in c.keywords) or len(c.args) > len(ps):
                raise _GiveUp("the arguments of %s were not bound" % g.name)
            for st in states:
                b = {p: self.ev(a_, st, fi) for p, a_ in zip(ps, c.args)}
                for k in c.keywords:
                    if k.arg not in ps or k.arg in b:
                        raise _GiveUp("the arguments of %s were not bound" % g.name)
                    b[k.arg] = self.ev(k.value, st, fi)
                for p in ps:
                    if p not in b:
                        d = g.defaults.get(p)
                        b[p] = self.ev(d, _HState(), g) if d is not None else self.unk()
                inner = _HState(b, st.att, st.ev)
                for s2, v in self.run_function(g, inner, depth + 1):
                    out.append((_HState(st.loc, s2.att, s2.ev), v))
            return out
        kind = self.sink(c)
        for st in states:
            st = st.copy()
            if kind == _COUNT_SINK:
                t = self.ev(c.args[0], st, fi) if len(c.args) == 1 and not c.keywords else self.unk()
                st.ev = st.ev + (("count", t, fi.qualname, c.lineno),)
                self.sink_where[_COUNT_SINK] = fi
            elif kind == _HEADER_SINK:
                st.ev = st.ev + (("header", fi.qualname, c.lineno),)
                self.sink_where[_HEADER_SINK] = fi
            elif g is None and self.escapes(c, sn):
                if isinstance(c.func, ast.Name) and c.func.id == "setattr" and len(c.args) == 3 and isinstance(c.args[1], ast.Constant) and isinstance(c.args[1].value, str):
                    st.att[("a", c.args[1].value)] = self.ev(c.args[2], st, fi)
                else:
                    self.forget_handle(st)
            out.append((st, self.unk()))
        return out

    def run_function(self, fi, st, depth):
        """[(state, returned value)] at the normal exits of the method entered in state st"""
        normal, rets, brk, cont = self.block(fi.node.body, [st], fi, depth)
        if brk or cont:
            raise _GiveUp("break / continue outside a loop")
        return [(s_, NONE) for s_ in normal] + rets

    def block(self, stmts, states, fi, depth):
        rets, brk, cont = [], [], []
        for s_ in stmts:
            if not states:
                break
            states, r, b, c = self.stmt(s_, states, fi, depth)
            states = _dedupe(states)
            rets += r
            brk += b
            cont += c
        return states, rets, brk, cont

    def stmt(self, s_, states, fi, depth):
        res = self.stmt0(s_, states, fi, depth)
        own = [s_] if isinstance(s_, (ast.Expr, ast.Assign, ast.AnnAssign, ast.AugAssign, ast.Return, ast.Assert, ast.Delete)) else \
            ([s_.test] if isinstance(s_, (ast.If, ast.While)) else ([s_.iter] if isinstance(s_, (ast.For, ast.AsyncFor)) else
             ([it.context_expr for it in s_.items] if isinstance(s_, (ast.With, ast.AsyncWith)) else [])))
        if own and any(isinstance(x, ast.Call) and isinstance(x.func, ast.Attribute) for o in own for x in ast.walk(o)):
            out = []
            for group in res:
                new = []
                for item in group:
                    st = item[0] if isinstance(item, tuple) else item
                    hs = set()
                    for o in own:
                        hs |= self.mutated_below(o, st, fi)
                    if hs:
                        st = st.copy()
                        self.forget_below(st, hs)
                    new.append((st,) + item[1:] if isinstance(item, tuple) else st)
                out.append(new)
            res = tuple(out)
        return res

    def stmt0(self, s_, states, fi, depth):
        sn = _selfname(fi)
        if isinstance(s_, ast.Expr):
            if isinstance(s_.value, ast.Call):
                self.check_nested(s_.value, fi, s_.value)
                return [st for st, _ in self.call_stmt(states, s_.value, fi, depth)], [], [], []
            self.check_nested(s_.value, fi, None)
            return states, [], [], []
        if isinstance(s_, (ast.Assign, ast.AnnAssign)):
            value = s_.value
            targets = s_.targets if isinstance(s_, ast.Assign) else [s_.target]
            if value is None:
                return states, [], [], []
            g = self.method_of(fi, value) if isinstance(value, ast.Call) else None
            if isinstance(value, ast.Call) and (self.sink(value) or (g is not None and self.relevant(g)) or (g is None and self.escapes(value, sn))):
                self.check_nested(value, fi, value)
                pairs = self.call_stmt(states, value, fi, depth)
            else:
                self.check_nested(value, fi, None)
                pairs = [(st.copy(), self.ev(value, st, fi)) for st in states]
            out = []
            for st, v in pairs:
                for t in targets:
                    self.store(st, t, v, fi)
                out.append(st)
            return out, [], [], []
        if isinstance(s_, ast.AugAssign):
            self.check_nested(s_.value, fi, None)
            out = []
            for st in states:
                st = st.copy()
                cur = self.ev(s_.target, st, fi)
                v = ("op", _BINOP[type(s_.op)], cur, self.ev(s_.value, st, fi)) if type(s_.op) in _BINOP else self.unk()
                self.store(st, s_.target, v, fi)
                out.append(st)
            return out, [], [], []
        if isinstance(s_, ast.Return):
            if s_.value is None:
                return [], [(st, NONE) for st in states], [], []
            g = self.method_of(fi, s_.value) if isinstance(s_.value, ast.Call) else None
            if isinstance(s_.value, ast.Call) and (self.sink(s_.value) or (g is not None and self.relevant(g))):
                self.check_nested(s_.value, fi, s_.value)
                return [], self.call_stmt(states, s_.value, fi, depth), [], []
            self.check_nested(s_.value, fi, None)
            return [], [(st, self.ev(s_.value, st, fi)) for st in states], [], []
        if isinstance(s_, ast.Raise):
            return [], [], [], []
        if isinstance(s_, ast.If):
            self.check_nested(s_.test, fi, None)
            yes, no = [], []
            for st in states:
                v = self.truth(s_.test, st, fi)
                if v is not False:
                    yes.append(st)
                if v is not True:
                    no.append(st)
            a_ = self.block(s_.body, yes, fi, depth) if yes else ([], [], [], [])
            b = self.block(s_.orelse, no, fi, depth) if no else ([], [], [], [])
            return tuple(x + y for x, y in zip(a_, b))
        if isinstance(s_, (ast.For, ast.While, ast.AsyncFor)):
            self.check_nested(s_.test if isinstance(s_, ast.While) else s_.iter, fi, None)
            inside = [self.havoc(st, [s_], fi) for st in states]
            n, r, b, c = self.block(s_.body, inside, fi, depth)
            after = [self.havoc(st, [s_], fi) for st in n + b + c]
            zero = list(states)
            if s_.orelse:
                n2, r2, b2, c2 = self.block(s_.orelse, zero + after, fi, depth)
                return n2, r + r2, b2, c2
            return zero + after, r, [], []
        if isinstance(s_, ast.Break):
            return [], [], list(states), []
        if isinstance(s_, ast.Continue):
            return [], [], [], list(states)
        if isinstance(s_, (ast.With, ast.AsyncWith)):
            out = []
            for st in states:
                st = st.copy()
                for it in s_.items:
                    self.check_nested(it.context_expr, fi, None)
                    if it.optional_vars is not None:
                        self.store(st, it.optional_vars, self.unk(), fi)
                out.append(st)
            return self.block(s_.body, out, fi, depth)
        if isinstance(s_, ast.Try):
            n, r, b, c = self.block(s_.body, states, fi, depth)
            if s_.orelse:
                n, r2, b2, c2 = self.block(s_.orelse, n, fi, depth)
                r, b, c = r + r2, b + b2, c + c2
            for h in s_.handlers:
                hs = [self.havoc(st, s_.body, fi) for st in states]
                for st in hs:
                    if h.name:
                        st.loc[h.name] = self.unk()
                n2, r2, b2, c2 = self.block(h.body, hs, fi, depth)
                n, r, b, c = n + n2, r + r2, b + b2, c + c2
            if s_.finalbody:
                n, r3, b3, c3 = self.block(s_.finalbody, n, fi, depth)
                if any(isinstance(x, (ast.Return, ast.Break, ast.Continue)) for f_ in s_.finalbody for x in ast.walk(f_)):
                    raise _GiveUp("a finally block that leaves the function")
                # what a finally block stores also holds on the paths that return from inside the try
                r = [(self.havoc(st, s_.finalbody, fi), v) for st, v in r] + r3
            return n, r, b, c
        if isinstance(s_, ast.Delete):
            out = []
            for st in states:
                st = st.copy()
                for t in s_.targets:
                    self.store(st, t, self.unk(), fi)
                out.append(st)
            return out, [], [], []
        if isinstance(s_, (ast.Pass, ast.Assert, ast.Import, ast.ImportFrom, ast.Global, ast.Nonlocal, ast.FunctionDef, ast.ClassDef, ast.AsyncFunctionDef)):
            if isinstance(s_, ast.Assert):
                self.check_nested(s_, fi, None)
            return states, [], [], []
        raise _GiveUp("statement %s" % type(s_).__name__)


def _rows_of(t, data):
    """is the term the number of rows of the (1-d) array handed to write(): data.size, len(data), data.shape[0]"""
    return t in (("attr", data, "size"), ("call", "len", (data,)), ("sub", ("attr", data, "shape"), lit(0)))


def running_row_count(chk, repo):
    R = "R01.2"
    wr = repo.func("esutil.sfile.SFile.write")
    chk.analysed_unit(wr.qualname)
    ka, kf = "SFile.write::append-keeps-running-row-count", "SFile.write::first-write-records-row-count"
    what_a = "when write() returns from an append, whatever the append path took the number of rows already in the file from holds the number it has just put on the SIZE line " \
             "(%s(<rows before> + <rows of the data>)), so that the next append of the session starts from the rows actually written" % _COUNT_SINK
    what_f = "when write() returns from the first write to a file, the attribute the append path takes the number of rows already in the file from holds the rows of the data written"
    hx = HandleExec(repo)
    ps = [p for p in wr.params if not p.startswith("*")]
    try:
        if len(ps) < 2 or not wr.cls:
            raise _GiveUp("write() has no data parameter")
        entry = _HState({p: ("param", p) for p in ps[1:]})
        exits = [s_ for s_, _ in hx.run_function(wr, entry, 0)]
    except (_GiveUp, RecursionError) as e:
        chk.ob(R, ka, None, wr.where(), "%s: the write path was not followed (%s)" % (what_a, e))
        return
    data = ("param", ps[1])
    appends = [(s_, [e for e in s_.ev if e[0] == "count"][-1]) for s_ in exits if any(e[0] == "count" for e in s_.ev)]
    firsts = [s_ for s_ in exits if any(e[0] == "header" for e in s_.ev) and not any(e[0] == "count" for e in s_.ev)]
    where_a = (hx.sink_where.get(_COUNT_SINK) or wr).where()
    if not appends:
        chk.ob(R, ka, None, wr.where(), "%s: no path through write() that calls %s was found" % (what_a, _COUNT_SINK))
        return
    verdicts, sources = [], set()
    for st, evn in appends:
        T = evn[1]
        c0, m = lin(T)
        olds = [a_ for a_ in m if a_[0] == "old"]
        if _has_unknown(T) or ("*",) in st.att:
            verdicts.append((None, "the number handed to %s, %s, was not followed" % (_COUNT_SINK, showh(T))))
            continue
        if not olds:
            verdicts.append((False, "the number handed to %s, %s, does not include the rows already in the file (nothing kept on the handle enters it)" % (_COUNT_SINK, showh(T))))
            continue
        if len(olds) != 1 or m[olds[0]] != 1:
            verdicts.append((None, "the number handed to %s, %s, is not <one count kept on the handle> + <rows added>" % (_COUNT_SINK, showh(T))))
            continue
        L = olds[0][1]
        sources.add(L)
        rest = {a_: k for a_, k in m.items() if a_ != olds[0]}
        rows = [a_ for a_, k in rest.items() if k == 1 and _rows_of(a_, data)]
        if len(rest) == 1 and rows and c0 == 0:
            pass
        elif (len(rest) == 1 and rows) or not rest:
            verdicts.append((False, "the number handed to %s, %s, is not <rows already in the file> + <rows of the data appended>" % (_COUNT_SINK, showh(T))))
            continue
        else:
            verdicts.append((None, "what is added to the count kept on the handle in %s was not recognised as the rows of the data (%s.size / len(%s))" % (showh(T), ps[1], ps[1])))
            continue
        final = hx.cur(st, L)
        if ("k*", L[1]) in st.att or _has_unknown(final):
            verdicts.append((None, "what %s holds when write() returns was not followed" % _show_loc(L)))
        elif lin(final) == lin(T):
            verdicts.append((True, "%s = %s" % (_show_loc(L), showh(final))))
        elif final == ("old", L) and L not in st.att:
            verdicts.append((False, "%s is handed %s but %s is not assigned on this path: it still holds the count from before this append, so the next append of the session "
                             "puts a SIZE line that leaves out the rows of this one" % (_COUNT_SINK, showh(T), _show_loc(L))))
        else:
            verdicts.append((False, "%s is handed %s but %s is left holding %s: the next append of the session starts from a count that is not the rows in the file" % (
                _COUNT_SINK, showh(T), _show_loc(L), showh(final))))
    vs = [v for v, _ in verdicts]
    ok = False if False in vs else (None if None in vs else True)
    txt = "; ".join(sorted({t for v, t in verdicts if v is ok}))
    chk.ob(R, ka, ok, where_a, "%s -- %s" % (what_a, txt))
    if not sources:
        return
    where_f = (hx.sink_where.get(_HEADER_SINK) or wr).where()
    if not firsts:
        chk.ob(R, kf, None, wr.where(), "%s: no path through write() that writes a header (%s) and does not update the count was found" % (what_f, _HEADER_SINK))
        return
    verdicts = []
    for st in firsts:
        for L in sorted(sources):
            final = hx.cur(st, L)
            if ("*",) in st.att or ("k*", L[1]) in st.att or _has_unknown(final):
                verdicts.append((None, "what %s holds after the first write was not followed" % _show_loc(L)))
            elif _rows_of(final, data):
                verdicts.append((True, "%s = %s" % (_show_loc(L), showh(final))))
            elif final == ("old", L):
                verdicts.append((False, "%s is not assigned on the path that writes the header: the first append then adds its rows to whatever the handle held before, not to the rows of the first write" % _show_loc(L)))
            else:
                c0, m = lin(final)
                rows = [a_ for a_, k in m.items() if k == 1 and _rows_of(a_, data)]
                if len(m) == 1 and rows and c0 != 0:
                    verdicts.append((False, "%s is left holding %s after a first write of %s rows" % (_show_loc(L), showh(final), showh(rows[0]))))
                else:
                    verdicts.append((None, "%s holds %s after the first write: not recognised as the rows of the data" % (_show_loc(L), showh(final))))
    vs = [v for v, _ in verdicts]
    ok = False if False in vs else (None if None in vs else True)
    chk.ob(R, kf, ok, where_f, "%s -- %s" % (what_f, "; ".join(sorted({t for v, t in verdicts if v is ok}))))


# ---------------------------------------------------------------------------
def _binds_name(mod, name):
    """does anything in the module (at any level: assignment, def, class, import, parameter, loop / with / except target,
    star import) bind `name`, so that the bare name need not be the builtin"""
    if mod is None or mod.star:
        return True
    for x in ast.walk(mod.tree):
        if isinstance(x, ast.Name) and x.id == name and not isinstance(x.ctx, ast.Load):
            return True
        if isinstance(x, (ast.FunctionDef, ast.AsyncFunctionDef, ast.ClassDef)) and x.name == name:
            return True
        if isinstance(x, ast.arg) and x.arg == name:
            return True
        if isinstance(x, ast.alias) and (x.asname or x.name.split(".")[0]) in (name, "*"):
            return True
        if isinstance(x, ast.ExceptHandler) and x.name == name:
            return True
        if type(x).__name__ in ("MatchAs", "MatchStar") and x.name == name or type(x).__name__ == "MatchMapping" and x.rest == name:
            return True
        if isinstance(x, (ast.Global, ast.Nonlocal)) and name in x.names:
            return True
    return False


def _divmod_quotient(t, mod):
    """`divmod(a, b)[0]` with the builtin divmod (two positional arguments, nothing in the module rebinds the name) is `a // b`;
    any other term is returned as it is"""
    if len(t) == 3 and t[0] == "sub" and t[2] == lit(0) and isinstance(t[1], tuple) and len(t[1]) == 4 and t[1][0] == "call" \
            and t[1][1] == "divmod" and len(t[1][2]) == 2 and not t[1][3] and not any(a[0] == "star" for a in t[1][2]) \
            and not _binds_name(mod, "divmod"):
        return ("op", "//", t[1][2][0], t[1][2][1])
    return t


def row_count(chk, repo):
    """R01.6: when the row count of a binary file is not given it is (file size - data offset) // row size: a header-bearing file
    read through the plain record reader (recfile.read / io.read with dtype= and offset=) must not count its header as rows"""
    R = "R01.6"
    fi = repo.func("esutil.recfile.Util.Recfile._count_nrows")
    chk.analysed_unit(fi.qualname)
    ev = Ev(repo, fi, flags=BINARY)
    # the value returned on the binary path; when it is what a private method returns (one that positions the file, so it is not
    # folded into a term), the rule looks at that method, with its parameters bound to the arguments of the call
    for _ in range(3):
        rets = [(n, ev.ev(n.ast.value, n)) for n in _returns(ev) if n.ast.value is not None]
        sub = None
        if len(rets) == 1 and rets[0][1][0] == "mcall" and isinstance(rets[0][0].ast.value, ast.Call):
            callee = ev.resolve_self_method(rets[0][0].ast.value)
            binds = dict(rets[0][1][2])
            if callee is not None and callee.qualname == rets[0][1][1] and "*" not in binds and "**" not in binds:
                sub = Ev(repo, callee, flags=BINARY, binds=binds, depth=ev.depth + 1, stack=ev.stack + (ev.fi.qualname,), outer=(ev, rets[0][0]))
        if sub is None:
            break
        chk.analysed_unit(sub.fi.qualname)
        ev, fi = sub, sub.fi
    # the quotient of the builtin divmod(a, b) -- `divmod(a, b)[0]`, or the first name of `q, r = divmod(a, b)` -- is a // b
    rets = [(n, _divmod_quotient(t, ev.mod)) for n, t in rets]
    cands = [(n, t) for n, t in rets if t[0] == "op" and t[1] == "//"]
    found = len(rets) == 1 and len(cands) == 1
    chk.ob(R, "_count_nrows::binary-arm-found", True if found else None, fi.where(), "on the binary path the row count returned is an integer division (%s)" % [show(t) for n, t in rets])
    if not found:
        return
    n, t = cands[0]
    num, den = t[2], t[3]
    okd = den == ("attr", ("attr", SELF, "dtype"), "itemsize")
    okn = num[0] == "op" and num[1] == "-" and num[3] == ("attr", SELF, "offset")
    size_ok = False
    sz = num[2] if num[0] == "op" and num[1] == "-" else num
    if sz[0] == "meth" and sz[2] == "tell" and not sz[3]:
        # the position is the size only when taken at the end of the file: a seek(0, 2) on the same object dominates the tell()
        seeks, tells = [], []
        for e2, m, c in find_calls(ev, named("seek", "tell"), follow=False):
            obj = e2.ev(c.func.value, m) if isinstance(c.func, ast.Attribute) else None
            if obj != sz[1]:
                continue
            if call_name(c) == "tell":
                tells.append(m)
            elif len(c.args) == 2 and e2.ev(c.args[0], m) == lit(0) and e2.ev(c.args[1], m) in (lit(2), ("glob", "os.SEEK_END"), ("glob", "io.SEEK_END")):
                seeks.append(m)
        others = [m for e2, m, c in find_calls(ev, named("seek", "read", "readline", "readlines"), follow=False) if m not in seeks]
        size_ok = len(tells) == 1 and any(ev.view.dominates(sk, tells[0]) and sk.id != tells[0].id
                                          and not any(ev.view.reaches(sk, m) and ev.view.reaches(m, tells[0]) for m in others) for sk in seeks)
    elif sz[0] == "call" and sz[1] == "os.path.getsize" and len(sz[2]) == 1:
        size_ok = sz[2][0] == ("attr", SELF, "filename")
    elif sz[0] == "attr" and sz[2] == "st_size" and sz[1][0] == "call" and sz[1][1] in ("os.stat", "os.fstat"):
        size_ok = True
    chk.ob(R, "_count_nrows::rows-are-(size-offset)//rowsize", None if (opaque(t) and not (okd and okn and size_ok)) else bool(okd and okn and size_ok), fi.where(n.ast),
           "row count = (size of the file - self.offset) // self.dtype.itemsize with the size taken at end of file (found `%s`)" % show(t))
