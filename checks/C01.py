"""C01 -- binary record files reproduce the written table bit-for-bit."""
import ast

from vcheck import cfront, effects, rules
from vcheck.core import PyRepo, AnalysisError, call_name, dotted_name, kwarg, norm, walk_no_nested
from vcheck.cstr import c_string_literal, printf_directives
from vcheck.ctable import c_summaries
from vcheck.rules import cfg_of

MANIFEST = dict(
    text="Format/framing agreement and pass-through rules over Python ast and clang AST (not a behavioural proof of byte equality): "
         "(1) header framing: the trailer the Python writer puts after the pretty-printed dict is evaluated from the joined line list; the "
         "C++ reader's sentinel literal, comparison width and post-sentinel skip must reproduce exactly that trailer (data offset = header "
         "length) and the sentinel must be anchored by line boundaries on both sides so that user text containing END cannot match; the "
         "Python parser drops exactly the trailer lines; (2) SIZE line: prefix, width >= 20 and conversion agree between writer, in-place "
         "updater and parser; (3) payload pass-through: on the binary path the object handed to Records::Write is a view of the caller's "
         "array (no conversion), native-order conversion and dtype byte-order stripping are control dependent on the text condition, the "
         "C++ writer issues one fwrite of rowsize x nrows with a short-write throw, readers allocate zeros(n, dtype=<file dtype>) and seek "
         "to the data offset first; (4) header content: user header deep-copied, only underscore-prefixed reserved keys removed, _DTYPE is "
         "data.dtype.descr unmodified for binary, _SIZE filled from the SIZE line, header returned by copy; (5) every front end (sfile, "
         "SFile, Recfile, recfile.write/read, io.write/io.read for rec) reaches the same writer/reader with (file, data) in the right roles.",
    note="Not decided: byte equality for all dtypes/values, numpy descr->dtype reconstruction, pprint.pformat/eval round trip of arbitrary "
         "literals, libc I/O. Trusted: pprint escapes string content (no raw line consisting of END), SWIG naming convention.",
    technique="static analysis: abstract evaluation of writer constants vs reader constants (framing agreement), CFG dominance/control-dependence, alias analysis for pass-through",
)

W = "esutil/recfile/records.cpp"


# rules that keep their verdict however the code is laid out (decided by term equality, effect analysis or dominance over
# resolved calls); every other rule of this check is a template rule (vcheck.core.Check.obt)
SEMANTIC = ('R01.1', 'R01.4', 'R01.6')


def run(chk):
    repo = PyRepo()
    chk.set_templates(repo, semantic=SEMANTIC)
    chk.explanation = MANIFEST["text"]
    chk.trusted = ["pprint.pformat repr-escapes string content", "clang 14 AST", "SWIG naming convention"]
    chk.floor = 40
    cfun = cfront.functions(cfront.load_tu("records"))
    framing(chk, repo, cfun)
    size_line(chk, repo, cfun)
    payload(chk, repo, cfun)
    header_content(chk, repo)
    front_ends(chk, repo)
    row_count(chk, repo)


# ---------------------------------------------------------------------------
def framing(chk, repo, cfun):
    wh = repo.func("esutil.sfile.SFile._write_header")
    chk.analysed_unit(wh.qualname)
    # abstract evaluation of the joined line list
    lists = [a for a in walk_no_nested(wh.node) if isinstance(a, ast.Assign) and isinstance(a.value, ast.List)]
    joins = [a for a in walk_no_nested(wh.node) if isinstance(a, ast.Assign) and isinstance(a.value, ast.Call) and call_name(a.value) == "join"]
    ok = len(lists) == 1 and len(joins) == 1 and norm(joins[0].value.args[0]) == norm(lists[0].targets[0]) and isinstance(joins[0].value.func.value, ast.Constant)
    chk.ob("R01.1", "writer::header-is-joined-line-list", ok, wh.where(), "the header text is sep.join([...]) of a literal list")
    if not ok:
        return
    sep = joins[0].value.func.value.value
    elts = lists[0].value.elts
    # which element is the dict text: the one bound to pformat
    env = {norm(a.targets[0]): a.value for a in walk_no_nested(wh.node) if isinstance(a, ast.Assign)}
    di = [i for i, e in enumerate(elts) if isinstance(e, ast.Name) and isinstance(env.get(e.id), ast.Call) and call_name(env[e.id]) == "pformat"]
    si = [i for i, e in enumerate(elts) if isinstance(e, ast.Name) and isinstance(env.get(e.id), ast.Call) and call_name(env[e.id]) == "_get_size_string"]
    chk.ob("R01.1", "writer::size-line-first-dict-second", si == [0] and di == [1], wh.where(), "line 0 is the SIZE line, then the pretty-printed dict")
    if di != [1]:
        return
    tail = elts[di[0] + 1:]
    if not all(isinstance(e, ast.Constant) and isinstance(e.value, str) for e in tail):
        raise AnalysisError("trailer pieces of the header are not string literals")
    T_w = "".join(sep + e.value for e in tail)
    chk.notes["writer_trailer"] = repr(T_w)
    wcall = [c for c in walk_no_nested(wh.node) if isinstance(c, ast.Call) and call_name(c) == "write_header_and_update_offset"]
    chk.ob("R01.1", "writer::whole-text-written-once", len(wcall) == 1 and norm(wcall[0].args[0]) == norm(joins[0].targets[0]), wh.where(), "the joined text is what is written")
    # C++ reader constants
    rd = cfun.get("Records::read_sfile_header")
    if rd is None:
        raise AnalysisError("C++ anchor Records::read_sfile_header missing")
    chk.analysed_unit("Records::read_sfile_header")
    cmpc = [c for c in cfront.calls_in(cfront.body_of(rd)) if cfront.callee_name(c) in ("strncmp", "memcmp")]
    if len(cmpc) != 1:
        raise AnalysisError("sentinel comparison (strncmp/memcmp) not found in read_sfile_header")
    args = cfront.call_args(cmpc[0])
    S = c_string_literal(args[1])
    width = int(cfront.render(args[2]))
    skips = [cfront.render(x["inner"][1]) for x in cfront.walk(cfront.body_of(rd)) if x.get("kind") == "CompoundAssignOperator" and x.get("opcode") == "+=" and cfront.render(x["inner"][0]) == "count"]
    K = int(skips[0]) if len(skips) == 1 and skips[0].isdigit() else None
    chk.notes["reader_sentinel"] = {"literal": repr(S), "compared_bytes": width, "skip_after": K}
    chk.ob("R01.1", "reader::constants-found", S is not None and K is not None, W, "sentinel %r compared over %d bytes, then %s more bytes belong to the header" % (S, width, K))
    if S is None or K is None:
        return
    chk.ob("R01.1", "reader::compares-whole-sentinel", width == len(S), W, "the comparison covers the whole sentinel literal (%d of %d bytes)" % (width, len(S)))
    # the sliding window holds `width` bytes: width-1 shifts + 1 store of the new byte
    shifts = [cfront.render(x) for x in cfront.walk(cfront.body_of(rd)) if x.get("kind") == "BinaryOperator" and x.get("opcode") == "=" and cfront.render(x["inner"][0]).startswith("endbuff[")]
    want = ["(endbuff[%d] = endbuff[%d])" % (i, i + 1) for i in range(width - 1)] + ["(endbuff[%d] = c)" % (width - 1)]
    chk.ob("R01.1", "reader::window-slides-by-one-byte", shifts == want, W, "the %d-byte window is shifted by one and the new byte appended (%s)" % (width, shifts))
    pos = T_w.find(S)
    ok = pos >= 0 and len(T_w) - (pos + len(S)) == K
    chk.ob("R01.1", "framing::reader-stops-exactly-at-end-of-trailer", ok, W,
           "writer trailer %r = (context %r) + sentinel %r + %d bytes: the data offset returned by the reader equals the length of the header written" % (T_w, T_w[:max(pos, 0)], S, K))
    anchored = S.startswith("\n") and S.endswith("\n") and S.strip("\n") == "END"
    chk.ob("R01.1", "framing::sentinel-anchored-on-line-boundaries", anchored, W,
           "the sentinel must be a whole line (%r): pprint output never contains a line consisting of END alone because all string content is repr-escaped, "
           "whereas the bare letters END occur inside user keys/values/field names (e.g. 'WEEKEND', field TREND), which the property's quantifier includes; "
           "found %r, so the reader stops at the first END anywhere in the header" % ("\nEND\n", S))
    # python parser drops exactly the trailer pieces
    rh = repo.func("esutil.sfile.SFile.read_header")
    chk.analysed_unit(rh.qualname)
    sl = [a for a in walk_no_nested(rh.node) if isinstance(a, ast.Assign) and isinstance(a.value, ast.Subscript) and isinstance(a.value.slice, ast.Slice) and norm(a.value.value) == "lines"]
    ntrail = T_w.count(sep) if sep == "\n" else None
    ok = len(sl) == 1 and norm(sl[0].value.slice.lower) == "1" and norm(sl[0].value.slice.upper).replace(" ", "") == "len(lines)-%d" % ntrail
    chk.ob("R01.1", "parser::drops-size-line-and-trailer-lines", ok, rh.where(), "the dict text is lines[1 : len(lines)-%s]: the SIZE line and the %s trailing pieces produced by splitting the trailer are dropped (found %s)" % (ntrail, ntrail, norm(sl[0].value) if sl else None))
    spl = [norm(a.value) for a in walk_no_nested(rh.node) if isinstance(a, ast.Assign) and norm(a.targets[0]) == "lines"]
    chk.ob("R01.1", "parser::splits-on-writer-separator", spl == ["hdrstring.split(%r)" % sep], rh.where(), "the header text is split on the writer's separator")
    off = [norm(a) for a in walk_no_nested(rh.node) if isinstance(a, ast.Assign) and norm(a.targets[0]) in ("self._data_start", "(hdrstring, offset)")]
    chk.ob("R01.1", "parser::data-offset-kept", "self._data_start = offset" in off and any(o.replace("(", "").replace(")", "") == "hdrstring, offset = robj.robj.read_sfile_header" for o in off), rh.where(), "the offset returned by the C++ reader becomes the data start")
    so = repo.func("esutil.sfile.SFile.open")
    offs = [norm(kwarg(c, "offset")) for c in walk_no_nested(so.node) if isinstance(c, ast.Call) and call_name(c) == "Recfile" and kwarg(c, "offset") is not None]
    chk.ob("R01.1", "SFile.open::reader-starts-at-data-offset", offs == ["self._data_start"], so.where(), "the record reader is opened at the data start")
    rets = [cfront.render(x) for x in cfront.walk(cfront.body_of(rd)) if x.get("kind") == "ReturnStmt"]
    chk.ob("R01.1", "reader::returns-text-and-position", any("ftell(mFptr)" in r and "hdr.c_str()" in r for r in rets), W, "the reader returns the header text and the file position after it")


def size_line(chk, repo, cfun):
    ex = repo.func("esutil.sfile.SFile._extract_size_from_string")
    chk.analysed_unit(ex.qualname)
    cfg = cfg_of(ex)
    tests = {t for n in rules.raise_nodes(cfg) for t, lab in rules.controlling_tests(cfg.view(), n)[:1] if lab == "T"}
    chk.ob("R01.2", "size-parser::one-equals-sign", "len(lsplit) != 2" in tests, ex.where(), "the SIZE line must split into exactly name and value")
    chk.ob("R01.2", "size-parser::name-accepted", "fname.upper() != 'SIZE' and fname.upper() != 'NROWS'" in tests, ex.where(), "the name SIZE (or legacy NROWS) is required")
    val = [norm(a.value) for a in walk_no_nested(ex.node) if isinstance(a, ast.Assign) and norm(a.targets[0]) == "size"]
    chk.ob("R01.2", "size-parser::value", val == ["eval(lsplit[1])"], ex.where(), "the row count is the evaluated right-hand side (blank padding tolerated)")
    gs = repo.func("esutil.sfile.SFile._get_size_string")
    fmts = [x.left.value for x in ast.walk(gs.node) if isinstance(x, ast.BinOp) and isinstance(x.op, ast.Mod) and isinstance(x.left, ast.Constant)]
    okw = len(fmts) == 1 and fmts[0].count("=") == 1 and fmts[0].split("=")[0].strip() == "SIZE"
    chk.ob("R01.2", "size-writer::name-and-single-equals", okw, gs.where(), "the writer's SIZE line has the accepted name and one '=' (%s)" % fmts)
    rh = repo.func("esutil.sfile.SFile.read_header")
    st = [norm(a) for a in walk_no_nested(rh.node) if isinstance(a, ast.Assign)]
    chk.ob("R01.2", "parser::size-from-first-line", "size = self._extract_size_from_string(lines[0])" in st and "hdr['_SIZE'] = size" in st, rh.where(), "_SIZE in the header read back is the count of the SIZE line")
    so = repo.func("esutil.sfile.SFile.open")
    nr = [norm(kwarg(c, "nrows")) for c in walk_no_nested(so.node) if isinstance(c, ast.Call) and call_name(c) == "Recfile" and kwarg(c, "nrows") is not None]
    gn = repo.func("esutil.sfile.SFile.get_nrows")
    rets = [norm(x.value) for x in walk_no_nested(gn.node) if isinstance(x, ast.Return)]
    chk.ob("R01.2", "SFile.open::row-count-from-header", nr == ["self.get_nrows()"] and rets == ["self._hdr['_SIZE']"], so.where(), "the reader is told the stored row count")


def payload(chk, repo, cfun):
    eng = effects.Effects(repo, c_summaries())
    fi = repo.func("esutil.recfile.Util.Recfile.write")
    chk.analysed_unit(fi.qualname)
    cfg = cfg_of(fi)
    v = cfg.specialise(flags={"self.is_ascii": False})
    # binary path: what reaches Records::Write is a view of the caller's array and nothing converts it
    calls = [(n, c) for n in v.nodes() for c in rules.stmts_calls(n)]
    names = [call_name(c) for n, c in calls]
    chk.ob("R01.3", "Recfile.write[binary]::no-conversion", not any(nm in ("to_native_inplace", "to_native", "byteswap", "astype", "copy") for nm in names), fi.where(),
           "on the binary path nothing converts or copies the data (calls: %s)" % names)
    import checks.C15 as C15
    an = effects._Analyse(eng, fi, {"self.is_ascii": False})
    init = {p: {("P", p, "same", p == "data")} for p in an.params}
    C15._run_with_init(an, init)
    wcalls = [c for n, c in calls if call_name(c) == "Write"]
    ok = False
    if len(wcalls) == 1:
        # provenance of the argument: view of data
        arg = wcalls[0].args[0]
        defs = [a for a in walk_no_nested(fi.node) if isinstance(a, ast.Assign) and norm(a.targets[0]) == norm(arg)]
        ok = any(norm(a.value) in ("data.view(numpy.ndarray)", "data") for a in defs)
    chk.ob("R01.3", "Recfile.write[binary]::writes-view-of-callers-array", ok, fi.where(), "Records::Write receives data.view(ndarray): the caller's bytes, dtype and byte order as they are")
    # C++ Write
    w = cfun["Records::Write"]
    chk.analysed_unit("Records::Write")
    asg = {cfront.render(x["inner"][0]): cfront.render(x["inner"][1]) for x in cfront.walk(cfront.body_of(w)) if x.get("kind") == "BinaryOperator" and x.get("opcode") == "="}
    chk.ob("R01.3", "Records::Write::data-pointer-and-count", asg.get("mData") == "PyArray_DATA(obj)" and "obj" in asg.get("mNrows", ""), W, "mData is the array's buffer and mNrows its size (%s, %s)" % (asg.get("mData"), asg.get("mNrows")))
    cfi = cfun["Records::copy_field_info"]
    rs = [cfront.render(x["inner"][1]) for x in cfront.walk(cfront.body_of(cfi)) if x.get("kind") == "BinaryOperator" and x.get("opcode") == "=" and cfront.render(x["inner"][0]) == "mRowSize"]
    chk.ob("R01.3", "Records::copy_field_info::row-size-is-itemsize", len(rs) == 1 and "descr" in rs[0] and ("ELSIZE" in rs[0] or "elsize" in rs[0]), W, "the row size is the dtype's item size (%s)" % rs)
    wb = cfun["Records::WriteAllAsBinary"]
    chk.analysed_unit("Records::WriteAllAsBinary")
    fw = [cfront.render(c) for c in cfront.calls_in(cfront.body_of(wb)) if cfront.callee_name(c) == "fwrite"]
    chk.ob("R01.3", "Records::WriteAllAsBinary::single-fwrite", fw == ["fwrite(mData, mRowSize, mNrows, mFptr)"], W, "one fwrite of mNrows rows of mRowSize bytes from the buffer (%s)" % fw)
    ccfg = cfront.CCFG(wb)
    thr = [n for n in ccfg.nodes if n.kind == "raise"]
    conds = [cfront.render(b.c) for n in thr for b, lab in ccfg.view().controlling_branches(n)[:1]]
    chk.ob("R01.3", "Records::WriteAllAsBinary::short-write-throws", conds == ["(nwrite < mNrows)"], W, "a short write raises (%s)" % conds)
    wc = cfront.CCFG(w)
    disp = [(cfront.render(b.c), lab, cfront.callee_name(c)) for n in wc.nodes for c in cfront.node_calls(n) if cfront.callee_name(c) in ("WriteAllAsBinary", "WriteRows") for b, lab in wc.view().controlling_branches(n)[:1]]
    chk.ob("R01.3", "Records::Write::binary-dispatch", sorted(disp) == sorted([("(mFileType == BINARY_FILE)", "T", "WriteAllAsBinary"), ("(mFileType == BINARY_FILE)", "F", "WriteRows")]), W, "binary files take the single-fwrite path (%s)" % disp)
    sft = cfun["Records::set_file_type"]
    sf = [(cfront.render(b.c), lab, cfront.render(n.c)) for n in cfront.CCFG(sft).nodes if n.kind == "stmt" and isinstance(n.c, dict) and "mFileType =" in cfront.render(n.c) for b, lab in cfront.CCFG(sft).view().controlling_branches(n)[:1]]
    chk.ob("R01.3", "Records::set_file_type::binary-iff-no-delimiter", len(sf) == 2 and all('mDelim == ""' in c for c, _, _ in sf), W, "a file is binary exactly when the delimiter is empty")
    # readers
    for q in ("esutil.recfile.Util.Recfile._read_binary_slice", "esutil.recfile.Util.Recfile._read_columns"):
        f = repo.func(q)
        chk.analysed_unit(q)
        z = [norm(c) for c in walk_no_nested(f.node) if isinstance(c, ast.Call) and call_name(c) == "zeros"]
        okz = z in (["numpy.zeros(nrows, dtype=self.dtype)"], ["numpy.zeros(nrows, dtype=dtype)"])
        chk.ob("R01.3", f.name + "::zeroed-buffer-of-file-dtype", okz, f.where(), "rows are read into zeros(n, dtype=<file dtype / its column subset>) (%s)" % z)
    op = repo.func("esutil.recfile.Util.Recfile.open")
    cfg = cfg_of(op)
    st = [(norm(n.ast.value), dict(rules.controlling_tests(cfg.view(), n, skip_reject_guards=True))) for n in cfg.nodes if n.kind == "stmt" and isinstance(n.ast, ast.Assign) and norm(n.ast.targets[0]) == "self.dtype"]
    ok = any(v == "numpy.dtype(dtype)" and "self.is_ascii" not in ts for v, ts in st) and all(("self.is_ascii" in ts and ts["self.is_ascii"] == "T") for v, ts in st if "nbo" in v)
    chk.ob("R01.3", "Recfile.open::binary-dtype-kept-as-given", ok, op.where(), "for binary files the reader's dtype is numpy.dtype(<given>) with its byte order; stripping is control dependent on the text condition")
    for nm in ("Records::read_binary_columns", "Records::read_binary_slice"):
        ccfg = cfront.CCFG(cfun[nm])
        view = ccfg.view()
        gos = [n for n in ccfg.nodes for c in cfront.node_calls(n) if cfront.callee_name(c) == "goto_offset"]
        rdn = [n for n in ccfg.nodes for c in cfront.node_calls(n) if cfront.callee_name(c) in ("fread", "read_from_binary_column", "skip_rows", "skip_binary_rows", "do_seek")]
        chk.ob("R01.3", nm + "::seek-to-data-offset-first", bool(gos) and bool(rdn) and all(view.dominates(gos[0], n) for n in rdn), W, "goto_offset() dominates every read/skip")
    go = cfun["Records::goto_offset"]
    fs = [cfront.render(c) for c in cfront.calls_in(cfront.body_of(go))]
    chk.ob("R01.3", "Records::goto_offset::absolute-seek", fs == ["fseek(mFptr, mFileOffset, 0)"], W, "goto_offset seeks to the stored data offset from the start of the file (%s)" % fs)
    ctor = cfun["Records::Records"]
    asg = [cfront.render(x) for x in cfront.walk(cfront.body_of(ctor)) if x.get("kind") == "BinaryOperator" and x.get("opcode") == "=" and cfront.render(x["inner"][0]) == "mFileOffset"]
    chk.ob("R01.3", "Records::Records::offset-stored", asg == ["(mFileOffset = offset)"], W, "the data offset given by Python is stored")
    rb = cfun["Records::read_from_binary_column"]
    fr = [cfront.render(c) for c in cfront.calls_in(cfront.body_of(rb)) if cfront.callee_name(c) == "fread"]
    chk.ob("R01.3", "Records::read_from_binary_column::field-sized-read", fr == ["fread(buff, mSizes[colnum], 1, mFptr)"], W, "a column is read as its full byte size into the output (%s)" % fr)
    # SFile dtype from the header
    so = repo.func("esutil.sfile.SFile.open")
    env = {norm(a.targets[0]): norm(a.value) for a in walk_no_nested(so.node) if isinstance(a, ast.Assign)}
    ok = env.get("self._descr") == "_match_key(self._hdr, '_dtype', require=True)" and env.get("self._dtype") == "np.dtype(self._descr)"
    kw = [norm(kwarg(c, "dtype")) for c in walk_no_nested(so.node) if isinstance(c, ast.Call) and call_name(c) == "Recfile" and kwarg(c, "dtype") is not None]
    chk.ob("R01.3", "SFile.open::dtype-from-header", ok and kw == ["self._dtype"], so.where(), "the reader's dtype is rebuilt from the header's _DTYPE and handed to the record reader")


def header_content(chk, repo):
    mh = repo.func("esutil.sfile.SFile._make_header")
    chk.analysed_unit(mh.qualname)
    cfg = cfg_of(mh)
    view = cfg.view()
    heads = [(norm(n.ast.value), dict(rules.controlling_tests(view, n))) for n in cfg.nodes if n.kind == "stmt" and isinstance(n.ast, ast.Assign) and norm(n.ast.targets[0]) == "head"]
    ok = ("copy.deepcopy(header)", {"header is None": "F"}) in heads and ("{}", {"header is None": "T"}) in heads
    chk.ob("R01.4", "_make_header::user-header-deep-copied", ok, mh.where(), "the stored header starts as a deep copy of the user's dict (or empty): %s" % heads)
    loops = [x for x in walk_no_nested(mh.node) if isinstance(x, ast.For) and isinstance(x.iter, ast.List)]
    keys = [e.value for e in loops[0].iter.elts if isinstance(e, ast.Constant)] if loops else []
    chk.ob("R01.4", "_make_header::only-reserved-keys-removed", bool(keys) and all(k.startswith("_") for k in keys), mh.where(), "only underscore-prefixed reserved keys are removed from the user header (%s)" % keys)
    dels = [norm(x) for x in ast.walk(loops[0]) if isinstance(x, ast.Delete)] if loops else []
    chk.ob("R01.4", "_make_header::removal-by-loop-key", sorted(dels) == ["del head[key.upper()]", "del head[key]"], mh.where(), "removal touches only the listed keys (both spellings)")
    st = {norm(n.ast.targets[0]): (norm(n.ast.value), dict(rules.controlling_tests(view, n))) for n in cfg.nodes if n.kind == "stmt" and isinstance(n.ast, ast.Assign) and norm(n.ast.targets[0]).startswith("head[")}
    chk.ob("R01.4", "_make_header::dtype-and-version", st.get("head['_DTYPE']") == ("descr", {}) and st.get("head['_VERSION']", ("",))[0] == "SFILE_VERSION", mh.where(), "_DTYPE and _VERSION are always recorded")
    ds = [(norm(n.ast.value), dict(rules.controlling_tests(view, n))) for n in cfg.nodes if n.kind == "stmt" and isinstance(n.ast, ast.Assign) and norm(n.ast.targets[0]) == "descr"]
    chk.ob("R01.4", "_make_header::binary-dtype-unmodified", ("data.dtype.descr", {}) in ds and all(ts.get("self._delim is not None") == "T" for v, ts in ds if v != "data.dtype.descr"), mh.where(), "for binary files _DTYPE is data.dtype.descr unmodified (byte order, shapes, names)")
    rets = [norm(x.value) for x in walk_no_nested(mh.node) if isinstance(x, ast.Return)]
    chk.ob("R01.4", "_make_header::returns-head", rets == ["head"], mh.where(), "the built dict is returned")
    # user's dict is not mutated: effect analysis
    eng = effects.Effects(repo, c_summaries())
    import checks.C15 as C15
    s = C15.analyse_with_arrays(eng, repo.func("esutil.sfile.SFile.write"), ["header"], {})
    sites = s.mut.get("header", [])
    chk.ob("R01.4", "SFile.write::user-header-not-modified", not sites, mh.where(), "no store or deletion reaches the caller's header dict%s" % ("" if not sites else ": " + sites[0].describe()))
    wh = repo.func("esutil.sfile.SFile._write_header")
    env = {norm(a.targets[0]): norm(a.value) for a in walk_no_nested(wh.node) if isinstance(a, ast.Assign)}
    chk.ob("R01.4", "_write_header::dict-pretty-printed", env.get("hdr_dict_string") == "pprint.pformat(self._hdr)" and env.get("self._hdr") == "self._make_header(data, header=header)", wh.where(), "the header text is pprint.pformat of the built dict")
    rh = repo.func("esutil.sfile.SFile.read_header")
    env = {norm(a.targets[0]): norm(a.value) for a in walk_no_nested(rh.node) if isinstance(a, ast.Assign)}
    chk.ob("R01.4", "read_header::dict-evaluated", env.get("hdr") == "eval(hdrdict_string)" and env.get("hdrdict_string") == "' '.join(hdrdict_string_lines)", rh.where(), "the dict lines are re-joined and evaluated")
    rd = repo.func("esutil.sfile.SFile.read")
    rets = [x for x in walk_no_nested(rd.node) if isinstance(x, ast.Return) and isinstance(x.value, ast.Tuple)]
    chk.ob("R01.4", "SFile.read::header-returned-by-copy", len(rets) == 1 and norm(rets[0].value.elts[1]) == "copy.deepcopy(self._hdr)", rd.where(), "read(header=True) returns a deep copy of the stored header")


def front_ends(chk, repo):
    table = [
        ("esutil.sfile.write", "SFile", {0: "outfile"}), ("esutil.sfile.write", "write", {0: "data", "header": "header"}),
        ("esutil.sfile.read", "SFile", {0: "filename"}), ("esutil.sfile.read_header", "SFile", {0: "filename"}),
        ("esutil.sfile.SFile.write", "_write_header", {0: "data", "header": "header"}), ("esutil.sfile.SFile.write", "write", {0: "data"}),
        ("esutil.recfile.Util.write", "Recfile", {0: "filename", "mode": "mode"}), ("esutil.recfile.Util.write", "write", {0: "data"}),
        ("esutil.recfile.Util.read", "Recfile", {0: "filename", "dtype": "dtype", "mode": "'r'"}),
        ("esutil.recfile.Util.Recfile.write", "Write", {0: "dataview"}),
        ("esutil.io.write_rec", "write", {0: "data", 1: "fileobj"}),
        ("esutil.io.read_rec_plain", "Recfile", {0: "fileobj"}),
    ]
    for q, callee, roles in table:
        fi = repo.func(q)
        chk.analysed_unit(q)
        calls = [c for c in walk_no_nested(fi.node) if isinstance(c, ast.Call) and call_name(c) == callee]
        if not calls:
            chk.ob("R01.5", "%s->%s::present" % (q, callee), False, fi.where(), "expected call to %s not found" % callee)
            continue
        okany = False
        for c in calls:
            bad = []
            for role, want in roles.items():
                got = norm(c.args[role]) if isinstance(role, int) and role < len(c.args) else (norm(kwarg(c, role)) if not isinstance(role, int) and kwarg(c, role) is not None else None)
                if got != want:
                    bad.append("%s=%s (want %s)" % (role, got, want))
            okany = okany or not bad
        chk.ob("R01.5", "%s->%s::roles" % (q, callee), okany, fi.where(), "%s calls %s with %s" % (fi.name, callee, roles))
    sw = repo.func("esutil.sfile.write")
    swap = [norm(a) for a in walk_no_nested(sw.node) if isinstance(a, ast.Assign) and isinstance(a.targets[0], ast.Tuple)]
    cfg = cfg_of(sw)
    n = [x for x in cfg.nodes if x.kind == "stmt" and isinstance(x.ast, ast.Assign) and isinstance(x.ast.targets[0], ast.Tuple)]
    ok = [w.replace("(", "").replace(")", "") for w in swap] == ["outfile, data = data, outfile"] and rules.controlling_tests(cfg.view(), n[0])[:1] == [("isinstance(outfile, np.ndarray)", "T")]
    chk.ob("R01.5", "sfile.write::argument-swap-branch", ok, sw.where(), "write(data, file) is accepted by swapping exactly when the first argument is an array")
    ior = repo.func("esutil.io.read")
    iow = repo.func("esutil.io.write")
    for f, callee in ((ior, "read_rec"), (iow, "write_rec")):
        cfg = cfg_of(f)
        hits = [(norm(c), rules.controlling_tests(cfg.view(), n)[:1]) for n in cfg.nodes for c in rules.stmts_calls(n) if call_name(c) == callee]
        want = "%s(fobj, **keywords)" % callee if callee == "read_rec" else "%s(fobj, data, **keywords)" % callee
        ok = len(hits) == 1 and hits[0][0] == want and hits[0][1] == [("type == 'rec'", "T")]
        chk.ob("R01.5", "io.%s::rec-dispatch" % f.name, ok, f.where(), "type 'rec' dispatches to %s (%s)" % (want, hits))
    rr = repo.func("esutil.io.read_rec")
    chk.analysed_unit(rr.qualname)
    calls = [norm(c) for c in walk_no_nested(rr.node) if isinstance(c, ast.Call) and dotted_name(c.func) == "sfile.read"]
    ok = len(calls) == 2 and all("fileobj" in c and "rows=rows" in c and "columns=columns" in c and "fields=fields" in c and "header=header" in c for c in calls)
    chk.ob("R01.5", "io.read_rec::forwards-selection", ok, rr.where(), "read_rec forwards file, header=, rows=, fields=, columns= to sfile.read")
    cfg = cfg_of(rr)
    tn = [(n, rules.controlling_tests(cfg.view(), n)[:1]) for n in cfg.nodes for c in rules.stmts_calls(n) if call_name(c) == "to_native"]
    chk.ob("R01.5", "io.read_rec::byte-order-kept-unless-asked", len(tn) == 1 and tn[0][1] == [("ensure_native", "T")], rr.where(), "the byte order read from the file is changed only when ensure_native is requested")


# ---------------------------------------------------------------------------
def row_count(chk, repo):
    """R01.6: when the row count of a binary file is not given it is (file size - data offset) // row size: a header-bearing file
    read through the plain record reader (recfile.read / io.read with dtype= and offset=) must not count its header as rows"""
    from vcheck.rules import cfg_of
    from vcheck import rules
    fi = repo.func("esutil.recfile.Util.Recfile._count_nrows")
    chk.analysed_unit(fi.qualname)
    cfg = cfg_of(fi)
    view = cfg.view()
    env = {}
    for x in sorted([a for a in walk_no_nested(fi.node) if isinstance(a, ast.Assign) and len(a.targets) == 1 and isinstance(a.targets[0], ast.Name)], key=lambda a: a.lineno):
        env.setdefault(x.targets[0].id, []).append(x)

    def expand(e, depth=0):
        """substitute single-definition locals (one level at a time, bounded)"""
        if depth > 4:
            return e
        if isinstance(e, ast.Name) and len(env.get(e.id, [])) == 1:
            return expand(env[e.id][0].value, depth + 1)
        if isinstance(e, ast.BinOp):
            return ast.BinOp(left=expand(e.left, depth + 1), op=e.op, right=expand(e.right, depth + 1))
        return e
    rets = [n for n in rules.return_nodes(cfg)]
    rv = norm(rets[0].ast.value) if len(rets) == 1 and rets[0].ast.value is not None else None
    cands = []
    for n in cfg.nodes:
        if n.kind == "stmt" and isinstance(n.ast, ast.Assign) and norm(n.ast.targets[0]) == rv and isinstance(n.ast.value, ast.BinOp) and isinstance(n.ast.value.op, ast.FloorDiv):
            ts = dict(rules.controlling_tests(view, n))
            if ts.get("self.delim is not None") == "F" or ts.get("self.delim is None") == "T":
                cands.append(n)
    ok = len(cands) == 1
    chk.ob("R01.6", "_count_nrows::binary-arm-found", ok, fi.where(), "the binary arm derives the row count by an integer division")
    if not ok:
        return
    n = cands[0]
    num = expand(n.ast.value.left)
    den = expand(n.ast.value.right)
    okd = norm(den) == "self.dtype.itemsize"
    okn = isinstance(num, ast.BinOp) and isinstance(num.op, ast.Sub) and norm(num.right) == "self.offset"
    size_ok = False
    if okn:
        sz = num.left
        if isinstance(sz, ast.Call) and call_name(sz) == "tell":
            seeks = [m for m in cfg.nodes if m.kind == "stmt" and any(call_name(c) == "seek" and len(c.args) == 2 and norm(c.args[0]) == "0" and norm(c.args[1]) in ("2", "os.SEEK_END")
                                                                     and norm(c.func.value) == norm(sz.func.value) for c in rules.stmts_calls(m))]
            tell_node = next((m for m in cfg.nodes if m.kind == "stmt" and any(c is sz for c in rules.stmts_calls(m))), None)
            if tell_node is None:
                tell_node = next((m for m in cfg.nodes if m.kind == "stmt" and isinstance(m.ast, ast.Assign) and len(env.get(norm(m.ast.targets[0]), [])) == 1
                                  and any(call_name(c) == "tell" for c in rules.stmts_calls(m))), None)
            size_ok = bool(seeks) and tell_node is not None and any(view.dominates(sk, tell_node) for sk in seeks)
        elif isinstance(sz, ast.Call) and call_name(sz) in ("getsize",):
            size_ok = norm(sz.args[0]) == "self.filename"
        elif isinstance(sz, ast.Attribute) and sz.attr == "st_size":
            size_ok = True
    chk.ob("R01.6", "_count_nrows::rows-are-(size-offset)//rowsize", bool(okd and okn and size_ok), fi.where(n.ast),
           "row count = (size of the file - self.offset) // self.dtype.itemsize with the size taken at end of file (found `%s // %s`)" % (norm(num), norm(den)))
