"""C17 -- Gauss-Legendre rules and the integrators that use them."""
import ast

import sympy as sp

from vcheck import cfront, csymx, rules, symx
from vcheck.core import PyRepo, AnalysisError, call_name, dotted_name, kwarg, norm, walk_no_nested
from vcheck.cstr import parse_tuple_format
from vcheck.ceffects import parse_tuple_binding
from vcheck.rules import cfg_of

MANIFEST = dict(
    text="Structural and formula rules (not numerical testing): (1) reaching definitions on the C control-flow graph decide that a "
         "variable initialised to the constant 0 cannot reach a divisor through a path on which its defining loop runs zero times "
         "(the n = 1 weight); (2) the two copies of the node/weight routine (standalone extension and cosmology library) agree "
         "statement by statement after lowering to terms; (3) each statement conforms to the textbook definitions: initial guess "
         "cos(pi (i-1/4)/(n+1/2)), Legendre recurrence, derivative identity, Newton step, mirrored fill (index sum n-1), weight "
         "2 xl/((1-z^2) P'^2), tolerance <= 1e-10; (4) the Python wrapper rejects npts <= 0 before the call and the parse format matches; "
         "(5) memo-key discipline of the integrator object: cached tables and their key are stored together, the recompute guard compares "
         "cached and requested key, nothing else writes them; (6) integrator formulas (affine map of the abscissae, weighted sum, "
         "prefactor, roles of the interpolation call) by symbolic normal forms; (7) symbolic shape inference of the tensor-product grid "
         "for nx != ny.",
    note="Not decided: Newton convergence for all n, exactness to degree 2n-1, agreement with an independent rule (numerical facts). "
         "Trusted: clang AST, numpy broadcasting/meshgrid semantics as modelled, sympy normaliser.",
    technique="static analysis: reaching definitions on a C CFG (zero-trip path rule), cross-copy sibling comparison, per-statement formula conformance, typestate/memo-key discipline, symbolic shape inference",
)

IU = "esutil.integrate.util."


# rules that keep their verdict however the code is laid out (decided by term equality, effect analysis or dominance over
# resolved calls); every other rule of this check is a template rule (vcheck.core.Check.obt)
SEMANTIC = ('R17.1', 'R17.2', 'R17.3', 'R17.5', 'R17.5r', 'R17.7')


def run(chk):
    repo = PyRepo()
    chk.set_templates(repo, semantic=SEMANTIC)
    chk.explanation = MANIFEST["text"]
    chk.trusted = ["clang 14 AST", "sympy normaliser", "numpy meshgrid/broadcast semantics (as modelled)"]
    chk.floor = 45
    cg = cfront.functions(cfront.load_tu("cgauleg")).get("PyCGauleg_cgauleg")
    cl = cfront.functions(cfront.load_tu("cosmolib")).get("gauleg")
    if cg is None or cl is None:
        raise AnalysisError("gauleg C anchors not found")
    chk.analysed_unit("PyCGauleg_cgauleg")
    chk.analysed_unit("cosmolib.c:gauleg")
    for name, fn, where in (("cgauleg", cg, "esutil/integrate/cgauleg_pywrap.c"), ("cosmolib.gauleg", cl, "esutil/cosmology/cosmolib.c")):
        zero_trip(chk, name, fn, where)
    siblings(chk, cg, cl)
    formulas(chk, cg, "cgauleg", "esutil/integrate/cgauleg_pywrap.c")
    wrapper(chk, repo, cg)
    memo(chk, repo)
    cached_tables_readonly(chk, repo)
    integrators(chk, repo)
    shapes(chk, repo)


# ---------------------------------------------------------------------------
def _divisor_vars(c):
    """variable names occurring in the right operand of a division inside expression c"""
    out = set()
    for x in cfront.walk(c):
        if x.get("kind") == "BinaryOperator" and x.get("opcode") == "/":
            for y in cfront.walk(x["inner"][1]):
                if y.get("kind") == "DeclRefExpr":
                    out.add(y.get("referencedDecl", {}).get("name"))
        if x.get("kind") == "CompoundAssignOperator" and x.get("opcode") == "/=":
            for y in cfront.walk(x["inner"][1]):
                if y.get("kind") == "DeclRefExpr":
                    out.add(y.get("referencedDecl", {}).get("name"))
    return out


def _zero_defs(cfg):
    """(node id, var) for definitions by the literal constant 0"""
    out = set()
    for n in cfg.nodes:
        if not isinstance(n.c, dict):
            continue
        for x in cfront.walk(n.c):
            if x.get("kind") == "VarDecl":
                init = [y for y in x.get("inner", []) if isinstance(y, dict) and y.get("kind")]
                if init and cfront.render(init[-1]) in ("0", "0.0", "0."):
                    out.add((n.id, x.get("name")))
            if x.get("kind") == "BinaryOperator" and x.get("opcode") == "=" and cfront.render(x["inner"][1]) in ("0", "0.0", "0."):
                l = cfront.strip(x["inner"][0])
                if l.get("kind") == "DeclRefExpr":
                    out.add((n.id, cfront.render(l)))
    return out


def zero_trip(chk, name, fn, where):
    cfg = cfront.CCFG(fn)
    view = cfg.view()
    IN, _ = view.reaching_defs()
    zd = _zero_defs(cfg)
    n_div = 0
    for n in cfg.nodes:
        if n.kind not in ("stmt", "return", "branch", "loop") or not isinstance(n.c, dict):
            continue
        for v in _divisor_vars(n.c):
            n_div += 1
            bad = [d for d in IN.get(n.id, {}).get(v, ()) if (d, v) in zd]
            chk.ob("R17.1", "%s::no-zero-initialised-divisor::%s@%s" % (name, v, cfront.render(n.c)[:40]), not bad, "%s:%s" % (where, n.lineno),
                   "divisor `%s` in `%s`%s" % (v, cfront.render(n.c)[:80], " is always assigned by the iteration first" if not bad else
                                              ": its initialisation to the constant 0 reaches this division on the path where the refinement loop runs zero times "
                                              "(first root already within tolerance of the start value, i.e. npts = 1), giving an infinite weight"))
    chk.ob("R17.1", name + "::divisions-examined", n_div >= 4, where, "%d divisor occurrences examined" % n_div)


def _assign_table(fn):
    out = []
    for lhs, rhs, node in csymx.stmt_rhs_table(fn, None):
        out.append((lhs, rhs))
    return out


def siblings(chk, cg, cl):
    def table(fn):
        rows = []
        for lhs, rhs in _assign_table(fn):
            if lhs in ("xarray", "warray", "x", "w", "npts", "output_tuple", "pi"):
                continue
            if rhs is None:
                continue
            rows.append((lhs, sp.simplify(rhs.subs(sp.Symbol("pi"), sp.pi))))
        return rows
    a, b = table(cg), table(cl)
    same = len(a) == len(b) and all(x[0] == y[0] and sp.simplify(x[1] - y[1]) == 0 for x, y in zip(a, b))
    chk.ob("R17.2", "gauleg-copies-agree", same, "esutil/cosmology/cosmolib.c",
           "the cosmology library's copy of the node/weight routine has the same %d assignments as the standalone extension%s"
           % (len(a), "" if same else ": first difference %s" % next(((x, y) for x, y in zip(a, b) if x[0] != y[0] or sp.simplify(x[1] - y[1]) != 0), (len(a), len(b)))))
    # loop structure agrees too (kinds of loops in order)
    def loops(fn):
        out = []
        for x in cfront.walk(cfront.body_of(fn)):
            k = x.get("kind")
            if k == "ForStmt":
                out.append((k, cfront.render(x["inner"][2]).replace("npts_long", "npts")))
            elif k == "WhileStmt":
                out.append((k, cfront.render(x["inner"][0])))
            elif k == "DoStmt":
                out.append((k, cfront.render(x["inner"][-1])))
        return out
    chk.ob("R17.2", "gauleg-copies-same-loop-structure", loops(cg) == loops(cl), "esutil/cosmology/cosmolib.c", "loop nests agree (%s vs %s)" % (loops(cg), loops(cl)))


def formulas(chk, fn, name, where):
    rows = {}
    order = []
    for lhs, rhs in _assign_table(fn):
        if rhs is None:
            continue
        rows.setdefault(lhs, []).append(rhs.subs(sp.Symbol("pi"), sp.pi))
        order.append(lhs)
    S = {n: sp.Symbol(n) for n in ("x1", "x2", "npts", "i", "j", "z", "z1", "p1", "p2", "p3", "pp", "xm", "xl", "EPS")}
    npts = S["npts"]
    # the variable holding the point count is npts (possibly via npts_long)

    def has(lhs, ref, what):
        got = rows.get(lhs, [])
        ok = any(sp.simplify(g - ref) == 0 for g in got)
        chk.ob("R17.3", "%s::%s" % (name, what), ok, where, "%s: `%s` is %s (found %s)" % (what, lhs, ref, got))
    has("xm", (S["x1"] + S["x2"]) / 2, "interval midpoint")
    has("xl", (S["x2"] - S["x1"]) / 2, "interval half width")
    has("m", (npts + 1) / 2, "number of roots computed (half, rounded up)")
    has("z", sp.cos(sp.pi * (S["i"] - sp.Rational(1, 4)) / (npts + sp.Rational(1, 2))), "initial guess of root i")
    has("p1", ((2 * S["j"] - 1) * S["z"] * S["p2"] - (S["j"] - 1) * S["p3"]) / S["j"], "Legendre recurrence j P_j = (2j-1) z P_(j-1) - (j-1) P_(j-2)")
    has("pp", npts * (S["z"] * S["p1"] - S["p2"]) / (S["z"] ** 2 - 1), "derivative identity P_n' = n (z P_n - P_(n-1))/(z^2-1)")
    has("z", S["z1"] - S["p1"] / S["pp"], "Newton step")
    has("x[(i - 1)]", S["xm"] - S["xl"] * S["z"], "lower abscissa")
    has("x[(((npts + 1) - i) - 1)]", S["xm"] + S["xl"] * S["z"], "mirrored abscissa (index sum n-1)")
    has("w[(i - 1)]", 2 * S["xl"] / ((1 - S["z"] ** 2) * S["pp"] ** 2), "weight 2 xl/((1-z^2) P_n'^2)")
    got = rows.get("w[(((npts + 1) - i) - 1)]", [])
    chk.ob("R17.3", name + "::mirrored weight", any(str(g) == "w(i - 1)" for g in got), where, "the mirrored weight equals the lower one (found %s)" % got)
    has("p1", sp.Integer(1), "recurrence start P_0 = 1")
    has("p2", sp.Integer(0), "recurrence start P_(-1) = 0")
    eps = rows.get("EPS", [])
    chk.ob("R17.3", name + "::tolerance", len(eps) == 1 and eps[0].is_number and 0 < eps[0] <= sp.Rational(1, 10 ** 10), where, "Newton tolerance EPS <= 1e-10 (found %s)" % eps)
    # the Newton iteration stops only when the step is below the tolerance itself (not a multiple of it that grows with n)
    nl = [x for x in cfront.walk(cfront.body_of(fn)) if x.get("kind") in ("DoStmt", "WhileStmt")]
    okc = False
    ctext = None
    if len(nl) == 1:
        cond = nl[0]["inner"][-1] if nl[0]["kind"] == "DoStmt" else nl[0]["inner"][0]
        c = cfront.strip(cond)
        ctext = cfront.render(c)
        if c.get("kind") == "BinaryOperator" and c.get("opcode") in (">", ">="):
            lhs, rhs = cfront.render(c["inner"][0]), cfront.strip(c["inner"][1])
            step = rows.get(lhs, [])
            is_step = any(sp.simplify(g - sp.Abs(S["z"] - S["z1"])) == 0 for g in step) if step else cfront.render(c["inner"][0]).replace(" ", "") in ("fabs((z-z1))", "fabs(z-z1)")
            okc = is_step and (cfront.render(rhs) == "EPS" or (rhs.get("kind") == "FloatingLiteral" and 0 < float(rhs.get("value")) <= 1e-10))
    chk.ob("R17.3", name + "::newton-stops-at-tolerance", okc, where, "the root refinement repeats while |z - z1| > EPS, the plain tolerance (found `%s`)" % ctext)
    # shift order inside the recurrence loop: p3 = p2; p2 = p1; p1 = ...
    inner = [x for x in cfront.walk(cfront.body_of(fn)) if x.get("kind") == "ForStmt"]
    seq = []
    if len(inner) >= 2:
        body = inner[-1]["inner"][-1]
        seq = [cfront.render(s["inner"][0]) for s in body.get("inner", []) if s.get("kind") == "BinaryOperator"]
        test = cfront.render(inner[-1]["inner"][2])
        chk.ob("R17.3", name + "::recurrence-range", test == "(j <= npts)" and cfront.render(inner[-1]["inner"][0]) == "(j = 1)", where, "the recurrence runs j = 1..npts (degree n polynomial)")
    chk.ob("R17.3", name + "::recurrence-shift-order", seq == ["p3", "p2", "p1"], where, "previous values are shifted before the new one is formed (%s)" % seq)
    outer = inner[0] if inner else None
    if outer is not None:
        chk.ob("R17.3", name + "::root-loop-range", cfront.render(outer["inner"][0]) == "(i = 1)" and cfront.render(outer["inner"][2]) == "(i <= m)", where, "roots i = 1..m are computed and mirrored")
    # z1 remembers the previous iterate before the Newton step
    zi = [i for i, l in enumerate(order) if l == "z1"]
    chk.ob("R17.3", name + "::previous-iterate-saved", any(str(r) == "z" for r in rows.get("z1", [])), where, "z1 = z is saved before the Newton step (convergence test uses |z - z1|)")


def wrapper(chk, repo, cg):
    fmt, names = parse_tuple_binding(cg)
    chk.ob("R17.4", "cgauleg::parse-format", parse_tuple_format(fmt or "") == ["d", "d", "l"] and names == ["x1", "x2", "npts_long"], "esutil/integrate/cgauleg_pywrap.c", "PyArg_ParseTuple %r binds (x1, x2, npts) as double, double, long (%s)" % (fmt, names))
    fi = repo.func(IU + "gauleg")
    chk.analysed_unit(fi.qualname)
    cfg = cfg_of(fi)
    view = cfg.view()
    calls = [(n, c) for n in cfg.nodes for c in rules.stmts_calls(n) if dotted_name(c.func) == "_cgauleg.cgauleg"]
    ok = len(calls) == 1 and [norm(a) for a in calls[0][1].args] == ["x1", "x2", "npts"]
    chk.ob("R17.4", "gauleg::call-roles", ok, fi.where(), "the extension is called with (x1, x2, npts)")
    guards = [n for n in rules.raise_nodes(cfg) if ("npts <= 0", "T") in rules.controlling_tests(view, n)]
    okg = bool(guards) and bool(calls)
    if okg:
        b = view.controlling_branches(guards[0])[0][0]
        okg = view.dominates(b, calls[0][0])
    chk.ob("R17.4", "gauleg::nonpositive-count-rejected", okg, fi.where(), "npts <= 0 raises and that test dominates the extension call")
    rets = [x for x in walk_no_nested(fi.node) if isinstance(x, ast.Return)]
    asg = [x for x in walk_no_nested(fi.node) if isinstance(x, ast.Assign) and isinstance(x.value, ast.Call) and dotted_name(x.value.func) == "_cgauleg.cgauleg"]
    chk.ob("R17.4", "gauleg::returns-x-w", len(rets) == 1 and norm(rets[0].value) == "(x, w)" and len(asg) == 1 and norm(asg[0].targets[0]) == "(x, w)", fi.where(), "the (abscissae, weights) pair is returned as produced")


def cached_tables_readonly(chk, repo):
    """R17.5r: the node/weight tables kept on the object are never modified by the integrators (a later call would silently use the
    rescaled grid of an earlier one); decided by the alias/effect analysis with each table as a caller-owned root"""
    from vcheck import effects
    from checks.C15 import analyse_attr_root
    eng = effects.Effects(repo, {})
    for cls, tables, methods in (("QGauss", ("self.xxi", "self.wii"), ("integrate_func", "integrate_data", "integrate")),
                                 ("QGauss2", ("self.xgrid", "self.ygrid", "self.wgrid"), ("integrate_func",))):
        for m in methods:
            fi = repo.func(IU + "%s.%s" % (cls, m))
            for attr in tables:
                s = analyse_attr_root(eng, fi, attr)
                sites = [st for st in s.mut.get(attr, []) if st.kind in ("data", "meta")]
                chk.ob("R17.5r", "%s.%s::%s-not-modified" % (cls, m, attr), not sites, sites[0].where() if sites else fi.where(),
                       "the cached table %s is only read%s" % (attr, "" if not sites else ": " + sites[0].describe()))


def memo(chk, repo):
    fi = repo.func(IU + "QGauss.setup")
    chk.analysed_unit(fi.qualname)
    cfg = cfg_of(fi)
    view = cfg.view()
    stores = {}
    for n in cfg.nodes:
        a = n.ast
        if n.kind == "stmt" and isinstance(a, ast.Assign):
            for t in (a.targets[0].elts if isinstance(a.targets[0], ast.Tuple) else [a.targets[0]]):
                stores[norm(t)] = (n, norm(a.value), rules.controlling_tests(view, n))
    key = stores.get("self.npts")
    tabs = [stores.get("self.xxi"), stores.get("self.wii")]
    ok = key is not None and all(t is not None for t in tabs)
    chk.ob("R17.5", "QGauss.setup::key-and-tables-stored", ok, fi.where(), "setup stores the key (self.npts) and both tables")
    if ok:
        same = all(t[2] == key[2] for t in tabs)
        chk.ob("R17.5", "QGauss.setup::stored-together", same, fi.where(), "key and tables are written under the same conditions: %s" % (key[2],))
        g = [t for t, lab in key[2]]
        chk.ob("R17.5", "QGauss.setup::recompute-guard-compares-keys", "self.npts != npts" in g and "npts is not None" in g, fi.where(), "tables are recomputed exactly when a count is requested that differs from the cached key")
        chk.ob("R17.5", "QGauss.setup::tables-from-key", tabs[0][1] in ("gauleg(-1.0, 1.0, self.npts)", "gauleg(-1.0, 1.0, npts)") and key[1] == "npts", fi.where(), "the tables are the rule on [-1,1] for the stored count (%s)" % tabs[0][1])
        chk.ob("R17.5", "QGauss.setup::key-before-tables-or-same-value", view.dominates(key[0], tabs[0][0]) or tabs[0][1].endswith(", npts)"), fi.where(), "the count used for the tables is the requested one")
    # no other writer of the cached state
    writers = {}
    for q, f in repo.funcs.items():
        if q.startswith(IU + "QGauss."):
            for a in walk_no_nested(f.node):
                if isinstance(a, ast.Assign):
                    for t in (a.targets[0].elts if isinstance(a.targets[0], ast.Tuple) else [a.targets[0]]):
                        if norm(t) in ("self.npts", "self.xxi", "self.wii"):
                            writers.setdefault(norm(t), set()).add(f.name)
    ok = all(w <= {"__init__", "setup"} for w in writers.values()) and set(writers) == {"self.npts", "self.xxi", "self.wii"}
    chk.ob("R17.5", "QGauss::who-may-write-the-cache", ok, fi.where(), "only the constructor (to None) and setup write the cached key/tables (%s)" % {k: sorted(v) for k, v in writers.items()})
    init = repo.func(IU + "QGauss.__init__")
    iv = {norm(a.targets[0]): norm(a.value) for a in walk_no_nested(init.node) if isinstance(a, ast.Assign)}
    chk.ob("R17.5", "QGauss.__init__::starts-empty", iv.get("self.npts") == "None" and iv.get("self.xxi") == "None", init.where(), "a new object has no cached rule")
    for m in ("integrate_func", "integrate_data"):
        f = repo.func(IU + "QGauss." + m)
        cfgm = cfg_of(f)
        vm = cfgm.view()
        su = [n for n in cfgm.nodes for c in rules.stmts_calls(n) if norm(c) == "self.setup(npts=npts)"]
        uses = [n for n in cfgm.nodes if n.ast is not None and n.kind in ("stmt", "return") and any(norm(x) in ("self.xxi", "self.wii") for x in ast.walk(n.ast) if isinstance(x, ast.Attribute))]
        ok = len(su) == 1 and bool(uses) and all(vm.dominates(su[0], u) for u in uses)
        chk.ob("R17.5", "QGauss.%s::setup-dominates-table-use" % m, ok, f.where(), "setup(npts=npts) runs before the tables are used in every call")
    ig = repo.func(IU + "QGauss.integrate")
    rets = {norm(x.value) for x in walk_no_nested(ig.node) if isinstance(x, ast.Return)}
    chk.ob("R17.5", "QGauss.integrate::forwards-npts", rets == {"self.integrate_func(xvals, yvals_or_func, npts)", "self.integrate_data(xvals, yvals_or_func, npts)"}, ig.where(), "integrate forwards (x, y-or-function, npts) to the matching integrator")
    qg = repo.func(IU + "qgauss")
    env = [norm(x) for x in walk_no_nested(qg.node) if isinstance(x, (ast.Assign, ast.Return))]
    chk.ob("R17.5", "qgauss::one-shot", env == ["qg = QGauss(npts)", "return qg.integrate(x, y)"], qg.where(), "qgauss(x, y, npts) is QGauss(npts).integrate(x, y)")


def integrators(chk, repo):
    SUM = sp.Function("SUM")
    xxi, wii, a, b, func = symx.symbols("xxi", "wii", "a", "b", "func")
    fi = repo.func(IU + "QGauss.integrate_func")
    chk.analysed_unit(fi.qualname)
    se = symx.SymEval(repo, opaque_tests=False)
    se.assume = {"text:self.npts is None": False, "text:len(xvals) != 2": False}
    r = se.run(fi, {"self": symx.Opaque("self"), "xvals": [a, b], "func": func, "self.xxi": xxi, "self.wii": wii, "self.npts": sp.Symbol("n")}, {})
    f1, f2 = (b - a) / 2, (b + a) / 2
    ref = f1 * SUM(sp.Function("func")(xxi * f1 + f2) * wii)
    eq = isinstance(r, sp.Basic) and symx.equal(r, ref)[0]
    chk.ob("R17.6", "integrate_func::formula", bool(eq), fi.where(), "result is (b-a)/2 * sum(w_i f((b-a)/2 x_i + (a+b)/2)) (found %s)" % r)
    fi = repo.func(IU + "QGauss.integrate_data")
    chk.analysed_unit(fi.qualname)
    xs, ys = symx.symbols("xs", "ys")
    se = symx.SymEval(repo, opaque={"esutil.stat.util.interplin"}, opaque_tests=False)
    se.assume = {"text:self.npts is None": False}
    r = se.run(fi, {"self": symx.Opaque("self"), "xvals": xs, "yvals": ys, "self.xxi": xxi, "self.wii": wii, "self.npts": sp.Symbol("n")}, {})
    lo, hi = sp.Function("MIN")(xs), sp.Function("MAX")(xs)
    f1, f2 = (hi - lo) / 2, (hi + lo) / 2
    ref = f1 * SUM(sp.Function("interplin")(ys, xs, xxi * f1 + f2) * wii)
    eq = isinstance(r, sp.Basic) and symx.equal(r, ref)[0]
    chk.ob("R17.6", "integrate_data::formula", bool(eq), fi.where(), "result is the weighted sum of the linearly interpolated data interplin(values=y, abscissae=x, at=mapped nodes) over [min x, max x] (found %s)" % r)
    fi = repo.func(IU + "QGauss2.integrate_func")
    chk.analysed_unit(fi.qualname)
    xg, yg, wg, c, d = symx.symbols("xg", "yg", "wg", "c", "d")
    se = symx.SymEval(repo, opaque_tests=False)
    se.assume = {"text:len(xrng) != 2 or len(yrng) != 2": False}
    r = se.run(fi, {"self": symx.Opaque("self"), "xrng": [a, b], "yrng": [c, d], "func": func, "self.xgrid": xg, "self.ygrid": yg, "self.wgrid": wg}, {})
    xf1, xf2, yf1, yf2 = (b - a) / 2, (b + a) / 2, (d - c) / 2, (d + c) / 2
    ref = xf1 * yf1 * SUM(sp.Function("func")(xg * xf1 + xf2, yg * yf1 + yf2) * wg)
    eq = isinstance(r, sp.Basic) and symx.equal(r, ref)[0]
    chk.ob("R17.6", "QGauss2.integrate_func::formula", bool(eq), fi.where(), "tensor-product sum with both affine maps and the product prefactor (found %s)" % r)


def shapes(chk, repo):
    """symbolic shape inference for QGauss2._setup (E12)"""
    fi = repo.func(IU + "QGauss2._setup")
    chk.analysed_unit(fi.qualname)
    nx, ny = sp.symbols("nx ny", positive=True, integer=True)
    shp = {}
    issues = []

    def bc(a, b, where):
        """broadcast two symbolic shapes (right aligned)"""
        n = max(len(a), len(b))
        a = (1,) * (n - len(a)) + tuple(a)
        b = (1,) * (n - len(b)) + tuple(b)
        out = []
        for x, y in zip(a, b):
            if x == y:
                out.append(x)
            elif x == 1:
                out.append(y)
            elif y == 1:
                out.append(x)
            else:
                issues.append((where, "cannot broadcast axis lengths %s and %s (shapes %s and %s) unless nx == ny" % (x, y, a, b)))
                out.append(x)
        return tuple(out)

    def shape_of(e):
        if isinstance(e, ast.Name):
            return shp.get(e.id)
        if isinstance(e, ast.Attribute):
            return shp.get(norm(e))
        if isinstance(e, ast.Call) and call_name(e) in ("ones", "zeros") and e.args and isinstance(e.args[0], ast.Tuple):
            return tuple({"nx": nx, "ny": ny}.get(norm(x), sp.Symbol(norm(x))) for x in e.args[0].elts)
        if isinstance(e, ast.Subscript) and isinstance(e.slice, ast.Tuple):
            base = shape_of(e.value)
            if base is None:
                return None
            out = []
            it = iter(base)
            for s in e.slice.elts:
                if isinstance(s, ast.Name) and s.id == "newaxis" or (isinstance(s, ast.Constant) and s.value is None):
                    out.append(1)
                elif isinstance(s, ast.Slice):
                    out.append(next(it))
            return tuple(out)
        if isinstance(e, ast.BinOp):
            a, b = shape_of(e.left), shape_of(e.right)
            if a is None or b is None:
                return a or b
            return bc(a, b, fi.where(e))
        return None

    for st in walk_no_nested(fi.node):
        if not isinstance(st, ast.Assign):
            continue
        t, v = st.targets[0], st.value
        if isinstance(v, ast.Call) and call_name(v) == "gauleg" and isinstance(t, ast.Tuple):
            n = {"nx": nx, "ny": ny}.get(norm(v.args[2]))
            for e in t.elts:
                shp[norm(e)] = (n,)
        elif isinstance(v, ast.Call) and call_name(v) == "meshgrid" and isinstance(t, ast.Tuple) and len(v.args) == 2:
            a, b = shape_of(v.args[0]), shape_of(v.args[1])
            ij = kwarg(v, "indexing") is not None and norm(kwarg(v, "indexing")) == "'ij'"
            if a and b:
                g = (a[0], b[0]) if ij else (b[0], a[0])
                for e in t.elts:
                    shp[norm(e)] = g
        elif isinstance(t, (ast.Name, ast.Attribute)):
            s = shape_of(v)
            if s is not None:
                shp[norm(t)] = s
    chk.notes["QGauss2_shapes"] = {k: str(v) for k, v in shp.items()}
    grid = shp.get("self.xgrid")
    wg = shp.get("self.wgrid")
    chk.ob("R17.7", "QGauss2._setup::shapes-inferred", grid is not None and wg is not None, fi.where(), "shapes inferred: grid %s, weights %s" % (grid, wg))
    for where, txt in issues:
        chk.ob("R17.7", "QGauss2._setup::weight-grid-broadcast", False, where, "building the weight grid: %s; QGauss2(nx, ny) with nx != ny fails" % txt)
    if not issues:
        chk.ob("R17.7", "QGauss2._setup::weight-grid-broadcast", True, fi.where(), "weight grids broadcast for nx != ny")
    if grid is not None and wg is not None:
        chk.ob("R17.7", "QGauss2._setup::weights-match-grid", tuple(grid) == tuple(wg), fi.where(), "the weight grid has the shape of the abscissa grids (%s vs %s): zvals * wgrid is an element-wise product" % (wg, grid))
    # wx varies along the x axis of the grid, wy along y
    env = {norm(a.targets[0]): norm(a.value) for a in walk_no_nested(fi.node) if isinstance(a, ast.Assign)}
    chk.ob("R17.7", "QGauss2._setup::tensor-product", env.get("self.wgrid") == "wxgrid * wygrid" and "wx[" in env.get("wxgrid", "") and "wy[" in env.get("wygrid", ""), fi.where(), "weights are the tensor product wx (x) wy")
