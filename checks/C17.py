"""C17 -- Gauss-Legendre rules and the integrators that use them."""
import ast
import copy as _copy

import sympy as sp

from vcheck import cfront, csymx, rules, symx
from vcheck.core import PyRepo, AnalysisError, call_name, const_value, dotted_name, kwarg, norm, walk_no_nested
from vcheck.cstr import parse_tuple_format
from vcheck.ceffects import parse_tuple_binding
from vcheck.rules import cfg_of

MANIFEST = dict(
    text="Structural and formula rules (not numerical testing): (1) reaching definitions on the C control-flow graph (error-exit goto and "
         "helper functions that assign through pointer arguments included) decide that a variable initialised to the constant 0 - or a "
         "product with such a factor - cannot reach a divisor through a path on which its defining loop runs zero times (the n = 1 weight); "
         "(2) the two copies of the node/weight routine (standalone extension and cosmology library) have the same normal form: structured "
         "symbolic execution turns each into a loop tree with, per loop, the entry values and one-pass state transformer of the variables it "
         "carries, its condition and its element stores (named temporaries substituted, file-static helpers executed in line, pointers that "
         "step through one array kept as offsets, loop counters re-based to 1 and variables stepped by a constant replaced by their closed form, "
         "integer division and integer `<` modelled as such; the output arrays named by their role -- data of the array objects returned as tuple "
         "items 0 / 1, or the library's array parameters; pointer parameters of helpers followed to the caller's array; consecutive counted loops "
         "over one range run as one loop when an affine dependence test shows that no pass is overtaken; file-scope constants read as their "
         "value; an element stored on the arms of an if holds a Piecewise over the condition, compared arm by arm with the equations of the "
         "arm's condition substituted); the two normal forms agree when some one-to-one renaming of their loop-carried variables makes them equal; "
         "(3) the normal form conforms to the textbook definitions (roles assigned to variables by the loops that carry them, not by name): initial guess cos(pi (i-1/4)/(n+1/2)), Legendre recurrence, derivative "
         "identity, Newton step, mirrored fill (index sum n-1), weight 2 xl/((1-z^2) P'^2), tolerance <= 1e-10; (4) the Python wrapper rejects "
         "npts <= 0 before the call and the parse format matches; (5) memo-key discipline of the integrator object: cached tables and their key "
         "are stored under equivalent path conditions, the recompute guard is equivalent to 'a count is requested and differs from the cached key', "
         "setup runs (directly or through a method) before any use of the tables, nothing else writes them; the tables are traced to the gauleg call "
         "that made them through helpers and module-level memo dictionaries by an abstract evaluation over reaching definitions (every writer of "
         "such a dictionary must store the rule of its key); any other attribute the object keeps that is computed from the tables (found by "
         "data flow over reaching definitions) is re-bound in every call before it is read, or written by setup whenever the tables are, or "
         "reused only under a comparison with the cached count / stored under a key that contains it; (6) integrator formulas (affine map "
         "of the abscissae, weighted sum, prefactor, roles of the interpolation call) by symbolic normal forms, and with both arms of every test "
         "followed: a return (or value) selected by a threshold test on the inputs must agree with the general one under the test's condition; "
         "(7) symbolic shape and element (reshape: row-major index arithmetic) "
         "inference of the tensor-product grid for nx != ny (which weight sits at which grid point) and of the element the two-dimensional integrator "
         "sums (weights wx[p] wy[q], integrand at both mapped abscissae, prefactor), wherever the affine maps are applied; (8) value preservation on the data path: "
         "reaching definitions follow each input of the linear interpolation through array conversions to the segment search and the formula, "
         "and every conversion there and in the integrators (which the symbolic evaluator reads as the identity) must be value preserving "
         "for every input dtype (no narrowing, no rounding, no dtype borrowed from another array); every index used to look up the abscissa "
         "and value tables depends on the query points only through an ordered search of the table, shifted by constants and clamped "
         "(an index computed by arithmetic selects the bracketing segment for evenly spaced tables only), and -- by abstract interpretation of the "
         "routine with the table size N symbolic, the index kept as min(H, max(L, search result + c)) -- the clamp leaves every segment selectable "
         "(lower end: c = -1, L <= 0, H >= N-2; upper end: c = 0, L <= 1, H >= N-1); (9) the dispatch of integrate is evaluated for each documented "
         "kind of second argument (plain function, bound method, array / list / tuple) with every type test read as a predicate on the kind; rules "
         "the object files for later calls (self.D[k] = rule) are filed under their own count (key and count brought to a normal form over the "
         "parameters and the attribute values on entry); (10) the weights are summed by a total sum of (integrand value * weights): in the "
         "returned term no shape-dependent contraction (dot / inner / matmul / vdot / einsum / tensordot) joins the weights to a value whose shape is "
         "that of whatever the caller's integrand returns (a scalar for the constant integrand); (11) origin analysis over reaching definitions "
         "and helper summaries: no object gauleg returns is a module-level / memoised (functools.lru_cache) object handed out without a copy.",
    note="Not decided: Newton convergence for all n, exactness to degree 2n-1, agreement with an independent rule (numerical facts). "
         "Trusted: clang AST, numpy broadcasting/meshgrid semantics as modelled, sympy normaliser.",
    technique="static analysis: reaching definitions on a C CFG (zero-trip path rule), cross-copy sibling comparison, per-statement formula conformance, typestate/memo-key discipline, symbolic shape inference",
)

IU = "esutil.integrate.util."


# rules that keep their verdict however the code is laid out (decided by term equality, effect analysis or dominance over
# resolved calls); every other rule of this check is a template rule (vcheck.core.Check.obt)
SEMANTIC = ('R17.1', 'R17.2', 'R17.3', 'R17.4::gauleg::hands-out', 'R17.5', 'R17.5r', 'R17.6::returns::', 'R17.7', 'R17.8')


def run(chk):
    repo = PyRepo()
    # for the rules that follow values through one function body (R17.6 formulas, R17.8 data paths): helpers the reviewed baseline
    # does not have are folded back into their callers first (vcheck.inline: done only when that is semantics preserving), so that
    # a value is followed through an extracted helper.  The other rules follow calls themselves and look at the code as written.
    folded = PyRepo(inline=True)
    chk.set_templates(repo, semantic=SEMANTIC)
    chk.explanation = MANIFEST["text"]
    chk.trusted = ["clang 14 AST", "sympy normaliser", "numpy meshgrid/broadcast semantics (as modelled)"]
    chk.floor = 45
    cg = cfront.functions(cfront.load_tu("cgauleg")).get("PyCGauleg_cgauleg")
    cl = cfront.functions(cfront.load_tu("cosmolib")).get("gauleg")
    if cg is None or cl is None:
        raise AnalysisError("gauleg C anchors not found")
    chk.analysed_unit("PyCGauleg_cgauleg")
    chk.analysed_unit("cosmolib.c:gauleg")
    units = (("cgauleg", "cgauleg", cg, "esutil/integrate/cgauleg_pywrap.c"), ("cosmolib.gauleg", "cosmolib", cl, "esutil/cosmology/cosmolib.c"))
    nf = {}
    for name, tu, fn, where in units:
        helpers = _helpers_of(tu, fn)
        for h in helpers:
            chk.analysed_unit("%s:%s" % (where.rsplit("/", 1)[1], h))
        zero_trip(chk, name, fn, where, helpers)
        # the three inputs: the variables PyArg_ParseTuple fills (extension) / the first three parameters (library)
        inputs = (parse_tuple_binding(fn)[1] if tu == "cgauleg" else cfront.params_of(fn))[:3]
        # the two outputs: the data of the array objects returned as (abscissae, weights) (extension) / parameters four and five (library)
        if tu == "cgauleg":
            objs = _returned_items(fn)
            arrays = {"DATA(%s)" % o: r for o, r in zip(objs, ("x", "w"))} if objs and len(objs) == 2 else {}
        else:
            arrays = dict(zip(cfront.params_of(fn)[3:5], ("x", "w")))
        try:
            nf[name] = _normal_form(fn, helpers, inputs, arrays, tu)
        except _NotModelled as e:
            nf[name] = None
            chk.notes["not_modelled_" + name] = str(e)
    siblings(chk, nf["cgauleg"], nf["cosmolib.gauleg"])
    formulas(chk, nf["cgauleg"], "cgauleg", "esutil/integrate/cgauleg_pywrap.c")
    wrapper(chk, repo, cg)
    memo(chk, repo)
    derived_state(chk, repo)
    kept_rules(chk, repo)
    cached_tables_readonly(chk, repo)
    ts = shapes(chk, repo)
    integrators(chk, folded, ts)
    value_preservation(chk, folded)


# ---------------------------------------------------------------------------
# C side: control-flow graph with the error-exit goto idiom, file-static helpers
# ---------------------------------------------------------------------------
class _CCFG(cfront.CCFG):
    """cfront.CCFG plus `goto label` / `label:` (edges to the labelled statement) and, for calls of helper functions whose body is
    known, the definitions made through `&v` arguments that the helper assigns on every path"""

    def __init__(self, decl, helpers=None):
        self._labels = {}
        self._pending = {}
        self.helpers = helpers or {}
        super().__init__(decl)
        if self._pending:
            raise AnalysisError("goto to an unknown label in %s" % self.name)

    def _stmt(self, st, preds):
        k = st.get("kind")
        if k == "LabelStmt":
            n = self._new("stmt", None, "label " + str(st.get("name")))
            self._connect(preds, n)
            lid = st.get("declId") or st.get("name")
            self._labels[lid] = n
            for g in self._pending.pop(lid, []):
                self._edge(g, n, "goto")
            inner = [x for x in (st.get("inner", []) or []) if isinstance(x, dict) and x.get("kind")]
            return self._stmt(inner[-1], [(n, None)]) if inner else [(n, None)]
        if k == "GotoStmt":
            n = self._new("stmt", st, "goto")
            self._connect(preds, n)
            lid = st.get("targetLabelDeclId")
            if lid in self._labels:
                self._edge(n, self._labels[lid], "goto")
            else:
                self._pending.setdefault(lid, []).append(n)
            return []
        return super()._stmt(st, preds)

    def defs_uses(self, n):
        if n.id in self._du:
            return self._du[n.id]
        d, u = super().defs_uses(n)
        d, u = list(d), list(u)
        if isinstance(n.c, dict):
            for c in cfront.walk(n.c):
                if c.get("kind") == "CallExpr" and cfront.callee_name(c) in self.helpers:
                    for v in _out_defs(self.helpers[cfront.callee_name(c)], c, self.helpers):
                        d.append(v)
        self._du[n.id] = (d, u)
        return d, u


def _addr_of_var(a):
    """name of v when the argument is `&v`"""
    s = cfront.strip(a)
    if s.get("kind") == "UnaryOperator" and s.get("opcode") == "&":
        t = cfront.strip(s["inner"][0])
        if t.get("kind") == "DeclRefExpr":
            return t.get("referencedDecl", {}).get("name")
    return None


def _deref_param(lhs):
    """name of the pointer p when the expression is `*p`"""
    s = cfront.strip(lhs)
    if s.get("kind") == "UnaryOperator" and s.get("opcode") == "*":
        t = cfront.strip(s["inner"][0])
        if t.get("kind") == "DeclRefExpr":
            return t.get("referencedDecl", {}).get("name")
    return None


_must_cache = {}


def _must_assign(helper, helpers):
    """parameters p of the helper such that `*p = ...` is executed on every path to its return"""
    key = id(helper)
    if key in _must_cache:
        return _must_cache[key]
    _must_cache[key] = set()
    out = set()
    try:
        cfg = _CCFG(helper, helpers)
    except AnalysisError:
        return out
    view = cfg.view()
    for p in cfront.params_of(helper):
        nodes = [n for n in cfg.nodes if isinstance(n.c, dict) and any(
            x.get("kind") == "BinaryOperator" and x.get("opcode") == "=" and _deref_param(x["inner"][0]) == p for x in cfront.walk(n.c))]
        if nodes and not view.path_exists_entry_to(cfg.exit, avoiding=nodes):
            out.add(p)
    _must_cache[key] = out
    return out


def _out_defs(helper, call, helpers):
    must = _must_assign(helper, helpers)
    out = []
    for p, a in zip(cfront.params_of(helper), cfront.call_args(call)):
        v = _addr_of_var(a)
        if v is not None and p in must:
            out.append(v)
    return out


def _helpers_of(tu, fn):
    """name -> decl of the functions with a body that `fn` (transitively) calls and that are defined in the same source file.
    The cgauleg translation unit is dumped with a name filter, so file-static helpers are fetched with a filter of their own."""
    import os
    import re
    from vcheck import core
    funcs = cfront.functions(cfront.load_tu(tu))
    out = {}
    todo = [fn]
    src = None
    while todo:
        f = todo.pop()
        for c in cfront.calls_in(f):
            nm = cfront.callee_name(c)
            if not nm or nm in out or nm == fn.get("name") or nm in csymx.MATH:
                continue
            d = funcs.get(nm)
            if d is None and cfront.TUS[tu].get("filt"):
                if src is None:
                    try:
                        src = open(os.path.join(core.REPO, cfront.TUS[tu]["path"]), encoding="utf-8", errors="replace").read()
                    except OSError:
                        src = ""
                if re.search(r"\b%s\s*\([^;{}()]*\)\s*\{" % re.escape(nm), src):
                    key = "%s@%s" % (tu, nm)
                    cfront.TUS.setdefault(key, dict(path=cfront.TUS[tu]["path"], cxx=cfront.TUS[tu]["cxx"], filt=nm, inc=list(cfront.TUS[tu]["inc"])))
                    d = cfront.functions(cfront.load_tu(key)).get(nm)
            if d is not None and cfront.has_body(d):
                out[nm] = d
                todo.append(d)
    return out


def _divisor_vars(c):
    """variable names occurring in the right operand of a division inside expression c"""
    out = set()
    for x in cfront.walk(c):
        if (x.get("kind") == "BinaryOperator" and x.get("opcode") == "/") or (x.get("kind") == "CompoundAssignOperator" and x.get("opcode") == "/="):
            for y in cfront.walk(x["inner"][1]):
                if y.get("kind") == "DeclRefExpr" and y.get("referencedDecl", {}).get("kind") in ("VarDecl", "ParmVarDecl"):
                    out.add(y.get("referencedDecl", {}).get("name"))
    return out


_ZERO = ("0", "0.0", "0.")


def _factors(n):
    """variables that are factors of the expression (a zero factor makes the whole value zero): u, -u, u*v, u/w (numerator), (u)"""
    n = cfront.strip(n)
    k = n.get("kind")
    if k == "DeclRefExpr":
        return [n.get("referencedDecl", {}).get("name")]
    if k == "UnaryOperator" and n.get("opcode") in ("-", "+"):
        return _factors(n["inner"][0])
    if k == "BinaryOperator" and n.get("opcode") == "*":
        return _factors(n["inner"][0]) + _factors(n["inner"][1])
    if k == "BinaryOperator" and n.get("opcode") == "/":
        return _factors(n["inner"][0])
    return []


def _var_defs(n):
    """(variable, defining expression) pairs of the plain definitions in a CFG node"""
    out = []
    if not isinstance(n.c, dict):
        return out
    for x in cfront.walk(n.c):
        if x.get("kind") == "VarDecl":
            init = [y for y in x.get("inner", []) if isinstance(y, dict) and y.get("kind")]
            if init and x.get("name"):
                out.append((x["name"], init[-1]))
        if x.get("kind") == "BinaryOperator" and x.get("opcode") == "=":
            l = cfront.strip(x["inner"][0])
            if l.get("kind") == "DeclRefExpr":
                out.append((cfront.render(l), x["inner"][1]))
    return out


def _zero_defs(cfg, IN):
    """(node id, var) for definitions whose value is the constant 0 by initialisation: the literal 0, or a product / copy with a
    factor whose zero definition reaches the statement"""
    out = set()
    # a variable handed as `&v` to a function whose body is not known (PyArg_ParseTuple) is an input: its initialiser is a placeholder
    inputs = set()
    for n in cfg.nodes:
        if isinstance(n.c, dict):
            for c in cfront.walk(n.c):
                if c.get("kind") == "CallExpr" and cfront.callee_name(c) not in getattr(cfg, "helpers", {}):
                    inputs |= {_addr_of_var(a) for a in cfront.call_args(c)} - {None}
    for n in cfg.nodes:
        for v, e in _var_defs(n):
            if cfront.render(e) in _ZERO and v not in inputs:
                out.add((n.id, v))
    changed = True
    while changed:
        changed = False
        for n in cfg.nodes:
            for v, e in _var_defs(n):
                if (n.id, v) in out:
                    continue
                if any((d, u) in out for u in _factors(e) for d in IN.get(n.id, {}).get(u, ())):
                    out.add((n.id, v))
                    changed = True
    return out


def zero_trip(chk, name, fn, where, helpers):
    n_div = 0
    for unit, f in [(name, fn)] + [("%s/%s" % (name, h), d) for h, d in sorted(helpers.items())]:
        cfg = _CCFG(f, helpers)
        view = cfg.view()
        IN, _ = view.reaching_defs()
        zd = _zero_defs(cfg, IN)
        for n in cfg.nodes:
            if n.kind not in ("stmt", "return", "branch", "loop") or not isinstance(n.c, dict):
                continue
            for v in sorted(_divisor_vars(n.c)):
                n_div += 1
                bad = [d for d in IN.get(n.id, {}).get(v, ()) if (d, v) in zd]
                chk.ob("R17.1", "%s::no-zero-initialised-divisor::%s@%s" % (unit, v, cfront.render(n.c)[:40]), not bad, "%s:%s" % (where, n.lineno),
                       "divisor `%s` in `%s`%s" % (v, cfront.render(n.c)[:80], " is always assigned by the iteration first" if not bad else
                                                  ": its initialisation to the constant 0 reaches this division on the path where the refinement loop runs zero times "
                                                  "(first root already within tolerance of the start value, i.e. npts = 1), giving an infinite weight"))
    chk.ob("R17.1", name + "::divisions-examined", n_div >= 4, where, "%d divisor occurrences examined" % n_div)


# ---------------------------------------------------------------------------
# C side: normal form of a loop nest by structured symbolic execution
# ---------------------------------------------------------------------------
class _NotModelled(AnalysisError):
    """the function uses a construct the structured executor does not model: no verdict from the rules built on it"""


class _Loop:
    def __init__(self, kind, line):
        self.kind = kind          # "pre" (for / while: tested before each pass) or "post" (do-while: body runs at least once)
        self.line = line
        self.cond = None          # for "pre": in terms of the values at the top of a pass; for "post": of the values at its end
        self.defined = set()      # variables assigned somewhere in the loop
        self.entry = {}           # their values when the loop is entered
        self.out = {}             # their values at the end of one pass, in terms of the values at its top (Symbol(v))
        self.stores = []          # (array, index, value, line) element stores made directly in the body
        self.children = []
        self.counter = None       # the variable that counts its passes from 1 (set by _canon_loops)
        self.live_in = set()      # variables whose value at the top of a pass may be read before the pass assigns them

    def walk(self):
        yield self
        for c in self.children:
            for x in c.walk():
                yield x


_INT_TYPES = {"char", "short", "int", "long", "long long", "size_t", "ssize_t", "ptrdiff_t", "Py_ssize_t", "npy_intp", "npy_uintp", "npy_int", "npy_uint",
              "npy_long", "npy_ulong", "npy_longlong", "npy_ulonglong", "npy_int8", "npy_int16", "npy_int32", "npy_int64", "npy_uint8", "npy_uint16",
              "npy_uint32", "npy_uint64", "int8_t", "int16_t", "int32_t", "int64_t", "uint8_t", "uint16_t", "uint32_t", "uint64_t", "intptr_t", "uintptr_t"}


def _qual(n):
    t = n.get("type", {}) if isinstance(n, dict) else {}
    return t.get("qualType") or ""


def _is_int_type(q):
    q = " ".join(w for w in q.replace("*", " * ").split() if w not in ("const", "volatile", "register", "signed", "unsigned"))
    q = q.replace("long int", "long").replace("short int", "short").replace("long long int", "long long")
    return q in _INT_TYPES


def _is_ptr_type(q):
    q = q.strip()
    return q.endswith("*") or q.endswith("]")


def _int_rel(op, a, b):
    """relation between two integer terms with the strict forms written as the equivalent non-strict ones"""
    if op == "<":
        return sp.Le(a, b - 1)
    if op == ">":
        return sp.Ge(a, b + 1)
    return {"<=": sp.Le, ">=": sp.Ge, "==": sp.Eq, "!=": sp.Ne}[op](a, b)


def _null_ptr(n):
    """NULL / 0 / (void*)0"""
    s = n
    while isinstance(s, dict) and s.get("kind") in ("ImplicitCastExpr", "ParenExpr", "CStyleCastExpr", "ConstantExpr") and s.get("inner"):
        s = s["inner"][-1]
    return s.get("kind") in ("GNUNullExpr", "CXXNullPtrLiteralExpr") or (s.get("kind") == "IntegerLiteral" and str(s.get("value")) == "0")


_DATA_CALLS = ("PyArray_DATA", "PyArray_BYTES")


def _data_of(n):
    """name of the variable obj when the expression is the data pointer of the array object it holds: (T *) PyArray_DATA(obj)"""
    s = n
    while isinstance(s, dict) and s.get("kind") in ("ImplicitCastExpr", "ParenExpr", "CStyleCastExpr", "ConstantExpr") and s.get("inner"):
        s = s["inner"][-1]
    if isinstance(s, dict) and s.get("kind") == "CallExpr" and cfront.callee_name(s) in _DATA_CALLS and len(cfront.call_args(s)) == 1:
        a = cfront.strip(cfront.call_args(s)[0])
        if a.get("kind") == "DeclRefExpr" and a.get("referencedDecl", {}).get("kind") in ("VarDecl", "ParmVarDecl"):
            return a["referencedDecl"]["name"]
    return None


def _ptr_root(n):
    """the pointer variable an address expression is computed from: v, v + k, k + v, v - k, &v[k], &*v; "DATA(obj)" for the data
    pointer of the array object held by obj (None: not of that form; "NULL" for a null pointer constant)"""
    if _null_ptr(n):
        return "NULL"
    if _data_of(n) is not None:
        return "DATA(%s)" % _data_of(n)
    s = n
    while isinstance(s, dict) and s.get("kind") in ("ImplicitCastExpr", "ParenExpr", "CStyleCastExpr", "ConstantExpr") and s.get("inner"):
        s = s["inner"][-1]
    k = s.get("kind")
    inner = s.get("inner", []) or []
    if k == "DeclRefExpr" and _is_ptr_type(_qual(s)):
        return s.get("referencedDecl", {}).get("name")
    if k == "BinaryOperator" and s.get("opcode") in ("+", "-") and len(inner) == 2:
        ptrs = [x for x in inner if _is_ptr_type(_qual(x))]
        if len(ptrs) == 1 and (s["opcode"] == "+" or ptrs[0] is inner[0]):
            return _ptr_root(ptrs[0])
        return None
    if k == "UnaryOperator" and s.get("opcode") == "&" and inner:
        t = cfront.strip(inner[0])
        if t.get("kind") == "ArraySubscriptExpr":
            return _ptr_root(t["inner"][0])
        if t.get("kind") == "UnaryOperator" and t.get("opcode") == "*":
            return _ptr_root(t["inner"][0])
    return None


_cursor_cache = {}
_written_cache = {}


def _written_names(fn):
    """variables of the function that are assigned, updated or have their address taken somewhere in its body"""
    key = id(fn)
    if key not in _written_cache:
        out = set()
        for x in cfront.walk(cfront.body_of(fn) or {}):
            k = x.get("kind")
            if (k == "BinaryOperator" and x.get("opcode") == "=") or k == "CompoundAssignOperator" or (k == "UnaryOperator" and x.get("opcode") in ("++", "--")):
                l = cfront.strip(x["inner"][0])
                if l.get("kind") == "DeclRefExpr":
                    out.add(l["referencedDecl"]["name"])
            elif k == "UnaryOperator" and x.get("opcode") == "&" and _addr_of_var(x) is not None:
                out.add(_addr_of_var(x))
        _written_cache[key] = out
    return _written_cache[key]


def _cursors(fn):
    """{p: a} for the local pointer variables p of the function that only ever hold positions in one array a (every assignment to
    p is a + k, &a[k], another such cursor +- k, or NULL; otherwise p is only stepped).  The executor keeps the offset of such
    a variable, so `*p`, `p[k]`, `++p` are element accesses / index arithmetic on a."""
    key = id(fn)
    if key in _cursor_cache:
        return _cursor_cache[key]
    roots = {}
    taken = set()
    params = set(cfront.params_of(fn))
    for x in cfront.walk(cfront.body_of(fn) or {}):
        k = x.get("kind")
        if k == "VarDecl" and _is_ptr_type(_qual(x)) and not _qual(x).strip().endswith("]"):
            init = [c for c in x.get("inner", []) if isinstance(c, dict) and c.get("kind")]
            roots.setdefault(x.get("name"), [])
            if init:
                roots[x["name"]].append(_ptr_root(init[-1]))
        elif k == "BinaryOperator" and x.get("opcode") == "=":
            l = cfront.strip(x["inner"][0])
            if l.get("kind") == "DeclRefExpr" and _is_ptr_type(_qual(l)):
                roots.setdefault(l["referencedDecl"]["name"], []).append(_ptr_root(x["inner"][1]))
        elif k == "UnaryOperator" and x.get("opcode") == "&":
            v = _addr_of_var(x)
            if v is not None:
                taken.add(v)
    out = {}
    for v, rs in roots.items():
        named = {r for r in rs if r != "NULL"}
        if v in params or v in taken or None in named or len(named) != 1 or v in named:
            continue
        out[v] = next(iter(named))
    # a cursor started from another cursor walks the same array
    for _ in range(len(out) + 1):
        for v, b in list(out.items()):
            if b in out and out[b] != v:
                out[v] = out[b]
    # the array itself is fixed: a parameter that is never assigned, or a local that is given its value once (for the data of an
    # array object: the variable that holds the object)
    def holder(b):
        return b[5:-1] if b.startswith("DATA(") else b
    out = {v: b for v, b in out.items() if b not in out and holder(b) not in taken
           and len([r for r in roots.get(holder(b), []) if r != "NULL"]) <= (0 if holder(b) in params else 1)}
    _cursor_cache[key] = out
    return out


_locals_cache = {}
_const_cache = {}


def _file_constant(tu, name):
    """value of a const-qualified arithmetic variable defined at file scope with a constant initialiser (`static const double EPS =
    4.e-11;`): such a name is another spelling of the number.  None when it is not that."""
    import os
    import re
    from vcheck import core
    key = (tu, name)
    if key in _const_cache:
        return _const_cache[key]
    _const_cache[key] = None
    if tu is None or tu not in cfront.TUS:
        return None
    try:
        src = open(os.path.join(core.REPO, cfront.TUS[tu]["path"]), encoding="utf-8", errors="replace").read()
    except OSError:
        return None
    if not re.search(r"^[^\n(){};]*\bconst\b[^\n(){};]*\b%s\s*=" % re.escape(name), src, re.M):
        return None
    if cfront.TUS[tu].get("filt"):
        k2 = "%s@%s" % (tu, name)
        cfront.TUS.setdefault(k2, dict(path=cfront.TUS[tu]["path"], cxx=cfront.TUS[tu]["cxx"], filt=name, inc=list(cfront.TUS[tu]["inc"])))
        decls = cfront.load_tu(k2)
    else:
        decls = cfront.load_tu(tu)
    hits = [d for d in decls if d.get("kind") == "VarDecl" and d.get("name") == name]
    if len(hits) != 1 or "const" not in _qual(hits[0]).split() or _is_ptr_type(_qual(hits[0])):
        return None
    init = [c for c in hits[0].get("inner", []) if isinstance(c, dict) and c.get("kind")]
    if not init:
        return None
    try:
        v = csymx.Lower({"inner": []}).expr(init[-1])
    except (csymx.CUnsupported, KeyError, TypeError, ValueError, IndexError):
        return None
    if isinstance(v, sp.Basic) and v.is_number:
        _const_cache[key] = v
    return _const_cache[key]


class _CLower(csymx.Lower):
    def __init__(self, ex):
        self.ex = ex
        self.fn = ex.fn
        self.env = {}
        self.params = []

    def expr(self, n):
        k = n.get("kind")
        inner = n.get("inner", []) or []
        ex = self.ex
        if k == "DeclRefExpr":
            plain = n["referencedDecl"]["name"]
            nm = ex.name(plain)
            if nm in ex.alias[-1]:
                raise csymx.CUnsupported("pointer parameter used as a value")
            if plain in ex.curs[-1]:
                base, off = ex.ptr_expr(n)
                return sp.Function("PTR")(sp.Symbol(base), off)
            if ex.access is not None:
                ex.access.append(("rs", nm, None))
            ex.note_read(nm)
            if nm not in ex.env and n["referencedDecl"].get("kind") == "VarDecl" and "const" in _qual(n["referencedDecl"]).split() and not ex.is_local(plain):
                c = _file_constant(ex.tu, plain)
                if c is not None:
                    return c
            return ex.env.get(nm, sp.Symbol(nm))
        if k == "ArraySubscriptExpr" or (k == "UnaryOperator" and n.get("opcode") == "*" and not (
                _deref_param(n) is not None and ex.name(_deref_param(n)) in ex.alias[-1])):
            # an element of an array: a[k], p[k] / *p / *(p + k) with p a cursor stepping through a
            loc = ex.elem_loc(n)
            if loc is None:
                raise csymx.CUnsupported("subscript of a non-variable" if k == "ArraySubscriptExpr" else "dereference")
            bname, idx = loc
            if ex.access is not None:
                ex.access.append(("r", bname, idx))
            return ex.env.get(("elem", bname, idx), sp.Function(bname)(idx))
        if k == "UnaryOperator" and n.get("opcode") == "*":
            v = ex.alias[-1][ex.name(_deref_param(n))]
            ex.note_read(v)
            return ex.env.get(v, sp.Symbol(v))
        if k == "BinaryOperator" and n.get("opcode") in ("<", ">", "<=", ">=", "==", "!=") and len(inner) == 2 and all(_is_ptr_type(_qual(x)) for x in inner):
            # two positions in the same array compare like their offsets
            a, b = ex.ptr_expr(inner[0]), ex.ptr_expr(inner[1])
            if a is None or b is None or a[0] != b[0]:
                raise csymx.CUnsupported("comparison of pointers that were not traced to one array")
            return _int_rel(n["opcode"], a[1], b[1])
        if k == "BinaryOperator" and n.get("opcode") in ("<", ">") and len(inner) == 2 and all(_is_int_type(_qual(x)) for x in inner):
            # between integers a < b is a <= b - 1: one spelling for `i < m` and `i <= m - 1`
            return _int_rel(n["opcode"], self.expr(inner[0]), self.expr(inner[1]))
        if k == "BinaryOperator" and n.get("opcode") == "/" and len(inner) == 2 and _is_int_type(_qual(n)):
            # integer division (operands of a count are not negative: rounds down)
            return sp.floor(self.expr(inner[0]) / self.expr(inner[1]))
        if k == "CallExpr":
            nm = cfront.callee_name(n)
            if nm in ex.helpers and nm not in csymx.MATH:
                r = ex.inline(n)
                if r is None:
                    raise csymx.CUnsupported("helper %s returns no value" % nm)
                return r
            if nm not in csymx.MATH:
                args = []
                for a in inner[1:]:
                    v = _addr_of_var(a)
                    if v is None:
                        try:
                            args.append(self.expr(a))
                        except (csymx.CUnsupported, KeyError, TypeError, ValueError):
                            pass
                if not nm:
                    raise csymx.CUnsupported("indirect call")
                return sp.Function(nm)(*args)
        return super().expr(n)


class _CExec:
    """runs the statements of a C function in order on symbolic values.  Straight-line code is substituted forward (named
    temporaries disappear); a loop is summarised as: values of the variables it assigns on entry, the state transformer of one pass
    and its condition; helper functions with a body are executed in line (value parameters bound to the arguments, `&v` arguments
    written through).  A local pointer that only ever holds positions in one array (_cursors) is kept as its offset there, so
    `*p`, `p[k]`, `++p` are element accesses and index arithmetic.  Not modelled (-> _NotModelled): break/continue, return inside
    a loop of the same function, loops under an if, element stores on an arm of an if that jumps out, backward goto, pointers stepped
    without a fixed array.  An element stored on the arms of an if holds a Piecewise over the condition (merge_arm_stores).
    A label of the top level that control falls into (common exit) forgets what is known about the variables."""

    def __init__(self, fn, helpers, tu=None):
        self.fn = fn
        self.tu = tu
        self.helpers = helpers
        self.env = {p: sp.Symbol(p) for p in cfront.params_of(fn)}
        self.scope = [{}]
        self.alias = [{}]
        self.top = _Loop("top", fn.get("line", 0))
        self.stack = [self.top]
        self.track = []
        self.dry = 0
        self.depth = 0
        self.history = {}
        self.cond_depth = 0
        self.curs = [_cursors(fn)]
        self.ret_base = 1
        self.lower = _CLower(self)
        self.retval = None
        self.labels = set()
        self.frames = [fn]
        self.access = None
        self.fresh = []
        self.pending = []         # per open arm of an if: the element stores made on it (merged where the arms join)
        body = cfront.body_of(fn)
        self.block(body.get("inner", []) or [], toplevel=True)

    # -- names ------------------------------------------------------------
    def name(self, n):
        return self.scope[-1].get(n, n)

    def note_read(self, nm):
        """the variable is read: in every open loop whose pass has not certainly assigned it yet, its value at the top of the pass is used"""
        for e in self.fresh:
            if nm in e["names"]:
                e["loop"].live_in.add(nm)

    def is_local(self, plain):
        """is the name declared (parameter or local) in the function / helper being executed"""
        f = self.frames[-1]
        key = id(f)
        if key not in _locals_cache:
            _locals_cache[key] = set(cfront.params_of(f)) | {x.get("name") for x in cfront.walk(cfront.body_of(f) or {}) if x.get("kind") == "VarDecl"}
        return plain in _locals_cache[key]

    def assign(self, nm, v):
        self.env[nm] = v
        for e in self.fresh:
            if not e["susp"] and self.cond_depth == e["cd"]:
                e["names"].discard(nm)          # assigned on every way through the pass: what it held at the top is gone
        for t in self.track:
            t.add(nm)
        if not self.dry:
            self.history.setdefault(nm, []).append(v)

    def value(self, node, what):
        try:
            return self.lower.expr(node)
        except (csymx.CUnsupported, KeyError, TypeError, ValueError, IndexError):
            return sp.Symbol("?%s@%s" % (what, node.get("line", 0)))

    def havoc_addr_args(self, node):
        """`&v` handed to a function whose body is not known: v holds whatever the callee stored"""
        for c in cfront.walk(node):
            if c.get("kind") == "CallExpr" and not (cfront.callee_name(c) in self.helpers):
                for a in cfront.call_args(c):
                    v = _addr_of_var(a)
                    if v is not None:
                        self.assign(self.name(v), sp.Symbol(self.name(v)))

    # -- positions in arrays ------------------------------------------------
    def ptr_expr(self, n):
        """(array, offset) of an address expression: a, a + k, &a[k], a cursor into a (its current offset) +- k; None otherwise"""
        s = n
        while isinstance(s, dict) and s.get("kind") in ("ImplicitCastExpr", "ParenExpr", "CStyleCastExpr", "ConstantExpr") and s.get("inner"):
            s = s["inner"][-1]
        k = s.get("kind")
        inner = s.get("inner", []) or []
        if _data_of(s) is not None:
            return "DATA(%s)" % self.name(_data_of(s)), sp.Integer(0)
        if k == "DeclRefExpr" and _is_ptr_type(_qual(s)):
            plain = s["referencedDecl"]["name"]
            nm = self.name(plain)
            if nm in self.alias[-1]:
                return None
            if plain in self.curs[-1]:
                self.note_read(nm)
                return self.cur_base(plain), self.env.get(nm, sp.Symbol(nm))
            return nm, sp.Integer(0)
        if k == "BinaryOperator" and s.get("opcode") in ("+", "-") and len(inner) == 2:
            ptrs = [x for x in inner if _is_ptr_type(_qual(x))]
            if len(ptrs) != 1 or (s["opcode"] == "-" and ptrs[0] is not inner[0]):
                return None
            b = self.ptr_expr(ptrs[0])
            if b is None:
                return None
            d = self.lower.expr(inner[1] if ptrs[0] is inner[0] else inner[0])
            return b[0], (b[1] + d if s["opcode"] == "+" else b[1] - d)
        if k == "UnaryOperator" and s.get("opcode") == "&" and inner:
            return self.elem_loc(cfront.strip(inner[0]))
        return None

    def elem_loc(self, n):
        """(array, simplified index) of the element an lvalue `a[k]` / `*p` / `*(p + k)` / `p[k]` denotes; None otherwise"""
        n = cfront.strip(n)
        inner = n.get("inner", []) or []
        if n.get("kind") == "ArraySubscriptExpr":
            b = self.ptr_expr(inner[0])
            if b is None:
                return None
            return b[0], sp.simplify(b[1] + self.lower.expr(inner[1]))
        if n.get("kind") == "UnaryOperator" and n.get("opcode") == "*":
            b = self.ptr_expr(inner[0])
            if b is None:
                return None
            # `*v` of a variable that is not a cursor is only an element access when v is an array handed in
            s = cfront.strip(inner[0])
            if s.get("kind") == "DeclRefExpr" and s["referencedDecl"]["name"] not in self.curs[-1]:
                return None
            return b[0], sp.simplify(b[1])
        return None

    def cur_base(self, plain):
        """the array a cursor of the function being executed walks through: a variable of that function, the data of an array
        object held by one, or -- for a pointer parameter of a helper executed in line -- the array the caller passed (kept as
        ("=", array): already a name of the caller)"""
        b = self.curs[-1][plain]
        for _ in range(4):
            if isinstance(b, tuple):
                return b[1]
            if b in self.curs[-1]:
                b = self.curs[-1][b]
                continue
            break
        if b.startswith("DATA("):
            return "DATA(%s)" % self.name(b[5:-1])
        return self.name(b)

    def ptr_assign(self, plain, rhs, line):
        """cursor = address expression: the new offset in the cursor's array"""
        if _null_ptr(rhs):
            self.assign(self.name(plain), sp.Symbol("?null@%s" % line))
            return
        b = self.ptr_expr(rhs)
        if b is None or b[0] != self.cur_base(plain):
            raise _NotModelled("pointer `%s` set to a position that was not traced to `%s` (line %s)" % (plain, self.curs[-1][plain], line))
        self.assign(self.name(plain), b[1])

    # -- statements -------------------------------------------------------
    def block(self, stmts, toplevel=False):
        """returns True when control cannot fall out of the end of the statement list"""
        skip = 0
        for k_, st in enumerate(stmts):
            if st.get("kind") == "LabelStmt":
                # a label of the function's own top level that control falls into: the common exit that `goto`s placed before it
                # jump to.  What is known about the variables holds on the falling-through path only, so it is forgotten here.
                if not (toplevel and self.depth == 0 and len(self.stack) == 1 and not self.cond_depth):
                    raise _NotModelled("label `%s` reached by falling through (line %s)" % (st.get("name"), st.get("line")))
                self.join(st)
                self.labels.add(st.get("declId") or st.get("name"))
                inner = [x for x in (st.get("inner", []) or []) if isinstance(x, dict) and x.get("kind")]
                st = inner[-1] if inner else {"kind": "NullStmt"}
            if skip:
                skip -= 1
                continue
            st, skip = self.with_next_loops(st, stmts, k_)
            if self.stmt(st):
                rest = stmts[k_ + 1:]
                # what follows a return / goto at the top level of the function is its error exit (reached by goto only)
                if rest and not (toplevel and rest[0].get("kind") == "LabelStmt" and self.depth == 0):
                    if any(x.get("kind") == "LabelStmt" for r in rest for x in cfront.walk(r)):
                        raise _NotModelled("label after a jump inside a nested block (line %s)" % rest[0].get("line"))
                return True
        return False

    def join(self, st):
        """control arrives here from several places: every variable assigned so far holds a value that is not followed"""
        for v in list(self.env):
            if isinstance(v, tuple):
                del self.env[v]
            elif v in self.history:
                self.env[v] = sp.Symbol("?%s@%s" % (v, st.get("line", 0)))

    def body(self, st):
        return self.block(st.get("inner", []) or []) if st.get("kind") == "CompoundStmt" else self.block([st])

    def stmt(self, st):
        k = st.get("kind")
        inner = [x for x in (st.get("inner", []) or [])]
        if k in ("ImplicitCastExpr", "ParenExpr", "CStyleCastExpr", "ExprWithCleanups") and inner:
            return self.stmt(inner[-1] if k == "CStyleCastExpr" else inner[0])
        if k == "CompoundStmt":
            return self.block(inner)
        if k == "NullStmt":
            return False
        if k == "DeclStmt":
            for v in inner:
                if v.get("kind") != "VarDecl":
                    continue
                if self.depth:
                    self.scope[-1][v["name"]] = self.prefix + v["name"]
                init = [c for c in v.get("inner", []) if isinstance(c, dict) and c.get("kind")]
                if init:
                    self.havoc_addr_args(init[-1])
                    if v["name"] in self.curs[-1]:
                        self.ptr_assign(v["name"], init[-1], st.get("line"))
                    else:
                        self.assign(self.name(v["name"]), self.value(init[-1], v["name"]))
            return False
        if k == "BinaryOperator" and st.get("opcode") == ",":
            # e1, e2 as a statement (loop increments): one after the other
            return self.stmt(inner[0]) or self.stmt(inner[1])
        if k == "BinaryOperator" and st.get("opcode") == "=":
            self.havoc_addr_args(inner[1])
            lhs = cfront.strip(inner[0])
            if lhs.get("kind") == "DeclRefExpr" and lhs["referencedDecl"]["name"] in self.curs[-1]:
                self.ptr_assign(lhs["referencedDecl"]["name"], inner[1], st.get("line"))
                return False
            val = self.value(inner[1], cfront.render(lhs))
            try:
                loc = self.elem_loc(lhs) if not (_deref_param(lhs) is not None and self.name(_deref_param(lhs)) in self.alias[-1]) else None
            except (csymx.CUnsupported, KeyError, TypeError, ValueError, IndexError):
                loc = None
            if lhs.get("kind") == "DeclRefExpr":
                self.assign(self.name(lhs["referencedDecl"]["name"]), val)
            elif loc is not None:
                base, idx = loc
                if self.access is not None:
                    self.access.append(("w", base, idx))
                # what is remembered about other elements of the array survives only where the two indices certainly differ
                for key in [key for key in self.env if isinstance(key, tuple) and key[1] == base and key[2] != idx]:
                    d = sp.simplify(key[2] - idx)
                    if not (d.is_number and d != 0):
                        del self.env[key]
                self.env[("elem", base, idx)] = val
                for t in self.track:
                    t.add(("array", base))
                self.emit_store(base, idx, val, st.get("line", 0))
            elif _deref_param(lhs) is not None and self.name(_deref_param(lhs)) in self.alias[-1]:
                self.assign(self.alias[-1][self.name(_deref_param(lhs))], val)
            else:
                raise _NotModelled("assignment to `%s` (line %s)" % (cfront.render(lhs), st.get("line")))
            return False
        if k == "CompoundAssignOperator" or (k == "UnaryOperator" and st.get("opcode") in ("++", "--")):
            lhs = cfront.strip(inner[0])
            if lhs.get("kind") != "DeclRefExpr":
                raise _NotModelled("update of `%s` (line %s)" % (cfront.render(lhs), st.get("line")))
            if _is_ptr_type(_qual(lhs)) and lhs["referencedDecl"]["name"] not in self.curs[-1]:
                raise _NotModelled("pointer `%s` is stepped but was not traced to one array (line %s)" % (cfront.render(lhs), st.get("line")))
            nm = self.name(lhs["referencedDecl"]["name"])
            cur = self.env.get(nm, sp.Symbol(nm))
            self.note_read(nm)
            if k == "UnaryOperator":
                new = cur + (1 if st["opcode"] == "++" else -1)
            else:
                v = self.value(inner[1], nm)
                op = st.get("opcode")
                if op not in ("+=", "-=", "*=", "/="):
                    raise _NotModelled("operator %s (line %s)" % (op, st.get("line")))
                new = {"+=": cur + v, "-=": cur - v, "*=": cur * v, "/=": cur / v}[op]
            self.assign(nm, new)
            return False
        if k == "CallExpr":
            if cfront.callee_name(st) in self.helpers and cfront.callee_name(st) not in csymx.MATH:
                self.inline(st)
            else:
                self.havoc_addr_args(st)
            return False
        if k == "ReturnStmt":
            if len(self.stack) > self.ret_base:
                raise _NotModelled("return inside a loop (line %s)" % st.get("line"))
            if self.depth and inner:
                self.retval = self.value(inner[0], "return")
            return True
        if k == "GotoStmt":
            if self.depth or len(self.stack) > 1:
                raise _NotModelled("goto inside a loop or helper (line %s)" % st.get("line"))
            if st.get("targetLabelDeclId") in self.labels or st.get("targetLabelDeclId") is None:
                raise _NotModelled("goto to a label placed before it (line %s)" % st.get("line"))
            return True
        if k == "IfStmt":
            self.havoc_addr_args(inner[0])
            try:
                c = self.lower.truth(self.lower.expr(inner[0]))
            except (csymx.CUnsupported, KeyError, TypeError, ValueError, IndexError):
                c = None
            save = dict(self.env)
            self.cond_depth += 1
            self.pending.append([])
            try:
                t1 = self.body(inner[1])
            finally:
                st_t = self.pending.pop()
            env_t = self.env
            self.env = dict(save)
            self.pending.append([])
            try:
                t2 = self.body(inner[2]) if len(inner) > 2 and inner[2].get("kind") else False
            finally:
                st_f = self.pending.pop()
            env_f = self.env
            self.cond_depth -= 1
            if (st_t or st_f) and (t1 or t2):
                raise _NotModelled("element store on an arm of an if that jumps out (line %s)" % st.get("line"))
            joined = self.merge_arm_stores(c, st_t, st_f, st.get("line", 0)) if st_t or st_f else []
            if t1 and t2:
                return True
            if t1:
                self.env = env_f
            elif t2:
                self.env = env_t
            else:
                merged = {}
                for v in set(env_t) | set(env_f):
                    a, b = env_t.get(v), env_f.get(v)
                    if a is not None and b is not None and a == b:
                        merged[v] = a
                    elif isinstance(v, tuple):
                        continue
                    elif a is not None and b is not None and c is not None:
                        merged[v] = sp.Piecewise((a, c), (b, True))
                    else:
                        merged[v] = sp.Symbol("?%s@%s" % (v, st.get("line", 0)))
                self.env = merged
                # what the elements stored on the arms hold after the if (each arm has already dropped what it may have overwritten)
                for base, idx, val in joined:
                    self.env[("elem", base, idx)] = val
            return False
        if k in ("ForStmt", "WhileStmt", "DoStmt"):
            if self.cond_depth:
                raise _NotModelled("loop under an if (line %s)" % st.get("line"))
            if k == "ForStmt":
                init, _cv, cond, inc, body = (inner + [{}] * 5)[:5]
            elif k == "WhileStmt":
                init, cond, inc, body = {}, inner[0], {}, inner[-1]
            else:
                init, cond, inc, body = {}, inner[1], {}, inner[0]
            if init and init.get("kind"):
                self.stmt(init)
            self.loop("post" if k == "DoStmt" else "pre", cond, inc, body, st.get("line", 0))
            return False
        if k in ("BreakStmt", "ContinueStmt", "SwitchStmt", "LabelStmt"):
            raise _NotModelled("%s (line %s)" % (k, st.get("line")))
        # any other expression statement: only its calls can have effects on the variables followed here
        self.havoc_addr_args(st)
        return False

    # -- two loops as one ---------------------------------------------------
    def with_next_loops(self, st, stmts, k):
        """loop fission undone: consecutive counted loops over the same range are run as one loop when that provably gives every
        statement the same values (see fused) -> (statement to run, number of following statements it stands for)"""
        n = 0
        while st.get("kind") == "ForStmt" and k + n + 1 < len(stmts) and stmts[k + n + 1].get("kind") == "ForStmt" and not self.cond_depth:
            f = self.fused(st, stmts[k + n + 1])
            if f is None:
                break
            st = f
            n += 1
        return st, n

    def probe(self, counter, body):
        """(variables assigned, accesses) of one pass of a loop body whose counter is the symbol `counter`: ("r" / "w", array, index)
        for elements, ("rs", variable, None) for reads of variables; None when the body is not modelled"""
        save_env, save_access = dict(self.env), self.access
        seen, log = set(), []
        try:
            for phase in (0, 1):
                self.env = dict(save_env)
                self.env[counter] = sp.Symbol(counter)
                if phase == 1:
                    for v in seen:
                        if isinstance(v, tuple):
                            for key in [key for key in self.env if isinstance(key, tuple) and key[1] == v[1]]:
                                del self.env[key]
                        elif v != counter:
                            self.env[v] = sp.Symbol(v)
                    self.access = log
                self.track.append(seen if phase == 0 else set())
                self.dry += 1
                try:
                    if self.body(body):
                        return None
                finally:
                    self.dry -= 1
                    self.track.pop()
        except (_NotModelled, csymx.CUnsupported, KeyError, TypeError, ValueError, IndexError):
            return None
        finally:
            self.env, self.access = save_env, save_access
        return seen, log

    def fused(self, a, b):
        """the loop `for (h) { A; B }` when `for (h) A  for (h) B` (same header h: i from a constant, while i <= / < a bound that
        neither body changes, in steps of one) computes the same: no variable assigned by one body is used by the other, and no
        element that pass i of B touches is written by a LATER pass i' > i of A (or read there when B writes it) -- then every
        statement still finds the values it found before.  Indices must be affine in the counter; the bound may be floor(q):
        i < i' <= floor(q) gives i + i' <= 2q - 1.  None when this was not established."""
        ia, ib = (a.get("inner") or []) + [{}] * 5, (b.get("inner") or []) + [{}] * 5
        if [cfront.render(x) if x and x.get("kind") else "" for x in ia[:4]] != [cfront.render(x) if x and x.get("kind") else "" for x in ib[:4]]:
            return None
        init, cond, inc = cfront.strip(ia[0]), cfront.strip(ia[2]), cfront.strip(ia[3])
        if not (init.get("kind") == "BinaryOperator" and init.get("opcode") == "=" and cfront.strip(init["inner"][0]).get("kind") == "DeclRefExpr"):
            return None
        plain = cfront.strip(init["inner"][0])["referencedDecl"]["name"]
        steps = ("++%s" % plain, "%s++" % plain, "(%s += 1)" % plain, "(++%s)" % plain, "(%s++)" % plain)
        if cfront.render(inc) not in steps or not (cond.get("kind") == "BinaryOperator" and cond.get("opcode") in ("<", "<=")
                                                   and cfront.render(cond["inner"][0]) == plain and _is_int_type(_qual(cond["inner"][0]))):
            return None
        for body in (ia[4], ib[4]):
            if any(x.get("kind") in ("BreakStmt", "ContinueStmt", "ReturnStmt", "GotoStmt", "LabelStmt", "SwitchStmt") for x in cfront.walk(body)):
                return None
            for c in cfront.walk(body):
                if c.get("kind") == "CallExpr" and cfront.callee_name(c) not in self.helpers and cfront.callee_name(c) not in csymx.MATH:
                    return None
        i = self.name(plain)
        lo = self.value(init["inner"][1], "start")
        hi = self.value(cond["inner"][1], "bound")
        if cond["opcode"] == "<":
            hi = hi - 1
        pa, pb = self.probe(i, ia[4]), self.probe(i, ib[4])
        if pa is None or pb is None:
            return None
        prefix = self.prefix if self.depth else ""

        def shared(names, body):
            own = {prefix + x.get("name") for x in cfront.walk(body) if x.get("kind") == "VarDecl"}
            return {v for v in names if v != i and v not in own and not ("::" in v and not (prefix and v.startswith(prefix)))}
        wa, wb = ({v for v in p[0] if not isinstance(v, tuple)} for p in (pa, pb))
        ra, rb = ({v for kind, v, _ in p[1] if kind == "rs"} for p in (pa, pb))
        if i in wa or i in wb:
            return None
        bound_vars = {self.name(x["referencedDecl"]["name"]) for x in cfront.walk(cond["inner"][1]) if x.get("kind") == "DeclRefExpr"}
        if bound_vars & (wa | wb):
            return None
        if shared(wa, ia[4]) & shared(rb | wb, ib[4]) or shared(wb, ib[4]) & shared(ra | wa, ia[4]):
            return None
        I, J = sp.Symbol(i), sp.Symbol("?later")
        inner_vars = {sp.Symbol(v) for v in (wa | wb) if v != i}

        def overtaken(xa, xb):
            """can pass J > I of the first body touch the element that pass I of the second touches (None: not decided)"""
            for t in (xa, xb, lo, hi):
                if not isinstance(t, sp.Basic) or t.free_symbols & inner_vars or any(str(y).startswith("?") for y in t.free_symbols):
                    return None
            eq = sp.expand(xa.xreplace({I: J}) - xb)
            cj, ci = sp.diff(eq, J), sp.diff(eq, I)
            rest = sp.simplify(eq - cj * J - ci * I)
            if any(t.free_symbols & {I, J} for t in (cj, ci, rest)) or not (cj.is_Integer and ci.is_Integer):
                return None
            if cj == 0 and ci == 0:
                return False if (rest.is_number and bool(rest != 0)) else None
            if cj == -ci:                       # same direction: J - I = d
                d = sp.simplify(-rest / cj)
                return bool(d > 0) if d.is_number and d.is_real else None
            if cj == ci:                        # opposite directions: I + J = t, while I < J <= hi gives I + J <= 2 hi - 1
                t = sp.simplify(-rest / cj)
                top = 2 * hi.args[0] - 1 if isinstance(hi, sp.floor) else 2 * hi - 1
                gap = sp.simplify(t - top)
                if gap.is_number and gap.is_real and bool(gap > 0):
                    return False
                low = sp.simplify(2 * lo + 1 - t)
                if low.is_number and low.is_real and bool(low > 0):
                    return False
            return None
        ea, eb = [x for x in pa[1] if x[0] != "rs"], [x for x in pb[1] if x[0] != "rs"]
        for ka, ba, xa in ea:
            for kb, bb, xb in eb:
                if ba == bb and "w" in (ka, kb) and overtaken(xa, xb) is not False:
                    return None

        def stmts(body):
            return list(body.get("inner", []) or []) if body.get("kind") == "CompoundStmt" else [body]
        return dict(a, inner=list(ia[:4]) + [{"kind": "CompoundStmt", "line": ia[4].get("line", 0), "inner": stmts(ia[4]) + stmts(ib[4])}])

    def emit_store(self, base, idx, val, line):
        """the element store `base[idx] = val` of the pass being executed: on an arm of an if it is kept with that arm (the arms
        are merged where they join, see merge_arm_stores); a second store to the same element in one pass replaces the first
        (reads in between were given the first value)"""
        if self.cond_depth:
            arm = self.pending[-1]
            arm[:] = [x for x in arm if not (x[0] == base and x[1] == idx)]
            arm.append((base, idx, val, line))
        elif not self.dry:
            self.stack[-1].stores = [x for x in self.stack[-1].stores if not (x[0] == base and x[1] == idx)]
            self.stack[-1].stores.append((base, idx, val, line))

    def merge_arm_stores(self, c, st_t, st_f, line):
        """element stores made on the two arms of `if (c)`, as stores of the statement: the element holds the value of the arm taken
        (a Piecewise over the condition); on an arm that does not store it the element keeps what it held -- the value an earlier
        store of this pass gave it, else its content before the pass (the term base(idx): a value that is not followed)"""
        def same(i, j):
            return i == j or _zero(i - j)

        def last(arm, base, idx):
            hit = [x for x in arm if x[0] == base and same(x[1], idx)]
            return hit[-1][2] if hit else None

        def before(base, idx):
            for arm in reversed(self.pending):
                v = last(arm, base, idx)
                if v is not None:
                    return v
            v = last(self.stack[-1].stores, base, idx)
            return v if v is not None else sp.Function(base)(idx)
        done, out = [], []
        for base, idx, _v, ln in list(st_t) + list(st_f):
            if any(b == base and same(i, idx) for b, i in done):
                continue
            done.append((base, idx))
            vt, vf = last(st_t, base, idx), last(st_f, base, idx)
            vt = before(base, idx) if vt is None else vt
            vf = before(base, idx) if vf is None else vf
            if vt == vf:
                val = vt
            elif c is not None:
                val = sp.Piecewise((vt, c), (vf, True))
            else:
                val = sp.Symbol("?%s[%s]@%s" % (base, idx, line))
            self.emit_store(base, idx, val, ln)
            out.append((base, idx, val))
        return out

    def loop(self, kind, cond, inc, body, line):
        def one_pass():
            if self.body(body):
                raise _NotModelled("loop body that always jumps out (line %s)" % line)
            if inc and inc.get("kind"):
                self.stmt(inc)
        # which variables / arrays does one pass assign (found by a trial run whose effects are discarded)
        save_env, seen = dict(self.env), set()
        self.track.append(seen)
        self.dry += 1
        try:
            one_pass()
        finally:
            self.dry -= 1
            self.track.pop()
            self.env = save_env
        for t in self.track:
            t |= seen
        L = _Loop(kind, line)
        L.defined = {v for v in seen if not isinstance(v, tuple)}
        arrays = {v[1] for v in seen if isinstance(v, tuple)}
        L.entry = {v: self.env[v] for v in L.defined if v in self.env}

        def forget():
            for v in L.defined:
                self.env[v] = sp.Symbol(v)
            for key in [key for key in self.env if isinstance(key, tuple) and key[1] in arrays]:
                del self.env[key]
        forget()
        if not self.dry:
            self.stack[-1].children.append(L)
        self.stack.append(L)
        # a loop tested before each pass may run no pass at all: nothing it assigns is certainly assigned for the loops around it
        if kind == "pre":
            for e in self.fresh:
                e["susp"] += 1
        self.fresh.append(dict(names=set(L.defined), cd=self.cond_depth, susp=0, loop=L))
        try:
            if kind == "pre":
                L.cond = self.value(cond, "condition") if cond and cond.get("kind") else sp.true
            one_pass()
            if kind == "post":
                L.cond = self.value(cond, "condition")
            L.out = {v: self.env.get(v, sp.Symbol(v)) for v in L.defined}
        finally:
            self.stack.pop()
            self.fresh.pop()
            if kind == "pre":
                for e in self.fresh:
                    e["susp"] -= 1
        forget()

    def inline(self, call):
        nm = cfront.callee_name(call)
        callee = self.helpers[nm]
        if self.depth >= 3:
            raise _NotModelled("helper calls nested too deeply at %s" % nm)
        params = cfront.params_of(callee)
        args = cfront.call_args(call)
        if len(params) != len(args):
            raise _NotModelled("call of %s does not fit its parameter list" % nm)
        prefix = nm + "::"
        scope, alias, vals = {}, {}, []
        ptypes = {c.get("name", ""): _qual(c) for c in callee.get("inner", []) if c.get("kind") == "ParmVarDecl"}
        passed = {}
        for p, a in zip(params, args):
            v = _addr_of_var(a)
            scope[p] = prefix + p
            if v is not None:
                alias[prefix + p] = self.name(v)
            else:
                self.havoc_addr_args(a)
                pos = None
                if _is_ptr_type(ptypes.get(p, "")):
                    # a position in an array of the caller: inside the helper the parameter is a cursor into that array
                    try:
                        pos = self.ptr_expr(a)
                    except (csymx.CUnsupported, KeyError, TypeError, ValueError, IndexError):
                        pos = None
                if pos is not None:
                    passed[p] = ("=", pos[0])
                    vals.append((prefix + p, pos[1]))
                else:
                    vals.append((prefix + p, self.value(a, p)))
        old_prefix, old_ret, old_base = getattr(self, "prefix", ""), self.retval, self.ret_base
        self.scope.append(scope)
        self.alias.append(alias)
        self.curs.append(dict(_cursors(callee), **passed))
        self.frames.append(callee)
        self.ret_base = len(self.stack)      # loops of the caller that are open around the call are not loops of the helper
        self.prefix = prefix
        self.depth += 1
        self.retval = None
        try:
            written = _written_names(callee)
            for pn, v in vals:
                if pn[len(prefix):] in written:
                    self.assign(pn, v)
                else:
                    self.env[pn] = v         # a value parameter the helper only reads is a name for the argument, not a variable
            stmts = cfront.body_of(callee).get("inner", []) or []
            skip = 0
            for k_, s in enumerate(stmts):
                if skip:
                    skip -= 1
                    continue
                s, skip = self.with_next_loops(s, stmts, k_)
                if self.stmt(s) and k_ + skip != len(stmts) - 1:
                    raise _NotModelled("helper %s returns before its last statement" % nm)
            r = self.retval
        finally:
            self.depth -= 1
            self.prefix = old_prefix
            self.scope.pop()
            self.alias.pop()
            self.curs.pop()
            self.frames.pop()
            self.ret_base = old_base
            self.retval = old_ret
        return r


def _rename_terms(x, sub):
    if isinstance(x, sp.Basic):
        return x.xreplace(sub)
    return x


def _returned_items(fn):
    """names of the variables whose objects the extension function returns as items 0, 1, .. of a tuple (PyTuple_SetItem /
    PyTuple_Pack / Py_BuildValue with object codes); None when they were not identified"""
    items = {}

    def var(a):
        a = cfront.strip(a)
        return a["referencedDecl"]["name"] if a.get("kind") == "DeclRefExpr" and a.get("referencedDecl", {}).get("kind") in ("VarDecl", "ParmVarDecl") else None

    def put(k, a):
        items.setdefault(k, set()).add(var(a))
    for c in cfront.calls_in(cfront.body_of(fn) or {}):
        nm, args = cfront.callee_name(c), cfront.call_args(c)
        if nm in ("PyTuple_SetItem", "PyTuple_SET_ITEM") and len(args) == 3:
            k = cfront.strip(args[1])
            if k.get("kind") != "IntegerLiteral":
                return None
            put(int(k["value"]), args[2])
        elif nm == "PyTuple_Pack" and len(args) >= 1:
            for k, a in enumerate(args[1:]):
                put(k, a)
        elif nm in ("Py_BuildValue", "_Py_BuildValue_SizeT") and args:
            from vcheck.ceffects import c_string_literal
            fmt = (c_string_literal(args[0]) or "?").strip("()[] ")
            if not fmt or any(ch not in "ONS" for ch in fmt) or len(fmt) != len(args) - 1:
                return None
            for k, a in enumerate(args[1:]):
                put(k, a)
    if not items or sorted(items) != list(range(len(items))) or any(len(v) != 1 or None in v for v in items.values()):
        return None
    return [next(iter(items[k])) for k in range(len(items))]


def _normal_form(fn, helpers, param_names, arrays=None, tu=None):
    """loop tree of the function (see _CExec) with canonical names: the three inputs are called x1, x2, npts, the two output arrays
    (`arrays`: name the executor knows them by -> role) x (abscissae) and w (weights); locals of helpers executed in line get their
    plain names back (when that name is free in the caller and no other helper has a local of that name, or when the caller's
    variable of that name only ever receives that local through an `&` argument)"""
    ex = _CExec(fn, helpers, tu)
    names = set()
    for L in ex.top.walk():
        names |= L.defined
    sub = {}
    scoped = sorted(n for n in names | set(ex.history) if "::" in n)
    for n in scoped:
        plain = n.rsplit("::", 1)[1]
        if sum(1 for m in scoped if m.rsplit("::", 1)[1] == plain) != 1:
            continue
        hist = ex.history.get(plain, [])
        if plain not in names and plain not in ex.history or all(h == sp.Symbol(n) for h in hist):
            sub[n] = plain
    for a, b in zip(param_names, ("x1", "x2", "npts")):
        if a != b:
            sub[a] = b
    ssub = {sp.Symbol(a): sp.Symbol(b) for a, b in sub.items()}
    arrays = dict(arrays or {})

    def rn(t):
        t = _rename_terms(t, ssub)
        if isinstance(t, sp.Basic) and arrays:
            hits = [e for e in t.atoms(sp.core.function.AppliedUndef) if e.func.__name__ in arrays]
            if hits:
                t = t.xreplace({e: sp.Function(arrays[e.func.__name__])(*e.args) for e in hits})
        return t
    for L in ex.top.walk():
        L.cond = rn(L.cond)
        L.defined = {sub.get(v, v) for v in L.defined}
        L.entry = {sub.get(v, v): rn(t) for v, t in L.entry.items()}
        L.out = {sub.get(v, v): rn(t) for v, t in L.out.items()}
        L.stores = [(arrays.get(b, sub.get(b, b)), rn(i), rn(v), ln) for b, i, v, ln in L.stores]
        L.live_in = {sub.get(v, v) for v in L.live_in}
    _canon_loops(ex.top)
    return ex.top


def _subst_loop(L, sub):
    """rewrite the values of loop L's variables at the top of a pass: in its condition, transformer and stores, and in everything
    the loops inside it say (their entry values are taken inside a pass of L)"""
    def f(t):
        return t.xreplace(sub) if isinstance(t, sp.Basic) else t
    L.cond = f(L.cond)
    L.out = {v: f(t) for v, t in L.out.items()}
    L.stores = [(b, sp.simplify(f(i)) if isinstance(i, sp.Basic) else i, f(v), ln) for b, i, v, ln in L.stores]
    for c in L.children:
        for D in c.walk():
            D.entry = {v: f(t) for v, t in D.entry.items()}
            D.cond = f(D.cond)
            D.out = {v: f(t) for v, t in D.out.items()}
            D.stores = [(b, sp.simplify(f(i)) if isinstance(i, sp.Basic) else i, f(v), ln) for b, i, v, ln in D.stores]


def _canon_loops(top):
    """one spelling for the ways of counting the passes of a loop.  (1) A counter (a variable of the loop condition that starts at an
    integer constant and grows by one per pass) is re-based to start at 1: `for (i = 0; i < m; ++i) .. x[i]` and
    `for (i = 1; i <= m; ++i) .. x[i-1]` become the same loop.  (2) Any other variable that changes by a loop-invariant amount per
    pass (a stepped pointer offset, a running index) is replaced by its closed form entry + step (i - 1) and is no longer a
    loop-carried variable: `++p; .. *p = v` is `x[i-1] = v`."""
    for L in top.walk():
        if L.kind == "top":
            continue
        inner_defs = set()
        for c in L.children:
            for D in c.walk():
                inner_defs |= D.defined
        own = {sp.Symbol(v) for v in L.defined}

        def invariant(t):
            return isinstance(t, sp.Basic) and not (t.free_symbols & own) and not any(str(x).startswith("?") for x in t.free_symbols)
        counters = [v for v in sorted(L.defined) if v not in inner_defs and isinstance(L.out.get(v), sp.Basic) and _zero(L.out[v] - sp.Symbol(v) - 1)
                    and isinstance(L.entry.get(v), sp.Basic) and L.entry[v].is_Integer]
        in_cond = [v for v in counters if isinstance(L.cond, sp.Basic) and sp.Symbol(v) in L.cond.free_symbols]
        if not (in_cond or counters):
            continue
        i = (in_cond or counters)[0]
        L.counter = i
        I = sp.Symbol(i)
        e0 = L.entry[i]
        if e0 != 1:
            _subst_loop(L, {I: I + e0 - 1})
            L.entry[i] = sp.Integer(1)
            L.out[i] = I + 1
        for u in sorted(L.defined - {i} - inner_defs):
            out, ent = L.out.get(u), L.entry.get(u)
            if not (isinstance(out, sp.Basic) and invariant(ent)):
                continue
            step = sp.simplify(out - sp.Symbol(u))
            if not invariant(step):
                continue
            _subst_loop(L, {sp.Symbol(u): ent + step * (I - 1)})
            L.defined.discard(u)
            L.entry.pop(u, None)
            L.out.pop(u, None)


_zero_cache = {}


def _zero(e):
    try:
        if e in _zero_cache:
            return _zero_cache[e]
    except TypeError:
        pass
    try:
        r = sp.simplify(e) == 0
    except Exception:
        r = False
    try:
        _zero_cache[e] = r
    except TypeError:
        pass
    return r


def _cond_subs(c):
    """what holds whenever condition c does, as substitutions: for every equation among the conjuncts of c one of its symbols
    solved for (the equation must be linear in it).  Inequalities and disjunctions say nothing here."""
    subs = []
    for t in (c.args if isinstance(c, sp.And) else (c,)):
        if not isinstance(t, sp.Eq):
            continue
        e = t.lhs - t.rhs
        for a, b in subs:
            e = e.subs(a, b)
        e = sp.nsimplify(e, rational=True)
        for s_ in sorted(e.free_symbols, key=str):
            if str(s_).startswith("?"):
                continue
            k = sp.diff(e, s_)
            if k != 0 and not k.free_symbols and not k.has(sp.core.function.AppliedUndef):
                subs.append((s_, sp.simplify(s_ - e / k)))
                break
    return subs


_INPUT_NAMES = ("x1", "x2", "npts")


def _pw_zero(e):
    """is the term zero for all values of its variables, where a Piecewise is read arm by arm: the value of each arm must vanish
    under the condition of that arm (the equations in it substituted) -- `x == c ? f(c) : f(x)` is f(x).  True / False, or None
    when an arm does not vanish as a term but what is left involves values computed by the routine (which the condition may pin
    down in a way the term domain does not see): only a difference of followed values on an arm whose condition is about the
    interval (x1, x2) alone is a contradiction"""
    if not isinstance(e, sp.Basic) or not e.has(sp.Piecewise):
        return _zero(e)
    try:
        f = sp.piecewise_fold(e)
    except Exception:
        return None
    if not isinstance(f, sp.Piecewise):
        return _zero(f)
    prior = []
    verdict = True
    for v, c in f.args:
        eff = sp.And(c, *[sp.Not(p) for p in prior])
        prior.append(c)
        if eff is sp.false:
            continue
        r = _pw_zero(v)
        if r:
            continue
        w = v
        for a, b in _cond_subs(eff):
            w = w.subs(a, b)
        if w is not v:
            r = _pw_zero(w)
            if r:
                continue
        if r is None:
            verdict = None
            continue
        try:
            w = sp.simplify(w)
        except Exception:
            pass
        # a condition on the interval alone leaves the count and the root number, hence the node z and the derivative there, arbitrary:
        # a difference that does not vanish as a term in them is a difference for some count
        if {str(x) for x in eff.free_symbols} <= set(_INPUT_NAMES[:2]) and not any(str(x).startswith("?") for x in w.free_symbols) \
                and not w.atoms(sp.core.function.AppliedUndef) and not eff.atoms(sp.core.function.AppliedUndef):
            return False
        verdict = None
    return verdict


def _same_term(a, b):
    if a is None or b is None:
        return a is b
    if a == b:
        return True
    if isinstance(a, sp.Basic) and isinstance(b, sp.Basic) and (a.has(sp.Piecewise) or b.has(sp.Piecewise)) \
            and not (a.is_Relational or a.is_Boolean or b.is_Relational or b.is_Boolean):
        return _pw_zero(a - b)
    if isinstance(a, sp.Basic) and isinstance(b, sp.Basic) and (a.is_Relational or a.is_Boolean or b.is_Relational or b.is_Boolean):
        if a.is_Relational and b.is_Relational:
            return _rel_norm(a) == _rel_norm(b) or (type(a) is type(b) and _zero((a.lhs - a.rhs) - (b.lhs - b.rhs)))
        return False
    return _zero(a - b)


def _rel_norm(c):
    """(operator, lhs - rhs) with > / >= orientation"""
    op, d = type(c).__name__, c.lhs - c.rhs
    flip = {"StrictLessThan": "StrictGreaterThan", "LessThan": "GreaterThan"}
    if op in flip:
        op, d = flip[op], -d
    return op, sp.simplify(d)


def _live(top):
    """variables whose value at the top of / after a loop is read by a condition, an element store or (transitively) the
    transformer of such a variable; everything else is a temporary of the way the code is written"""
    seen = set()
    todo = []
    for L in top.walk():
        for t in [L.cond] + [x for s in L.stores for x in s[1:3]]:
            if isinstance(t, sp.Basic):
                todo += [str(s) for s in t.free_symbols]
    while todo:
        v = todo.pop()
        if v in seen:
            continue
        seen.add(v)
        for L in top.walk():
            for t in (L.entry.get(v), L.out.get(v)):
                if isinstance(t, sp.Basic):
                    todo += [str(s) for s in t.free_symbols]
    return seen


def _loop_shape(L):
    return (L.kind, str(L.cond), [_loop_shape(c) for c in L.children])


def _loops_agree(a, b, live, diffs, path="fn"):
    if a.kind != b.kind or not _same_term(a.cond, b.cond):
        diffs.append("%s: loop `%s %s` vs `%s %s`" % (path, a.kind, a.cond, b.kind, b.cond))
    if len(a.children) != len(b.children):
        diffs.append("%s: %d inner loops vs %d" % (path, len(a.children), len(b.children)))
    for k, (x, y) in enumerate(zip(a.children, b.children)):
        _loops_agree(x, y, live, diffs, "%s/loop%d" % (path, k))


def _state_agrees(a, b, live, diffs, path="fn"):
    for v in sorted((a.defined | b.defined) & live):
        # the value a variable has when the loop is entered matters only if some pass may read it before assigning the variable
        if a.kind != "top" and v in (a.live_in | b.live_in) and not _same_term(a.entry.get(v), b.entry.get(v)):
            diffs.append("%s: %s on entry %s vs %s" % (path, v, a.entry.get(v), b.entry.get(v)))
        if a.kind != "top" and not _same_term(a.out.get(v), b.out.get(v)):
            diffs.append("%s: %s after one pass %s vs %s" % (path, v, a.out.get(v), b.out.get(v)))
    sa = sorted(((s[0], str(s[1])), s) for s in a.stores)
    sb = sorted(((s[0], str(s[1])), s) for s in b.stores)
    if [k for k, _ in sa] != [k for k, _ in sb]:
        diffs.append("%s: element stores %s vs %s" % (path, [k for k, _ in sa], [k for k, _ in sb]))
    else:
        for (k, x), (_, y) in zip(sa, sb):
            r = _same_term(x[2], y[2])
            if not r:
                # "?": not decided (a value stored on an arm of an if whose condition the term domain does not see through)
                diffs.append("%s%s: %s[%s] = %s vs %s" % ("?" if r is None else "", path, k[0], k[1], x[2], y[2]))
    for k, (x, y) in enumerate(zip(a.children, b.children)):
        _state_agrees(x, y, live, diffs, "%s/loop%d" % (path, k))


def _positions(top, path=()):
    yield path, top
    for k, c in enumerate(top.children):
        for x in _positions(c, path + (k,)):
            yield x


def _carried(top, live):
    """{live variable: the positions of the loops that assign it}: which loops carry it is a property of the computation, its name is not"""
    sig = {}
    for pos, L in _positions(top):
        for v in L.defined & live:
            sig.setdefault(v, []).append(pos)
    return {v: tuple(p) for v, p in sig.items()}


def _all_vars(top):
    out = set()
    for L in top.walk():
        out |= L.defined
    return out


def _renamed(top, m):
    """copy of the loop tree with its variables renamed by m (simultaneously); other variables that would collide with a new name
    are moved out of the way"""
    m = dict(m)
    for v in sorted(_all_vars(top)):
        if v not in m and v in m.values():
            m[v] = "~" + v
    sub = {sp.Symbol(a): sp.Symbol(b) for a, b in m.items() if a != b}

    def f(t):
        return t.xreplace(sub) if isinstance(t, sp.Basic) and sub else t

    def cp(L):
        N = _Loop(L.kind, L.line)
        N.cond = f(L.cond)
        N.defined = {m.get(v, v) for v in L.defined}
        N.entry = {m.get(v, v): f(t) for v, t in L.entry.items()}
        N.out = {m.get(v, v): f(t) for v, t in L.out.items()}
        N.stores = [(b, f(ix), f(v), ln) for b, ix, v, ln in L.stores]
        N.counter = m.get(L.counter, L.counter)
        N.live_in = {m.get(v, v) for v in L.live_in}
        N.children = [cp(c) for c in L.children]
        return N
    return cp(top)


def _blind(t, names):
    """the term with every carried variable replaced by one placeholder: equal for terms that differ in variable names only"""
    if not isinstance(t, sp.Basic):
        return t
    return t.xreplace({sp.Symbol(n): sp.Symbol("_") for n in names})


def _name_maps(a, b, live_a, live_b, limit=48):
    """candidate one-to-one maps {variable of b: variable of a} between the live loop-carried variables of two loop trees: a variable
    can only correspond to one carried by the loops at the same positions.  Most plausible first (same name, same entry value /
    transformer up to names).  None when the two trees do not carry the same number of variables at each position."""
    import itertools
    ca, cb = _carried(a, live_a), _carried(b, live_b)
    ga, gb = {}, {}
    for v, sg in ca.items():
        ga.setdefault(sg, []).append(v)
    for v, sg in cb.items():
        gb.setdefault(sg, []).append(v)
    if set(ga) != set(gb) or any(len(ga[k]) != len(gb[k]) for k in ga):
        return None
    pa, pb = dict(_positions(a)), dict(_positions(b))
    na, nb = set(ca), set(cb)

    def aff(u, v):
        sc = 4 if u == v else 0
        for pos in ca[u]:
            if pos in pa and pos in pb:
                for part in ("entry", "out"):
                    x, y = getattr(pa[pos], part).get(u), getattr(pb[pos], part).get(v)
                    if x is not None and y is not None and _blind(x, na) == _blind(y, nb):
                        sc += 1
        return sc
    per = []
    for sg in sorted(ga):
        us, vs = sorted(ga[sg]), sorted(gb[sg])
        opts = []
        for perm in itertools.permutations(us):
            opts.append((sum(aff(u, v) for u, v in zip(perm, vs)), dict(zip(vs, perm))))
        opts.sort(key=lambda o: -o[0])
        per.append(opts[:6])
    cands = []
    for combo in itertools.product(*per):
        m = {}
        for _, d in combo:
            m.update(d)
        cands.append((sum(sc for sc, _ in combo), m))
    cands.sort(key=lambda c: -c[0])
    return [m for _, m in cands[:limit]]


def siblings(chk, nf_cg, nf_cl):
    where = "esutil/cosmology/cosmolib.c"
    if nf_cg is None or nf_cl is None:
        for key in ("gauleg-copies-agree", "gauleg-copies-same-loop-structure"):
            chk.ob("R17.2", key, None, where, "one of the two routines uses a construct the structured executor does not model")
        return
    # the two copies need not call their variables the same: they agree when SOME one-to-one renaming of the loop-carried
    # variables makes every entry value, transformer, condition and element store equal
    # the element stores are compared by the role of the array (x abscissae, w weights): both copies must have been read that far
    other = sorted({st[0] for nf in (nf_cg, nf_cl) for L in nf.walk() for st in L.stores} - {"x", "w"})
    if other:
        chk.ob("R17.2", "gauleg-copies-agree", None, where, "an array that one of the routines stores into was not identified as its abscissa or weight output (%s)" % other)
        chk.ob("R17.2", "gauleg-copies-same-loop-structure", None, where, "an array that one of the routines stores into was not identified as its abscissa or weight output (%s)" % other)
        return
    la, lb = _live(nf_cg), _live(nf_cl)
    maps = _name_maps(nf_cg, nf_cl, la, lb)
    positive = True
    if maps is None:
        # not the same number of carried variables: compared under their own names, which says something only if the names are the same
        maps = [{}]
        positive = set(_carried(nf_cg, la)) == set(_carried(nf_cl, lb))
    best = None
    for m in maps:
        rb = _renamed(nf_cl, m)
        live = la | {m.get(v, v) for v in lb}
        d1, d2 = [], []
        _state_agrees(nf_cg, rb, live, d1)
        _loops_agree(nf_cg, rb, live, d2)
        if best is None or len(d1) + len(d2) < len(best[0]) + len(best[1]):
            best = (d1, d2, rb, m)
        if not d1 and not d2:
            break
    d1, d2, rb, m = best
    shown = {k: v for k, v in m.items() if k != v}
    n = sum(len(L.stores) + len((L.defined & la)) for L in nf_cg.walk())
    undecided = bool(d1) and all(d.startswith("?") for d in d1)
    chk.ob("R17.2", "gauleg-copies-agree", (not d1) or (False if positive and not undecided else None), where,
           "the cosmology library's copy of the node/weight routine computes the same %d loop-carried values and element stores as the standalone extension%s%s"
           % (n, " (its variables read as %s)" % shown if shown else "", "" if not d1 else ": first difference %s" % d1[0]))
    chk.ob("R17.2", "gauleg-copies-same-loop-structure", (not d2) or (False if positive else None), where, "loop nests agree (%s vs %s)" % (_loop_shape(nf_cg)[2], _loop_shape(rb)[2]))


def _bound(L, v):
    """B such that the loop condition is `v <= B`, else None"""
    c = L.cond
    if not (isinstance(c, sp.Basic) and c.is_Relational):
        return None
    V = sp.Symbol(v)
    if isinstance(c, sp.Le) and c.lhs == V:
        return c.rhs
    if isinstance(c, sp.Lt) and c.lhs == V:
        return c.rhs - 1
    if isinstance(c, sp.Ge) and c.rhs == V:
        return c.lhs
    if isinstance(c, sp.Gt) and c.rhs == V:
        return c.lhs - 1
    return None


_FORMULA_KEYS = ["interval midpoint", "interval half width", "number of roots computed (half, rounded up)", "initial guess of root i",
                 "Legendre recurrence j P_j = (2j-1) z P_(j-1) - (j-1) P_(j-2)", "derivative identity P_n' = n (z P_n - P_(n-1))/(z^2-1)", "Newton step",
                 "lower abscissa", "mirrored abscissa (index sum n-1)", "weight 2 xl/((1-z^2) P_n'^2)", "mirrored weight", "recurrence start P_0 = 1",
                 "recurrence start P_(-1) = 0", "tolerance", "newton-stops-at-tolerance", "recurrence-range", "recurrence-shift-order", "root-loop-range",
                 "previous-iterate-saved"]


def formulas(chk, nf, name, where):
    """R17.3: the textbook definitions, stated on the normal form (values on loop entry, state transformer of one pass, loop
    conditions, element stores) with the roles z (iterate), p1, p2 (P_j, P_(j-1)), pp (derivative), i, j.  Which variable of the
    code plays which role is not read off its name: i and j are the pass counters of the root and recurrence loops, z and pp are
    among the variables the refinement loop carries, p1 and p2 among those the recurrence loop carries, and the assignment of
    roles under which most definitions hold is the one reported (a routine that conforms does so under exactly one assignment)."""
    import itertools
    # the three loops by their place: the loop that stores the results, the refinement loop inside it, the recurrence inside that
    root = [L for L in (nf.walk() if nf is not None else []) if L.kind != "top" and L.stores]
    newton = [c for c in root[0].children if c.children] if len(root) == 1 else []
    rec = newton[0].children if len(newton) == 1 else []
    if not (len(root) == 1 and len(newton) == 1 and len(rec) == 1 and not rec[0].children):
        for k in _FORMULA_KEYS:
            chk.ob("R17.3", "%s::%s" % (name, k), None, where, "the nest root loop / refinement loop / recurrence loop was not found in this form")
        return
    root, newton, rec = root[0], newton[0], rec[0]
    live = _live(nf)
    ci = root.counter or ("i" if "i" in root.defined else None)
    cj = rec.counter or ("j" if "j" in rec.defined else None)
    zp = sorted(((newton.defined - rec.defined) & live) - {ci, cj})
    pq = sorted((rec.defined & live) - {ci, cj})
    if ci is None or cj is None or len(zp) < 2 or len(pq) < 2 or len(zp) > 4 or len(pq) > 4:
        for k in _FORMULA_KEYS:
            chk.ob("R17.3", "%s::%s" % (name, k), None, where, "the variables that carry the iterate, the derivative and the two polynomial values were not identified "
                   "(counters %s, %s; carried by the refinement loop %s, by the recurrence %s)" % (ci, cj, zp, pq))
        return
    cands = [dict(i=ci, j=cj, z=a, pp=b, p1=c, p2=d) for a, b in itertools.permutations(zp, 2) for c, d in itertools.permutations(pq, 2)]
    # the textbook names first (then a conforming routine written with them is decided in one evaluation)
    cands.sort(key=lambda r: -sum(1 for k, v in r.items() if v.rsplit("::", 1)[-1] == k))
    best = None
    for roles in cands:
        res = _formula_results(root, newton, rec, roles)
        score = (sum(1 for _, ok, _ in res if ok is False), sum(1 for _, ok, _ in res if ok is None))
        if best is None or score < best[0]:
            best = (score, res, roles)
        if score == (0, 0):
            break
    _, res, roles = best
    chk.notes["roles_" + name] = dict(roles)
    renamed = {k: v for k, v in roles.items() if k != v}
    for key, ok, msg in res:
        chk.ob("R17.3", "%s::%s" % (name, key), ok, where, msg + (" [roles: %s]" % renamed if renamed and not ok else ""))


def _formula_results(root, newton, rec, roles):
    """[(key, ok, message)] of the textbook definitions with the given variables in the roles i, j, z, pp, p1, p2"""
    S = {n: sp.Symbol(n) for n in ("x1", "x2", "npts")}
    S.update({r: sp.Symbol(v) for r, v in roles.items()})
    x1, x2, npts, i, j, z, p1, p2, pp = (S[k] for k in ("x1", "x2", "npts", "i", "j", "z", "p1", "p2", "pp"))
    R = roles
    res = []

    def ob(key, ok, msg):
        res.append((key, ok, msg))

    def has(L, part, role, ref, key, what):
        """value of the role's variable (entry value or transformer) in loop L; not assigned there at all: the role was not recognised"""
        v = R[role]
        got = getattr(L, part).get(v)
        ob(key, None if got is None and v not in L.defined else _same_term(got, ref), "%s: %s (found %s)" % (key, what, got))

    # root loop: i = 1 .. (npts+1)/2
    bi = _bound(root, R["i"])
    has(root, "entry", "i", sp.Integer(1), "root-loop-range", "roots i = 1.. are computed and mirrored, i starts at 1")
    ob("number of roots computed (half, rounded up)", None if R["i"] not in root.defined else (bi is not None and _same_term(sp.floor(bi), sp.floor((npts + 1) / 2)) and _same_term(root.out.get(R["i"]), i + 1)),
       "the root loop runs while i <= (npts+1)/2 in steps of one (condition %s, step %s)" % (root.cond, root.out.get(R["i"])))
    has(newton, "entry", "z", sp.cos(sp.pi * (i - sp.Rational(1, 4)) / (npts + sp.Rational(1, 2))), "initial guess of root i", "z starts at cos(pi (i - 1/4)/(n + 1/2))")
    # recurrence loop
    has(rec, "out", "p1", ((2 * j - 1) * z * p1 - (j - 1) * p2) / j, "Legendre recurrence j P_j = (2j-1) z P_(j-1) - (j-1) P_(j-2)", "one pass maps (P_(j-1), P_(j-2)) = (p1, p2) to p1 = ((2j-1) z p1 - (j-1) p2)/j")
    has(rec, "out", "p2", p1, "recurrence-shift-order", "the previous value is shifted before the new one is formed: after one pass p2 is the old p1")
    has(rec, "entry", "p1", sp.Integer(1), "recurrence start P_0 = 1", "p1 = 1 when the recurrence starts")
    has(rec, "entry", "p2", sp.Integer(0), "recurrence start P_(-1) = 0", "p2 = 0 when the recurrence starts")
    bj = _bound(rec, R["j"])
    ob("recurrence-range", None if R["j"] not in rec.defined else (bj is not None and _same_term(bj, npts) and _same_term(rec.entry.get(R["j"]), sp.Integer(1)) and _same_term(rec.out.get(R["j"]), j + 1)),
       "the recurrence runs j = 1..npts (degree n polynomial) (from %s while %s, step %s)" % (rec.entry.get(R["j"]), rec.cond, rec.out.get(R["j"])))
    # refinement loop
    ppref = npts * (z * p1 - p2) / (z ** 2 - 1)
    has(newton, "out", "pp", ppref, "derivative identity P_n' = n (z P_n - P_(n-1))/(z^2-1)", "pp = n (z p1 - p2)/(z^2 - 1) with p1, p2 the results of the recurrence")
    znew = newton.out.get(R["z"])
    ppnew = newton.out.get(R["pp"])
    ob("Newton step", None if znew is None or ppnew is None else _same_term(znew, z - p1 / ppnew), "one pass maps z to z - p1/pp (found %s)" % znew)
    # the refinement repeats while |z_new - z_old| > tolerance
    c = newton.cond
    step = tol = None
    zold = z
    if isinstance(c, sp.Basic) and c.is_Relational and isinstance(c, (sp.Gt, sp.Ge, sp.Lt, sp.Le)):
        step, tol = (c.lhs, c.rhs) if isinstance(c, (sp.Gt, sp.Ge)) else (c.rhs, c.lhs)
        if newton.kind == "pre" and isinstance(step, sp.Symbol) and str(step) in newton.defined:
            step = newton.out.get(str(step))         # tested at the top of the next pass: the value the pass leaves behind
    is_step = step is not None and znew is not None and isinstance(step, sp.Abs) and _zero(step.args[0] ** 2 - (znew - zold) ** 2)
    ob("previous-iterate-saved", None if step is None or znew is None else is_step, "the convergence test uses |z - z1| with z1 the iterate before the Newton step (found %s)" % (step,))
    plain = tol is not None and tol.is_number
    ob("newton-stops-at-tolerance", None if step is None else bool(is_step and plain), "the root refinement repeats while |z - z1| > EPS, the plain tolerance (found `%s`)" % (c,))
    coeff = tol.as_coeff_Mul()[0] if tol is not None else None
    ob("tolerance", None if tol is None else bool(coeff.is_number and 0 < coeff <= sp.Rational(1, 10 ** 10)), "Newton tolerance EPS <= 1e-10 (found %s)" % (tol,))
    # results: x[i-1], x[npts-i], w[i-1], w[npts-i]
    st = {}
    for b, ix, v, ln in root.stores:
        st.setdefault(b, []).append((ix, v))

    def stored(base, index):
        if base not in st:
            return None, None
        hit = [v for ix, v in st[base] if _zero(ix - index)]
        return (hit[0] if len(hit) == 1 else None), True
    lo, found_x = stored("x", i - 1)
    hi, _ = stored("x", npts - i)
    wl, found_w = stored("w", i - 1)
    wh, _ = stored("w", npts - i)
    # a stored value that reads an element written by another pass (not followed by the executor) is not known: no verdict on it
    unread = [t for t in (lo, hi, wl, wh) if isinstance(t, sp.Basic) and any(e.func.__name__ in ("x", "w") for e in t.atoms(sp.core.function.AppliedUndef))]
    if unread:
        for key in ("interval midpoint", "interval half width", "lower abscissa", "mirrored abscissa (index sum n-1)", "weight 2 xl/((1-z^2) P_n'^2)", "mirrored weight"):
            ob(key, None, "a result is computed from an array element whose value was not followed (%s)" % unread[0])
        return res
    xm, xl = (x1 + x2) / 2, (x2 - x1) / 2
    if lo is not None:
        mid, half = lo.subs(z, 0), -sp.diff(lo, z)
        ob("interval midpoint", _same_term(mid, xm), "the abscissae are centred on (x1 + x2)/2 (found %s)" % mid)
        ob("interval half width", _same_term(half, xl), "the abscissae are scaled by (x2 - x1)/2 (found %s)" % half)
    else:
        ob("interval midpoint", None if not found_x else False, "no store to x[i - 1] found")
        ob("interval half width", None if not found_x else False, "no store to x[i - 1] found")
    ob("lower abscissa", None if not found_x else (lo is not None and _same_term(lo, xm - xl * z)), "x[i-1] = xm - xl z (found %s)" % lo)
    ob("mirrored abscissa (index sum n-1)", None if not found_x else (hi is not None and _same_term(hi, xm + xl * z)), "x[npts-i] = xm + xl z (found %s; stores at %s)" % (hi, [str(ix) for ix, _ in st.get("x", [])]))
    ob("weight 2 xl/((1-z^2) P_n'^2)", None if not found_w else (wl is not None and _same_term(wl, 2 * xl / ((1 - z ** 2) * pp ** 2))), "w[i-1] = 2 xl/((1 - z^2) pp^2) (found %s)" % wl)
    ob("mirrored weight", None if not found_w else (wh is not None and wl is not None and _same_term(wh, wl)), "the mirrored weight w[npts-i] equals the lower one (found %s; stores at %s)" % (wh, [str(ix) for ix, _ in st.get("w", [])]))
    return res


def _count_sign_test(test, name="npts"):
    """+1 when the test says `name <= 0` (name < 1, 0 >= name, not name > 0 ...), -1 when it says `name > 0`, else 0"""
    if isinstance(test, ast.UnaryOp) and isinstance(test.op, ast.Not):
        return -_count_sign_test(test.operand, name)
    if not (isinstance(test, ast.Compare) and len(test.ops) == 1):
        return 0
    a, b, op = test.left, test.comparators[0], type(test.ops[0])
    flip = {ast.Lt: ast.Gt, ast.Gt: ast.Lt, ast.LtE: ast.GtE, ast.GtE: ast.LtE}
    if isinstance(b, ast.Name) and b.id == name and op in flip:
        a, b, op = b, a, flip[op]
    if not (isinstance(a, ast.Name) and a.id == name and op in flip):
        return 0
    c = const_value(b)
    if isinstance(c, bool) or not isinstance(c, (int, float)):
        return 0
    if (op is ast.LtE and c == 0) or (op is ast.Lt and c == 1):
        return 1
    if (op is ast.Gt and c == 0) or (op is ast.GtE and c == 1):
        return -1
    return 0


def wrapper(chk, repo, cg):
    fmt, names = parse_tuple_binding(cg)
    chk.ob("R17.4", "cgauleg::parse-format", parse_tuple_format(fmt or "") == ["d", "d", "l"] and names == ["x1", "x2", "npts_long"], "esutil/integrate/cgauleg_pywrap.c", "PyArg_ParseTuple %r binds (x1, x2, npts) as double, double, long (%s)" % (fmt, names))
    fi = repo.func(IU + "gauleg")
    chk.analysed_unit(fi.qualname)
    cfg = cfg_of(fi)
    view = cfg.view()
    calls = [(n, c) for n in cfg.nodes for c in rules.stmts_calls(n) if dotted_name(c.func) == "_cgauleg.cgauleg"]
    ok = len(calls) == 1 and not calls[0][1].keywords and [rules.xnorm(a, fi.node) for a in calls[0][1].args] == ["x1", "x2", "npts"]
    chk.ob("R17.4", "gauleg::call-roles", ok if calls else None, fi.where(), "the extension is called with (x1, x2, npts)")
    # some raise is controlled by a test that says npts <= 0, and that test is decided before the extension is called
    okg = False
    for r in rules.raise_nodes(cfg):
        for b, lab in view.controlling_branches(r):
            if b.kind == "branch" and _count_sign_test(rules.expand(b.ast.test, fi.node)) == (1 if lab == "T" else -1):
                if calls and all(view.dominates(b, n) for n, _ in calls):
                    okg = True
    chk.ob("R17.4", "gauleg::nonpositive-count-rejected", okg if calls else None, fi.where(), "npts <= 0 raises and that test dominates the extension call")
    # what is returned is what the extension produced: the call itself, or its two components in the same order
    okr = None
    rets = rules.return_nodes(cfg)
    if calls and rets:
        okr = True
        for r in rets:
            v = r.ast.value
            if v is None:
                okr = False
                continue
            v = rules.expand(v, fi.node)
            if isinstance(v, ast.Call) and dotted_name(v.func) == "_cgauleg.cgauleg":
                continue
            comps = [_component(e, cfg, fi.node) for e in v.elts] if isinstance(v, ast.Tuple) and len(v.elts) == 2 else []
            if not (len(comps) == 2 and all(c is not None and dotted_name(c.func) == "_cgauleg.cgauleg" for c, _ in comps) and [k for _, k in comps] == [0, 1]):
                okr = False
    chk.ob("R17.4", "gauleg::returns-x-w", okr, fi.where(), "the (abscissae, weights) pair is returned as produced")
    fresh_arrays(chk, repo, fi)


# ---------------------------------------------------------------------------
# R17.4 fresh arrays: what gauleg hands out belongs to the caller
# ---------------------------------------------------------------------------
# gauleg is a public function: what a caller does with the arrays it gets (w *= f(x), an in-place change of variable) must not change
# what any later call returns -- "abscissae and weights agree with the Gauss-Legendre rule" is stated for every call, whatever calls
# came before.  So no array gauleg returns may be reachable from state that outlives the call: not handed out of a memoised function
# or a module-level container without a copy, and not filed there either.
_MEMOISERS = ("functools.lru_cache", "functools.cache")
_MAY_ALIAS = {"asarray", "asanyarray", "ascontiguousarray", "asfortranarray", "atleast_1d", "ravel", "squeeze", "reshape", "require", "transpose"}
_CONTAINER_READS = {"get", "setdefault", "values", "items", "__getitem__"}
_NEW, _KEPT, _DONTKNOW, _PARAM = "new", "kept", "?", "param"


class _Origins:
    """For one module-level function: where the objects an expression may denote were made, over reaching definitions.  Origins:
    (_NEW, id of the expression that makes a new object on every evaluation, text) / (_KEPT, text): an object that outlives the call
    (module-level name or container, attribute of a module-level object, mutable default, result of a memoised function) /
    (_PARAM, name): whatever the caller passed / (_DONTKNOW, text).  Containers are not told from their items (an item of a kept
    tuple is kept, an item of a new tuple of arrays made by the extension is new)."""

    _summaries = {}

    def __init__(self, repo, fi):
        self.repo, self.fi = repo, fi
        self.cfg = cfg_of(fi)
        self.view = self.cfg.view()
        self.IN, _ = self.view.reaching_defs()
        self.params = [p.lstrip("*") for p in fi.params]
        self.globals = {n for x in walk_no_nested(fi.node) if isinstance(x, (ast.Global, ast.Nonlocal)) for n in x.names}
        self.local = {x.id for x in walk_no_nested(fi.node) if isinstance(x, ast.Name) and isinstance(x.ctx, (ast.Store, ast.Del))} - self.globals

    # -- objects that outlive the call -------------------------------------------
    def persistent(self, e):
        """text when the expression denotes an object that is there before the call and stays after it"""
        mod = self.fi.module
        if isinstance(e, ast.Name):
            if e.id in self.globals:
                return "the global `%s`" % e.id
            if e.id in self.params:
                d = self.fi.defaults.get(e.id)
                if isinstance(d, (ast.Dict, ast.List, ast.Set)) or (isinstance(d, ast.Call) and call_name(d) in ("dict", "list", "set", "OrderedDict", "defaultdict")):
                    return "the default value of parameter `%s` (one object for all calls)" % e.id
                return None
            if e.id in self.local:
                return None
            if e.id in mod.consts or e.id in mod.funcs or e.id in mod.classes:
                return "the module-level `%s`" % e.id
            return None
        if isinstance(e, (ast.Attribute, ast.Subscript)):
            if isinstance(e, ast.Attribute) and dotted_name(e) and self.repo.resolve_name(mod, dotted_name(e)) != dotted_name(e) and isinstance(e.value, ast.Name) and e.value.id in mod.imports:
                return None                      # a name of an imported module
            b = self.persistent(e.value)
            return ("%s of %s" % ("an attribute" if isinstance(e, ast.Attribute) else "an item", b)) if b else None
        return None

    # -- origins -------------------------------------------------------------------
    def of(self, e, node, depth=0, seen=frozenset()):
        if depth > 14 or e is None:
            return {(_DONTKNOW, "not followed")}
        if isinstance(e, ast.Constant) or isinstance(e, (ast.BinOp, ast.UnaryOp, ast.Compare, ast.JoinedStr)):
            return {(_NEW, id(e), norm(e)[:60])}
        if isinstance(e, ast.IfExp):
            return self.of(e.body, node, depth + 1, seen) | self.of(e.orelse, node, depth + 1, seen)
        if isinstance(e, ast.BoolOp):
            return set().union(*[self.of(v, node, depth + 1, seen) for v in e.values])
        if isinstance(e, (ast.Tuple, ast.List)):
            return set().union(*[self.of(v, node, depth + 1, seen) for v in e.elts]) if e.elts else {(_NEW, id(e), norm(e))}
        if isinstance(e, ast.Starred):
            return self.of(e.value, node, depth + 1, seen)
        p = self.persistent(e)
        if p and not (isinstance(e, ast.Name) and e.id in self.globals and self.IN.get(node.id, {}).get(e.id)):
            return {(_KEPT, p)}
        if isinstance(e, ast.Name):
            defs = self.IN.get(node.id, {}).get(e.id)
            if not defs:
                return {(_DONTKNOW, "`%s`" % e.id)}
            out = set()
            for d in sorted(defs):
                if d == self.cfg.entry.id:
                    out.add((_PARAM, e.id) if e.id in self.params else (_DONTKNOW, "`%s`" % e.id))
                    continue
                if (d, e.id) in seen:
                    continue
                dn = self.cfg.node(d)
                a = dn.ast
                val = None
                if dn.kind == "stmt" and isinstance(a, ast.Assign):
                    for t in a.targets:
                        if any(isinstance(x, ast.Name) and x.id == e.id for x in ast.walk(t) if isinstance(getattr(x, "ctx", None), ast.Store)):
                            val = a.value
                            if isinstance(t, (ast.Tuple, ast.List)) and isinstance(val, (ast.Tuple, ast.List)) and len(t.elts) == len(val.elts) \
                                    and not any(isinstance(x, ast.Starred) for x in t.elts + val.elts):
                                val = next((v for x, v in zip(t.elts, val.elts) if isinstance(x, ast.Name) and x.id == e.id), val)
                elif dn.kind == "stmt" and isinstance(a, ast.AnnAssign) and a.value is not None:
                    val = a.value
                if val is None:
                    out.add((_DONTKNOW, "`%s` bound by `%s`" % (e.id, norm(a)[:50] if isinstance(a, ast.AST) else dn.kind)))
                else:
                    out |= self.of(val, dn, depth + 1, seen | {(d, e.id)})
            return out
        if isinstance(e, ast.Subscript):
            return self.of(e.value, node, depth + 1, seen)          # an item / a view of it
        if isinstance(e, ast.Attribute):
            if e.attr in ("T", "real", "imag", "flat", "base"):
                return self.of(e.value, node, depth + 1, seen)
            return {(_DONTKNOW, norm(e)[:60])}
        if isinstance(e, ast.Call):
            return self.of_call(e, node, depth, seen)
        return {(_DONTKNOW, norm(e)[:60])}

    def of_call(self, c, node, depth, seen):
        f = c.func
        d = dotted_name(f)
        mod = self.fi.module
        full = (self.repo.resolve_name(mod, d) if d else "") or ""
        new = {(_NEW, id(c), norm(c)[:60])}
        if d == "_cgauleg.cgauleg" or full.endswith("._cgauleg.cgauleg"):
            return new                                                 # the extension allocates both arrays in every call
        if isinstance(f, ast.Attribute) and not full.startswith(("numpy.", "copy.")):
            recv = self.persistent(f.value)
            if recv and f.attr in _CONTAINER_READS:
                return {(_KEPT, "%s (read by .%s)" % (recv, f.attr))}
            if f.attr == "copy" and not c.args and not c.keywords:
                return new
            if f.attr == "astype" and not any(k.arg == "copy" for k in c.keywords):
                return new
            if f.attr in _MAY_ALIAS or f.attr == "view":
                return self.of(f.value, node, depth + 1, seen)
        if full.startswith("numpy."):
            nm = full.rsplit(".", 1)[-1]
            cp = kwarg(c, "copy")
            if nm in ("array", "copy") and c.args and (cp is None or const_value(cp) is True):
                return new
            if nm in _MAY_ALIAS | {"array"} and c.args:
                return self.of(c.args[0], node, depth + 1, seen)
            return {(_DONTKNOW, norm(c)[:60])}
        if full == "copy.deepcopy" and len(c.args) == 1:
            return new
        if isinstance(f, ast.Name) and f.id in ("tuple", "list") and f.id not in self.local and len(c.args) == 1:
            return self.of(c.args[0], node, depth + 1, seen)
        callee = self.repo.funcs.get(full)
        if callee is not None and callee.cls is None and callee is not self.fi:
            memo = other = None
            for dec in callee.node.decorator_list:
                dd = dotted_name(dec.func if isinstance(dec, ast.Call) else dec)
                q = self.repo.resolve_name(callee.module, dd) if dd else None
                if q in _MEMOISERS:
                    memo = q
                else:
                    other = norm(dec)
            if memo:
                return {(_KEPT, "the result of `%s`, which %s memoises: every call with equal arguments gets the same object" % (callee.name, memo))}
            if other:
                return {(_DONTKNOW, "`%s` is wrapped by %s" % (callee.name, other[:40]))}
            summ = _Origins.summary(self.repo, callee)
            b = _bind_call(callee, c)
            out = set()
            for o in summ:
                if o[0] == _PARAM:
                    arg = b.get(o[1], callee.defaults.get(o[1])) if b is not None else None
                    out |= self.of(arg, node, depth + 1, seen) if arg is not None else {(_DONTKNOW, "argument `%s` of %s" % (o[1], callee.name))}
                elif o[0] == _NEW:
                    out.add((_NEW, (id(c), o[1]), o[2]))             # made anew in each call of the helper
                else:
                    out.add(o)
            return out
        return {(_DONTKNOW, norm(c)[:60])}

    def returned(self):
        """origins of everything the function returns.  (That a returned array is also filed in a persistent object matters only
        when a later call hands that object out again -- and that later return then has a kept origin itself.)"""
        out = set()
        for r in rules.return_nodes(self.cfg):
            out |= self.of(r.ast.value, r) if r.ast.value is not None else {(_NEW, id(r.ast), "None")}
        return out

    @classmethod
    def summary(cls, repo, f):
        if f.qualname in cls._summaries:
            return cls._summaries[f.qualname]
        cls._summaries[f.qualname] = {(_DONTKNOW, "recursion through %s" % f.name)}
        try:
            out = _Origins(repo, f).returned()
        except Exception as e:                      # a construct the graph builder does not model: no summary, no verdict
            out = {(_DONTKNOW, "%s not analysed (%s)" % (f.name, type(e).__name__))}
        cls._summaries[f.qualname] = out
        return out


def fresh_arrays(chk, repo, fi):
    _Origins._summaries = {}
    got = _Origins(repo, fi).returned()
    kept = sorted(o[1] for o in got if o[0] == _KEPT)
    unsure = sorted(str(o[1]) for o in got if o[0] in (_DONTKNOW, _PARAM))
    ok = False if kept else (None if unsure or not got else True)
    chk.ob("R17.4", "gauleg::hands-out-arrays-of-its-own", ok, fi.where(),
           "no array gauleg returns stays reachable from state that outlives the call (a later call must return the Gauss-Legendre rule whatever an earlier "
           "caller did to the arrays it was given): %s" % ("it returns %s" % kept[0] if kept else "origin not established for %s" % ", ".join(unsure[:3]) if ok is None else
                                                          "every returned object is made in the call (%s)" % ", ".join(sorted({o[2] for o in got if o[0] == _NEW})[:3])))


def cached_tables_readonly(chk, repo):
    """R17.5r: the node/weight tables kept on the object are never modified by the integrators (a later call would silently use the
    rescaled grid of an earlier one); decided by the alias/effect analysis with each table as a caller-owned root"""
    from vcheck import effects
    from checks.C15 import analyse_attr_root
    eng = effects.Effects(repo, {})
    # the tables of the two-dimensional integrator: whatever its _setup keeps on the object (the grids, or the rules they are made from)
    kept2 = sorted({a for _, a, whole, _, _ in _attr_stores(repo.func(IU + "QGauss2._setup")) if whole} - {"self.nx", "self.ny"})
    tables2 = ("self.xgrid", "self.ygrid", "self.wgrid") + tuple(a for a in kept2 if a not in ("self.xgrid", "self.ygrid", "self.wgrid"))
    for cls, tables, methods in (("QGauss", ("self.xxi", "self.wii"), ("integrate_func", "integrate_data", "integrate")),
                                 ("QGauss2", tables2, ("integrate_func",))):
        for m in methods:
            fi = repo.func(IU + "%s.%s" % (cls, m))
            for attr in tables:
                s = analyse_attr_root(eng, fi, attr)
                sites = [st for st in s.mut.get(attr, []) if st.kind in ("data", "meta")]
                # ... nor written through the attribute itself (self.T *= f, self.T[k] = v, self.T = other): the object sets its
                # tables up once, an integration that leaves other ones behind changes what the next call returns
                direct = [n for n, a, whole, _, _ in _attr_stores(fi) if a == attr] if cls == "QGauss2" else []
                chk.ob("R17.5r", "%s.%s::%s-not-modified" % (cls, m, attr), not sites and not direct, sites[0].where() if sites else fi.where(direct[0].ast) if direct else fi.where(),
                       "the cached table %s is only read%s" % (attr, ": " + sites[0].describe() if sites else ": `%s` stores into it" % norm(direct[0].ast)[:80] if direct else ""))


# ---------------------------------------------------------------------------
# helpers for the layout-independent Python rules
# ---------------------------------------------------------------------------
def _bind_call(callee, call, drop_self=True):
    """{parameter name: argument expression} of `call` against the parameter list of FuncInfo `callee`
    (None when the call uses * / ** arguments or does not fit the signature)"""
    params = [p for p in callee.params if not p.startswith("*")]
    if drop_self and callee.cls and params and not any(isinstance(d, ast.Name) and d.id == "staticmethod" for d in callee.node.decorator_list):
        params = params[1:]
    if any(isinstance(a, ast.Starred) for a in call.args) or any(k.arg is None for k in call.keywords) or len(call.args) > len(params):
        return None
    out = dict(zip(params, call.args))
    for k in call.keywords:
        if k.arg not in params or k.arg in out:
            return None
        out[k.arg] = k.value
    return out


def _is_none(e):
    return e is None or (isinstance(e, ast.Constant) and e.value is None)


def _formula(test, atoms):
    """propositional form of a branch test: and/or/not are interpreted, `x is None`, `a == b` (either order, != is its negation)
    and `a < b` (>=, >, <= by exchange / negation) become atoms; anything else is an atom of its own text"""
    def atom(key):
        if key not in atoms:
            atoms[key] = sp.Symbol("c%d" % len(atoms))
        return atoms[key]
    if isinstance(test, ast.BoolOp):
        vals = [_formula(v, atoms) for v in test.values]
        return sp.And(*vals) if isinstance(test.op, ast.And) else sp.Or(*vals)
    if isinstance(test, ast.UnaryOp) and isinstance(test.op, ast.Not):
        return sp.Not(_formula(test.operand, atoms))
    if isinstance(test, ast.Compare) and len(test.ops) == 1:
        a, b, op = test.left, test.comparators[0], test.ops[0]
        if isinstance(op, (ast.Is, ast.IsNot, ast.Eq, ast.NotEq)) and (_is_none(a) or _is_none(b)):
            f = atom(("isnone", norm(b if _is_none(a) else a)))
            return f if isinstance(op, (ast.Is, ast.Eq)) else sp.Not(f)
        if isinstance(op, (ast.Eq, ast.NotEq)):
            f = atom(("eq",) + tuple(sorted((norm(a), norm(b)))))
            return f if isinstance(op, ast.Eq) else sp.Not(f)
        if isinstance(op, ast.Lt):
            return atom(("lt", norm(a), norm(b)))
        if isinstance(op, ast.GtE):
            return sp.Not(atom(("lt", norm(a), norm(b))))
        if isinstance(op, ast.Gt):
            return atom(("lt", norm(b), norm(a)))
        if isinstance(op, ast.LtE):
            return sp.Not(atom(("lt", norm(b), norm(a))))
    return atom(("expr", norm(test)))


def _path_cond(view, n, fn, atoms):
    """the condition under which CFG node n runs, as a propositional formula over the atoms of the controlling tests
    (named temporaries in the tests are substituted first)"""
    f = sp.true
    for b, lab in view.controlling_branches(n):
        if b.kind == "branch" or (b.kind == "loop" and isinstance(b.ast, ast.While)):
            t = _formula(rules.expand(b.ast.test, fn), atoms)
            f = sp.And(f, t if lab == "T" else sp.Not(t))
    return f


def _equiv(a, b):
    from sympy.logic.inference import satisfiable
    return not satisfiable(sp.Xor(a, b))


def _stores(cfg):
    """attribute / name stores made by plain assignments: target text -> [(node, value)] where value is the assigned
    expression or ("item", <expr>, k) for the k-th component of an unpacked value"""
    out = {}

    def put(t, v, n):
        if isinstance(t, (ast.Tuple, ast.List)):
            for k, e in enumerate(t.elts):
                if isinstance(v, (ast.Tuple, ast.List)) and len(v.elts) == len(t.elts):
                    put(e, v.elts[k], n)
                else:
                    put(e, ("item", v, k), n)
        else:
            out.setdefault(norm(t), []).append((n, v))
    for n in cfg.nodes:
        a = n.ast
        if n.kind == "stmt" and isinstance(a, ast.Assign):
            for t in a.targets:
                put(t, a.value, n)
        elif n.kind == "stmt" and isinstance(a, ast.AnnAssign) and a.value is not None:
            put(a.target, a.value, n)
    return out


def _component(value, cfg, fn):
    """(producing call, component index or None) of a stored value: `a, b = f(..)` gives (f(..), 0) for a; a name bound once
    by such an unpacking is followed; a name bound once to a call gives (call, None)"""
    for _ in range(4):
        if isinstance(value, tuple) and value[0] == "item":
            inner = value[1]
            if isinstance(inner, ast.Name):
                inner = rules.expand(inner, fn)
            return (inner, value[2]) if isinstance(inner, ast.Call) else (None, None)
        if isinstance(value, ast.Call):
            return value, None
        if isinstance(value, ast.Name):
            defs = _stores(cfg).get(value.id, [])
            if len(defs) != 1:
                return None, None
            value = defs[0][1]
            continue
        if isinstance(value, ast.Subscript) and isinstance(const_value(value.slice), int):
            c, k = _component(value.value, cfg, fn)
            return (c, const_value(value.slice)) if c is not None and k is None else (None, None)
        return None, None
    return None, None


def _resolves_to(repo, fi, call, qualname):
    d = dotted_name(call.func)
    return d is not None and repo.resolve_name(fi.module, d) == qualname


def _self_callee(repo, fi, call):
    """FuncInfo of `self.m(...)` inside a method of the same class, else None"""
    d = dotted_name(call.func)
    if d and d.startswith("self.") and d.count(".") == 1 and fi.cls:
        q = "%s.%s.%s" % (fi.module.name, fi.cls, d[5:])
        if repo.has(q):
            return repo.func(q)
    return None


def _param_unchanged(fi, name):
    """name is a parameter of fi that is never re-bound in its body"""
    if name not in [p.lstrip("*") for p in fi.params]:
        return False
    cfg = cfg_of(fi)
    return not any(name in cfg.defs_uses(n)[0] for n in cfg.nodes if n.kind != "entry")


# ---------------------------------------------------------------------------
# where a (abscissae, weights) pair comes from: abstract evaluation of the functions that hand out rules
# ---------------------------------------------------------------------------
class _RV:
    """abstract value `component k (0 abscissae, 1 weights) of what gauleg(x1, x2, count) returns`; count is an expression over the
    state on entry of the function being evaluated (a parameter, a constant, an attribute of self)"""
    __slots__ = ("x1", "x2", "count", "k")

    def __init__(self, x1, x2, count, k):
        self.x1, self.x2, self.count, self.k = x1, x2, count, k

    def key(self):
        return (self.x1, self.x2, norm(self.count), self.k)

    def with_count(self, c):
        return _RV(self.x1, self.x2, c, self.k)


class _Pair:
    """a two-item sequence of rule components; gauleg's result is _Pair(component 0, component 1) of one rule"""
    __slots__ = ("a", "b")

    def __init__(self, a, b):
        self.a, self.b = a, b

    def key(self):
        return (self.a.key(), self.b.key())

    def item(self, k):
        return (self.a, self.b)[k]

    def proper(self):
        """abscissae first, weights second, of one rule"""
        return (self.a.k, self.b.k) == (0, 1) and self.a.key()[:3] == self.b.key()[:3]

    @staticmethod
    def of_rule(x1, x2, count):
        return _Pair(_RV(x1, x2, count, 0), _RV(x1, x2, count, 1))


_NONE, _UNKNOWN = "none", "unknown"
_KEEP_ARRAY = {"array", "asarray", "asanyarray", "ascontiguousarray", "copy"}
_INPLACE = {"sort", "fill", "put", "itemset", "resize", "partition", "setfield", "byteswap", "setflags"}
_DICT_READS = {"get", "pop", "clear", "keys"}


class _RuleEval:
    """For one function: which Gauss-Legendre rule an expression holds, for every way of reaching it.  Values are followed over
    reaching definitions through tuple unpacking and packing, value-keeping copies, private helpers (their summary: what each return
    hands back, in terms of the parameters) and module-level memo tables `T[count] = rule` whose every writer stores the rule of
    the key (so a read T.get(k) / T[k] is that rule or, for get, None).  int(n) / operator.index(n) of a point count is that count
    (the property quantifies over integer n).  Anything else is `unknown`."""

    _summaries = {}
    _memo = {}

    def __init__(self, repo, fi):
        self.repo, self.fi = repo, fi
        self.cfg = cfg_of(fi)
        self.view = self.cfg.view()
        self.IN, _ = self.view.reaching_defs()
        self.params = [p for p in fi.params if not p.startswith("*")]
        self.mutates = self._mutates()

    def _mutates(self):
        """does the function change array elements in place somewhere (then a followed array need not hold what it was given)"""
        for x in walk_no_nested(self.fi.node):
            if isinstance(x, ast.Subscript) and isinstance(x.ctx, (ast.Store, ast.Del)) and not (
                    isinstance(x.value, ast.Name) and x.value.id in self.fi.module.consts and x.value.id not in self.params):
                return True
            if isinstance(x, ast.AugAssign):
                return True
            if isinstance(x, ast.Call) and ((isinstance(x.func, ast.Attribute) and x.func.attr in _INPLACE) or kwarg(x, "out") is not None):
                return True
        return False

    # -- the count ------------------------------------------------------------
    def count_of(self, e, node, depth=0):
        if depth > 8 or e is None:
            return None
        if isinstance(e, ast.Constant) and isinstance(e.value, int) and not isinstance(e.value, bool):
            return e
        if isinstance(e, ast.Attribute) and norm(e).startswith("self.") and norm(e).count(".") == 1:
            return e
        if isinstance(e, ast.Call) and len(e.args) == 1 and not e.keywords and (
                (isinstance(e.func, ast.Name) and e.func.id == "int") or self.repo.resolve_name(self.fi.module, dotted_name(e.func) or "?") == "operator.index"):
            return self.count_of(e.args[0], node, depth + 1)
        if isinstance(e, ast.Name):
            defs = self.IN.get(node.id, {}).get(e.id)
            if not defs or len(defs) != 1:
                return None
            d = next(iter(defs))
            if d == self.cfg.entry.id:
                return e if e.id in self.params else None
            dn = self.cfg.node(d)
            a = dn.ast
            if dn.kind == "stmt" and isinstance(a, ast.Assign) and len(a.targets) == 1 and isinstance(a.targets[0], ast.Name) and a.targets[0].id == e.id:
                return self.count_of(a.value, dn, depth + 1)
        return None

    # -- calls that produce a rule ----------------------------------------------
    def rule_call(self, call, node):
        """alternatives (_Pair / _UNKNOWN) of a call of gauleg or of a module-level function whose returns hand back rule components;
        None for any other call"""
        d = dotted_name(call.func)
        q = self.repo.resolve_name(self.fi.module, d) if d else None
        if q == IU + "gauleg":
            b = _bind_call(self.repo.func(q), call)
            if b is None or not all(p in b for p in ("x1", "x2", "npts")):
                return [_UNKNOWN]
            x1, x2 = const_value(b["x1"]), const_value(b["x2"])
            c = self.count_of(b["npts"], node)
            if c is None or not all(isinstance(v, (int, float)) and not isinstance(v, bool) for v in (x1, x2)):
                return [_UNKNOWN]
            return [_Pair.of_rule(float(x1), float(x2), c)]
        f = self.repo.funcs.get(q) if q else None
        if f is None or f.cls is not None or f is self.fi:
            return None
        summ = _RuleEval.summary(self.repo, f)
        if summ is None:
            return None
        b = _bind_call(f, call)
        if b is None:
            return [_UNKNOWN]

        def at_call(rv):
            c = rv.count
            if isinstance(c, ast.Name):
                c = self.count_of(b.get(c.id, f.defaults.get(c.id)), node)
            return rv.with_count(c) if c is not None else None
        out = []
        for P in summ:
            x, y = at_call(P.a), at_call(P.b)
            out.append(_Pair(x, y) if x is not None and y is not None else _UNKNOWN)
        return out

    @classmethod
    def summary(cls, repo, f):
        """what the module-level function f returns, one _Pair per distinct alternative with the counts written over f's (never
        re-bound) parameters; None when some return is not positively a pair of rule components"""
        if f.qualname in cls._summaries:
            return cls._summaries[f.qualname]
        cls._summaries[f.qualname] = None          # recursion: no summary
        ev = _RuleEval(repo, f)
        vals = []
        for r in rules.return_nodes(ev.cfg):
            vals += ev.value(r.ast.value, r) if r.ast.value is not None else [_NONE]
        out = None
        if vals and not ev.mutates and all(isinstance(v, _Pair) for v in vals) and all(
                isinstance(c, ast.Constant) or (isinstance(c, ast.Name) and _param_unchanged(f, c.id)) for v in vals for c in (v.a.count, v.b.count)):
            out = list({v.key(): v for v in vals}.values())
        cls._summaries[f.qualname] = out
        return out

    # -- module-level memo tables -----------------------------------------------
    def memo_table(self, name):
        """(x1, x2) when the module-level name is a dictionary that maps a point count to the rule for that count: created empty,
        never rebound or handed out, and every store `T[k] = v` anywhere in the module stores the rule for count k; else None"""
        mod = self.fi.module
        key = (mod.name, name)
        if key in _RuleEval._memo:
            return _RuleEval._memo[key]
        init = mod.consts.get(name)
        empty = (isinstance(init, ast.Dict) and not init.keys) or (isinstance(init, ast.Call) and call_name(init) == "dict" and not init.args and not init.keywords)
        if not empty or name in self.params:
            _RuleEval._memo[key] = None
            return None
        _RuleEval._memo[key] = ("assumed",)         # inductive invariant: reads made while checking the writers may rely on it
        parent = {}
        for x in ast.walk(mod.tree):
            for c in ast.iter_child_nodes(x):
                parent[c] = x
        ok, bounds = True, set()
        for x in ast.walk(mod.tree):
            if isinstance(x, ast.Global) and name in x.names:
                ok = False
            if not (isinstance(x, ast.Name) and x.id == name):
                continue
            par = parent.get(x)
            if isinstance(x.ctx, ast.Store):
                ok = ok and isinstance(par, ast.Assign) and par in mod.tree.body and par.value is init
            elif isinstance(par, ast.Subscript) and par.value is x and isinstance(par.ctx, (ast.Load, ast.Del)):
                pass
            elif isinstance(par, ast.Subscript) and par.value is x and isinstance(par.ctx, ast.Store):
                st = parent.get(par)
                owner = [f for f in mod.funcs.values() if any(y is st for y in walk_no_nested(f.node))]
                if not (isinstance(st, ast.Assign) and len(st.targets) == 1 and len(owner) == 1):
                    ok = False
                    continue
                ev = self if owner[0] is self.fi else _RuleEval(self.repo, owner[0])
                nodes = [n for n in ev.cfg.nodes if n.ast is st]
                if len(nodes) != 1 or ev.mutates:
                    ok = False
                    continue
                k = ev.count_of(par.slice, nodes[0])
                vals = ev.value(st.value, nodes[0])
                if k is None or not vals or not all(isinstance(v, _Pair) and v.proper() and norm(v.a.count) == norm(k) for v in vals):
                    ok = False
                    continue
                bounds |= {(v.a.x1, v.a.x2) for v in vals}
            elif isinstance(par, ast.Attribute) and par.value is x and par.attr in _DICT_READS and isinstance(parent.get(par), ast.Call) and parent[par].func is par:
                pass
            elif isinstance(par, ast.Compare) and any(x is c for c in par.comparators) and all(isinstance(o, (ast.In, ast.NotIn)) for o in par.ops):
                pass
            elif isinstance(par, ast.Call) and call_name(par) == "len" and len(par.args) == 1 and par.args[0] is x:
                pass
            else:
                ok = False           # handed to other code / updated in a way not followed
        res = next(iter(bounds)) if ok and len(bounds) == 1 and None not in next(iter(bounds)) else None
        _RuleEval._memo[key] = res
        return res

    def table_read(self, e, node):
        """[_Pair, (_NONE)] when e is T[k] / T.get(k) / T.get(k, None) on a memo table"""
        if isinstance(e, ast.Subscript) and isinstance(e.value, ast.Name):
            name, k, opt = e.value.id, e.slice, False
        elif isinstance(e, ast.Call) and isinstance(e.func, ast.Attribute) and e.func.attr == "get" and isinstance(e.func.value, ast.Name) \
                and not e.keywords and (len(e.args) == 1 or (len(e.args) == 2 and _is_none(e.args[1]))):
            name, k, opt = e.func.value.id, e.args[0], True
        else:
            return None
        if name not in self.fi.module.consts or self.IN.get(node.id, {}).get(name):
            return None
        t = self.memo_table(name)
        if t is None:
            return None
        c = self.count_of(k, node)
        if c is None:
            return [_UNKNOWN]
        x1, x2 = (None, None) if t == ("assumed",) else t
        return [_Pair.of_rule(x1, x2, c)] + ([_NONE] if opt else [])

    # -- values -----------------------------------------------------------------
    def value(self, e, node, depth=0, seen=frozenset()):
        """list of _Pair / _RV / _NONE / _UNKNOWN, one per way the expression can have got its value"""
        if depth > 12:
            return [_UNKNOWN]
        if _is_none(e):
            return [_NONE]
        if isinstance(e, ast.IfExp):
            return self.value(e.body, node, depth + 1, seen) + self.value(e.orelse, node, depth + 1, seen)
        if isinstance(e, ast.Name):
            defs = self.IN.get(node.id, {}).get(e.id)
            if not defs:
                return [_UNKNOWN]
            out = []
            for d in sorted(defs):
                if d == self.cfg.entry.id or (d, e.id) in seen:
                    out.append(_UNKNOWN)
                    continue
                dn = self.cfg.node(d)
                a = dn.ast
                if not (dn.kind == "stmt" and isinstance(a, ast.Assign) and len(a.targets) == 1):
                    out.append(_UNKNOWN)
                    continue
                t = a.targets[0]
                if isinstance(t, ast.Name):
                    out += self.value(a.value, dn, depth + 1, seen | {(d, e.id)})
                elif isinstance(t, (ast.Tuple, ast.List)) and len(t.elts) == 2 and [norm(x) for x in t.elts].count(e.id) == 1 and all(isinstance(x, ast.Name) for x in t.elts):
                    k = [norm(x) for x in t.elts].index(e.id)
                    out += self.component(self.value(a.value, dn, depth + 1, seen | {(d, e.id)}), k)
                else:
                    out.append(_UNKNOWN)
            return out
        if isinstance(e, (ast.Tuple, ast.List)) and len(e.elts) == 2:
            a, b = (self.value(x, node, depth + 1, seen) for x in e.elts)
            if a and b and len(a) * len(b) <= 8 and all(isinstance(v, _RV) for v in a + b):
                return [_Pair(x, y) for x in a for y in b]
            return [_UNKNOWN]
        r = self.table_read(e, node)
        if r is not None:
            return r
        if isinstance(e, ast.Subscript) and isinstance(const_value(e.slice), int) and not isinstance(const_value(e.slice), bool) and -2 <= const_value(e.slice) < 2:
            return self.component(self.value(e.value, node, depth + 1, seen), const_value(e.slice) % 2)
        if isinstance(e, ast.Call):
            r = self.rule_call(e, node)
            if r is not None:
                return r
            # copies that keep every element: v.copy(), numpy.array(v) ... without a dtype
            f = e.func
            if isinstance(f, ast.Attribute) and f.attr == "copy" and not e.args and not e.keywords and dotted_name(f.value) not in ("numpy", "np", "copy"):
                return self.kept(self.value(f.value, node, depth + 1, seen))
            d = dotted_name(f)
            full = self.repo.resolve_name(self.fi.module, d) if d else ""
            if (full.startswith("numpy.") and full.rsplit(".", 1)[-1] in _KEEP_ARRAY or full in ("copy.copy", "copy.deepcopy")) and len(e.args) == 1 \
                    and all(k.arg in ("copy", "order") for k in e.keywords):
                return self.kept(self.value(e.args[0], node, depth + 1, seen))
        return [_UNKNOWN]

    @staticmethod
    def component(vals, k):
        """k-th item of each alternative; None has no items (the statement raises: that way of getting here hands nothing on)"""
        return [v.item(k) if isinstance(v, _Pair) else _UNKNOWN for v in vals if v != _NONE]

    @staticmethod
    def kept(vals):
        """an element-keeping copy of one table; of None it raises"""
        return [v if isinstance(v, _RV) else _UNKNOWN for v in vals if v != _NONE]


def _rule_of_call(repo, fi, call, node):
    """the alternatives (_Pair, counts in the terms of fi) of a call that produces rule components -- gauleg itself or a module-level
    helper that hands out rules (summarised by _RuleEval); None when it is no such call or some alternative could not be decided"""
    r = _RuleEval(repo, fi).rule_call(call, node)
    if r and all(isinstance(v, _Pair) and None not in (v.a.x1, v.b.x1) for v in r):
        return r
    return None


def _rule_call_count(repo, fi, call):
    """the argument expression (as written at the call) that is the point count of the rule the call produces, abscissae first and
    weights second; None when the call is not gauleg / such a helper"""
    d = dotted_name(call.func)
    q = repo.resolve_name(fi.module, d) if d else None
    f = repo.funcs.get(q) if q else None
    if f is None or f.cls is not None:
        return None
    b = _bind_call(f, call)
    if q == IU + "gauleg":
        return b.get("npts") if b else None
    summ = _RuleEval.summary(repo, f)
    if not summ or b is None or not all(P.proper() for P in summ) or len({norm(P.a.count) for P in summ}) != 1:
        return None
    c = summ[0].a.count
    return b.get(c.id, f.defaults.get(c.id)) if isinstance(c, ast.Name) else c


# kinds of integrand (of those the documentation of QGauss.integrate names) for which a type test holds
_DATA = ("ndarray", "list", "tuple")
_KINDS = ("function", "method") + _DATA
_TYPE_KINDS = {"types.FunctionType": {"function"}, "types.LambdaType": {"function"}, "types.MethodType": {"method"}, "types.BuiltinFunctionType": set(),
               "types.BuiltinMethodType": set(), "functools.partial": set(), "numpy.ufunc": set(), "collections.abc.Callable": {"function", "method"},
               "collections.Callable": {"function", "method"}, "typing.Callable": {"function", "method"}, "numpy.ndarray": {"ndarray"}, "list": {"list"}, "tuple": {"tuple"},
               "collections.abc.Sequence": {"list", "tuple"}, "collections.abc.Iterable": set(_DATA), "collections.abc.Sized": set(_DATA)}
_PRED_KINDS = {"inspect.isfunction": {"function"}, "inspect.ismethod": {"method"}, "inspect.isroutine": {"function", "method"}, "inspect.isbuiltin": set(),
               "callable": {"function", "method"}, "numpy.iterable": set(_DATA)}
_ATTR_KINDS = {"__call__": {"function", "method"}, "__code__": {"function"}, "__self__": {"method"}, "__func__": {"method"}, "__len__": set(_DATA), "__iter__": set(_DATA),
               "__getitem__": set(_DATA)}


def _integrand_kinds(repo, fi, e, param):
    """the subset of _KINDS -- plain Python function / bound method / tabulated values held in an array, list or tuple --
    for which the test expression on the parameter is true; None when the expression is not a recognised test of the argument's kind"""
    def types_of(t):
        ts = t.elts if isinstance(t, (ast.Tuple, ast.List, ast.Set)) else [t]
        out = set()
        for x in ts:
            d = dotted_name(x)
            q = repo.resolve_name(fi.module, d) if d else None
            if q not in _TYPE_KINDS:
                return None
            out |= _TYPE_KINDS[q]
        return out
    if isinstance(e, ast.UnaryOp) and isinstance(e.op, ast.Not):
        k = _integrand_kinds(repo, fi, e.operand, param)
        return None if k is None else set(_KINDS) - k
    if isinstance(e, ast.Call) and not e.keywords:
        d = dotted_name(e.func)
        q = repo.resolve_name(fi.module, d) if d else None
        if q == "isinstance" and len(e.args) == 2 and norm(e.args[0]) == param:
            return types_of(e.args[1])
        if q in _PRED_KINDS and len(e.args) == 1 and norm(e.args[0]) == param:
            return set(_PRED_KINDS[q])
        if q == "hasattr" and len(e.args) == 2 and norm(e.args[0]) == param and const_value(e.args[1]) in _ATTR_KINDS:
            return set(_ATTR_KINDS[const_value(e.args[1])])
    if isinstance(e, ast.Compare) and len(e.ops) == 1 and isinstance(e.left, ast.Call) and call_name(e.left) == "type" and len(e.left.args) == 1 \
            and norm(e.left.args[0]) == param and isinstance(e.ops[0], (ast.Is, ast.Eq, ast.In, ast.IsNot, ast.NotEq, ast.NotIn)):
        k = types_of(e.comparators[0])
        if k is None:
            return None
        return k if isinstance(e.ops[0], (ast.Is, ast.Eq, ast.In)) else set(_KINDS) - k
    return None


TABLES = ("self.xxi", "self.wii")


def _setup_events(repo, fi, depth=0):
    """[(cfg node, expression passed as the requested count)] for the nodes of fi that run QGauss.setup: a direct
    self.setup(..) call, or a call of a method of the object that itself runs setup on every path to its normal return
    with one of its own (unchanged) parameters as the count"""
    out = []
    cfg = cfg_of(fi)
    setup = repo.func(IU + "QGauss.setup")
    for n in cfg.nodes:
        for c in rules.stmts_calls(n):
            tgt = _self_callee(repo, fi, c)
            if tgt is None:
                continue
            b = _bind_call(tgt, c)
            if tgt is setup:
                out.append((n, None if b is None else b.get("npts", ast.Constant(value=None))))
            elif depth < 3 and tgt.name not in ("integrate_func", "integrate_data", "integrate"):
                inner = _setup_events(repo, tgt, depth + 1)
                if not inner:
                    continue
                v = cfg_of(tgt).view()
                for m, e in inner:
                    arg = e if isinstance(e, ast.Constant) else None
                    if b is not None and isinstance(e, ast.Name) and _param_unchanged(tgt, e.id) and v.dominates(m, cfg_of(tgt).exit):
                        arg = b.get(e.id, tgt.defaults.get(e.id))
                    out.append((n, arg))
    return out


def _reads_tables(repo, fi, seen=None):
    """does the method (or a method of the object it calls) read the cached abscissae / weights"""
    seen = seen if seen is not None else set()
    if fi.qualname in seen:
        return False
    seen.add(fi.qualname)
    for x in walk_no_nested(fi.node):
        if isinstance(x, ast.Attribute) and isinstance(x.ctx, ast.Load) and norm(x) in TABLES:
            return True
        if isinstance(x, ast.Call):
            tgt = _self_callee(repo, fi, x)
            if tgt is not None and tgt.name != "setup" and _reads_tables(repo, tgt, seen):
                return True
    return False


def _table_use_nodes(repo, fi):
    cfg = cfg_of(fi)
    out = []
    for n in cfg.nodes:
        if n.ast is None or n.kind not in ("stmt", "return", "branch", "loop", "raise", "with"):
            continue
        roots = [n.ast.test] if n.kind == "branch" else ([n.ast.test] if n.kind == "loop" and isinstance(n.ast, ast.While) else
                                                         [n.ast.iter] if n.kind == "loop" else [i.context_expr for i in n.ast.items] if n.kind == "with" else [n.ast])
        hit = False
        for r in roots:
            for x in walk_no_nested(r):
                if isinstance(x, ast.Attribute) and isinstance(x.ctx, ast.Load) and norm(x) in TABLES:
                    hit = True
                if isinstance(x, ast.Call):
                    tgt = _self_callee(repo, fi, x)
                    if tgt is not None and tgt.name != "setup" and _reads_tables(repo, tgt):
                        hit = True
        if hit:
            out.append(n)
    return out


def memo(chk, repo):
    fi = repo.func(IU + "QGauss.setup")
    chk.analysed_unit(fi.qualname)
    cfg = cfg_of(fi)
    view = cfg.view()
    fn = fi.node
    atoms = {}
    st = _stores(cfg)
    key = st.get("self.npts", [])
    tabs = [st.get("self.xxi", []), st.get("self.wii", [])]
    found = [len(key) == 1] + [len(t) == 1 for t in tabs]
    # positively identified: some of the three are stored here exactly once and another one is not stored at all;
    # none found / stored several times: the construct is laid out in a way this rule does not recognise
    ok = True if all(found) else (False if any(found) and any(len(x) == 0 for x in [key] + tabs) else None)
    chk.ob("R17.5", "QGauss.setup::key-and-tables-stored", ok, fi.where(), "setup stores the key (self.npts) and both tables")
    if ok:
        key = key[0]
        tabs = [t[0] for t in tabs]
        pc_key = _path_cond(view, key[0], fn, atoms)
        pcs = [_path_cond(view, t[0], fn, atoms) for t in tabs]
        same = all(_equiv(pc_key, p) for p in pcs)
        chk.ob("R17.5", "QGauss.setup::stored-together", same, fi.where(), "key and tables are written under the same conditions: %s" % (rules.controlling_tests(view, key[0]),))
        # the recompute guard: the tables are (re)computed exactly when a count is requested and it differs from the cached key
        a_none = _formula(ast.parse("npts is None", mode="eval").body, atoms)
        a_eq = _formula(ast.parse("npts == self.npts", mode="eval").body, atoms)
        known = {a_none, a_eq}
        if pcs[0].free_symbols <= known and _param_unchanged(fi, "npts"):
            okg = _equiv(pcs[0], sp.And(sp.Not(a_none), sp.Not(a_eq)))
        else:
            okg = None
        chk.ob("R17.5", "QGauss.setup::recompute-guard-compares-keys", okg, fi.where(),
               "tables are recomputed exactly when a count is requested that differs from the cached key (condition of the store: %s)" % (rules.controlling_tests(view, tabs[0][0]),))
        # the tables are the two results of one gauleg(-1, 1, <count>) call, abscissae first
        c0, k0 = _component(tabs[0][1], cfg, fn)
        c1, k1 = _component(tabs[1][1], cfg, fn)
        okt = None
        arg = None
        # the producing call is gauleg itself or a helper that hands out rules (what it returns is decided by _RuleEval)
        r0 = _rule_of_call(repo, fi, c0, tabs[0][0]) if c0 is not None else None
        r1 = r0 if c1 is c0 else (_rule_of_call(repo, fi, c1, tabs[1][0]) if c1 is not None else None)
        if r0 is not None and r1 is not None and k0 in (0, 1) and k1 in (0, 1):
            # in every alternative: the first table is component 0 (abscissae), the second component 1 (weights) of the rule on [-1, 1]
            got = [(P.item(k0), 0) for P in r0] + [(P.item(k1), 1) for P in r1]
            args = {norm(rules.expand(v.count, fn)) for v, _ in got}
            arg = next(iter(args)) if len(args) == 1 else None
            okt = (c0 is c1 or norm(c0) == norm(c1)) and all(v.k == k and v.x1 == -1.0 and v.x2 == 1.0 for v, k in got) \
                and arg in ("npts", "self.npts") and rules.xnorm(key[1], fn) == "npts" if not isinstance(key[1], tuple) else False
        chk.ob("R17.5", "QGauss.setup::tables-from-key", okt, fi.where(), "the tables are the rule on [-1,1] for the stored count (%s)" % (norm(c0) if c0 is not None else None,))
        if okt is not None:
            chk.ob("R17.5", "QGauss.setup::key-before-tables-or-same-value", arg == "npts" or (arg == "self.npts" and view.dominates(key[0], tabs[0][0])), fi.where(), "the count used for the tables is the requested one")
    # no other writer of the cached state
    writers = {}
    for q, f in repo.funcs.items():
        if q.startswith(IU + "QGauss."):
            for a in walk_no_nested(f.node):
                if isinstance(a, ast.Attribute) and isinstance(a.ctx, (ast.Store, ast.Del)) and norm(a) in ("self.npts", "self.xxi", "self.wii"):
                    writers.setdefault(norm(a), set()).add(f.name)
                if isinstance(a, ast.Call) and call_name(a) in ("setattr", "delattr") and a.args and norm(a.args[0]) == "self":
                    writers.setdefault("setattr(self, ...)", set()).add(f.name)
    ok = all(w <= {"__init__", "setup"} for w in writers.values()) and set(writers) == {"self.npts", "self.xxi", "self.wii"}
    chk.ob("R17.5", "QGauss::who-may-write-the-cache", ok, fi.where(), "only the constructor (to None) and setup write the cached key/tables (%s)" % {k: sorted(v) for k, v in writers.items()})
    init = repo.func(IU + "QGauss.__init__")
    iv = {}
    for a in walk_no_nested(init.node):
        if isinstance(a, ast.Assign):
            for t in a.targets:
                iv[norm(t)] = rules.xnorm(a.value, init.node)
    chk.ob("R17.5", "QGauss.__init__::starts-empty", iv.get("self.npts") == "None" and iv.get("self.xxi") == "None", init.where(), "a new object has no cached rule")
    for m in ("integrate_func", "integrate_data"):
        f = repo.func(IU + "QGauss." + m)
        vm = cfg_of(f).view()
        ev = _setup_events(repo, f)
        uses = _table_use_nodes(repo, f)
        if not ev or not uses:
            ok = None if not uses else False      # the tables are used and nothing here runs setup: a positive finding
        elif any(e is None for _, e in ev):
            ok = None                              # a setup call whose count argument could not be traced
        else:
            ok = len(ev) == 1 and norm(ev[0][1]) == "npts" and _param_unchanged(f, "npts") and all(vm.dominates(ev[0][0], u) for u in uses)
        chk.ob("R17.5", "QGauss.%s::setup-dominates-table-use" % m, ok, f.where(), "setup(npts=npts) runs (directly or through a method of the object) before the tables are used in every call")
    # integrate: function integrands go to integrate_func, anything else to integrate_data, always with (x, y, npts)
    ig = repo.func(IU + "QGauss.integrate")
    cfgi = cfg_of(ig)
    vi = cfgi.view()
    at = {}
    seen = {}
    okf = True
    isf = None
    for n in rules.return_nodes(cfgi):
        v = rules.expand(n.ast.value, ig.node) if n.ast.value is not None else None
        tgt = _self_callee(repo, ig, v) if isinstance(v, ast.Call) else None
        if tgt is None or tgt.name not in ("integrate_func", "integrate_data"):
            okf = None
            break
        b = _bind_call(tgt, v)
        if b is None:
            okf = None
            break
        second = "func" if tgt.name == "integrate_func" else "yvals"
        forwards = [norm(b[p]) if p in b else None for p in ("xvals", second, "npts")] == ["xvals", "yvals_or_func", "npts"]
        pc = _path_cond(vi, n, ig.node, at)
        seen.setdefault(tgt.name, []).append((forwards, pc))
    why = ""
    if okf:
        if set(seen) != {"integrate_func", "integrate_data"}:
            okf = False       # every return is a recognised call of an integrator and one of the two is never reached
        elif not at:
            okf = None
        else:
            # the dispatch is decided over the kinds of second argument the documentation names -- a plain function, a (bound) method,
            # tabulated values: every test atom is read as a predicate on that kind (_integrand_kinds) and the path conditions of
            # the two integrator calls are evaluated for each kind
            okf = all(fw for v in seen.values() for fw, _ in v) and all(_param_unchanged(ig, p) for p in ("xvals", "yvals_or_func", "npts"))
            pcf = sp.Or(*[pc for _, pc in seen["integrate_func"]])
            pcd = sp.Or(*[pc for _, pc in seen["integrate_data"]])
            kinds = {}
            for k, sym in at.items():
                kinds[sym] = _integrand_kinds(repo, ig, ast.parse(k[1], mode="eval").body, "yvals_or_func") if k[0] == "expr" else None
            if any(v is None for v in kinds.values()):
                okf = None if okf else okf    # dispatched on something that is not a recognised test of the kind of the second argument
            else:
                for kind, want_func in (("function", True), ("method", True)) + tuple((d, False) for d in _DATA):
                    sub = {sym: sp.true if kind in acc else sp.false for sym, acc in kinds.items()}
                    to_f, to_d = pcf.subs(sub), pcd.subs(sub)
                    if to_f not in (sp.true, sp.false) or to_d not in (sp.true, sp.false):
                        okf = None if okf else okf
                        break
                    if bool(to_f) != want_func or bool(to_d) == want_func:
                        okf = False
                        shown = " / ".join("`%s`" % k[1][:80] for k in at if k[0] == "expr")
                        why = ": the dispatch test %s sends %s to %s" % (shown, {"function": "a plain function", "method": "a bound method (documented: 'integrate a function or method')"}.get(kind, "tabulated values (%s)" % kind), "integrate_func" if to_f == sp.true else "integrate_data" if to_d == sp.true else "neither integrator")
                        break
    chk.ob("R17.5", "QGauss.integrate::forwards-npts", okf, ig.where(), "integrate forwards (x, y-or-function, npts) to the matching integrator (%s)%s" % ({k: [fw for fw, _ in v] for k, v in seen.items()}, why))
    # qgauss: a fresh integrator for npts points, asked once
    qg = repo.func(IU + "qgauss")
    oks = None
    rets = rules.return_nodes(cfg_of(qg))
    shown = None
    if len(rets) == 1 and rets[0].ast.value is not None:
        v = rules.expand(rets[0].ast.value, qg.node)
        shown = norm(v)
        if isinstance(v, ast.Call) and isinstance(v.func, ast.Attribute) and isinstance(v.func.value, ast.Call) \
                and repo.resolve_name(qg.module, dotted_name(v.func.value.func) or "?") == IU + "QGauss":
            ctor = _bind_call(repo.func(IU + "QGauss.__init__"), v.func.value)
            meth = repo.funcs.get(IU + "QGauss." + v.func.attr)
            b = _bind_call(meth, v) if meth is not None else None
            if ctor is not None and b is not None:
                second = {"integrate": "yvals_or_func", "integrate_func": "func", "integrate_data": "yvals"}.get(v.func.attr)
                oks = v.func.attr == "integrate" and norm(ctor.get("npts", ast.Constant(value=None))) == "npts" and norm(b.get("xvals", ast.Constant(value=None))) == "x" \
                    and norm(b.get(second, ast.Constant(value=None))) == "y" and ("npts" not in b or norm(b["npts"]) in ("npts", "None")) \
                    and all(_param_unchanged(qg, p) for p in ("x", "y", "npts"))
    chk.ob("R17.5", "qgauss::one-shot", oks, qg.where(), "qgauss(x, y, npts) is QGauss(npts).integrate(x, y) (found %s)" % shown)


# ---------------------------------------------------------------------------
# R17.5 (history clause): state kept on the integrator that is computed from the cached rule follows the rule's key
# ---------------------------------------------------------------------------
_KEY_STATE = ("self.npts",) + TABLES
_ENTRY_METHODS = ("integrate", "integrate_func", "integrate_data")
_MUTATORS = {"append", "extend", "insert", "update", "setdefault", "add", "__setitem__"}


def _self_attr(e):
    """'self.A' when e is that attribute of the object, else None"""
    if isinstance(e, ast.Attribute) and isinstance(e.value, ast.Name) and e.value.id == "self":
        return "self." + e.attr
    return None


def _attr_stores(fi):
    """stores into attributes of the object made by the method: [(cfg node, 'self.A', whole, value, key)] -- whole: the attribute is
    re-bound (self.A = v); otherwise something inside it is changed (self.A[k] = v, self.A.b = v, self.A.update(..), self.A += v)
    and `key` is the subscript / first argument"""
    out = []
    cfg = cfg_of(fi)

    def put(t, v, n, whole=True):
        if isinstance(t, ast.Starred):
            t = t.value
        if isinstance(t, (ast.Tuple, ast.List)):
            for k, e in enumerate(t.elts):
                put(e, v.elts[k] if isinstance(v, (ast.Tuple, ast.List)) and len(v.elts) == len(t.elts) else v, n, whole)
            return
        a = _self_attr(t)
        if a:
            out.append((n, a, whole, v, None))
            return
        base, key = t, None
        while isinstance(base, (ast.Subscript, ast.Attribute)) and _self_attr(base) is None:
            key = base.slice if isinstance(base, ast.Subscript) else None
            base = base.value
        a = _self_attr(base)
        if a:
            out.append((n, a, False, v, key))
    for n in cfg.nodes:
        a = n.ast
        if n.kind == "stmt" and isinstance(a, ast.Assign):
            for t in a.targets:
                put(t, a.value, n)
        elif n.kind == "stmt" and isinstance(a, ast.AnnAssign) and a.value is not None:
            put(a.target, a.value, n)
        elif n.kind == "stmt" and isinstance(a, ast.AugAssign):
            put(a.target, a.value, n, whole=False)
        for c in stmts_calls_of(n):
            f = c.func
            if isinstance(f, ast.Attribute) and f.attr in _MUTATORS:
                base = f.value
                while isinstance(base, ast.Subscript) and _self_attr(base) is None:
                    base = base.value
                at = _self_attr(base)
                if at:
                    vals = list(c.args) + [k.value for k in c.keywords]
                    out.append((n, at, False, ast.Tuple(elts=vals, ctx=ast.Load()), c.args[0] if c.args and f.attr in ("setdefault", "__setitem__") else None))
            if call_name(c) == "setattr" and len(c.args) == 3 and norm(c.args[0]) == "self" and isinstance(const_value(c.args[1]), str):
                out.append((n, "self." + const_value(c.args[1]), True, c.args[2], None))
    return out


def _mentions_rule_state(repo, fi, e, what=_KEY_STATE):
    """does the expression read the cached key / tables (directly or through a method of the object that reads the tables);
    the element type of a table is not a property of the rule"""
    skip = set()
    for x in walk_no_nested(e):
        if isinstance(x, ast.Attribute) and x.attr in ("dtype", "ndim", "flags", "itemsize") and norm(x.value) in what:
            skip.add(x.value)
    for x in walk_no_nested(e):
        if isinstance(x, ast.Attribute) and isinstance(x.ctx, ast.Load) and norm(x) in what and x not in skip:
            return True
        if isinstance(x, ast.Call):
            tgt = _self_callee(repo, fi, x)
            if tgt is not None and tgt.name != "setup" and _reads_tables(repo, tgt):
                return True
    return False


def _def_sources(n):
    """the expressions a defining CFG node takes its value(s) from"""
    a = n.ast
    if n.kind == "stmt" and isinstance(a, (ast.Assign, ast.AugAssign, ast.AnnAssign)):
        return [a.value] if a.value is not None else []
    if n.kind == "loop" and isinstance(a, ast.For):
        return [a.iter]
    if n.kind == "with":
        return [i.context_expr for i in a.items]
    return []


def _loaded_names(e):
    return {x.id for x in ast.walk(e) if isinstance(x, ast.Name) and isinstance(x.ctx, ast.Load)}


def _flows_from(cfg, IN, e, node, hit, seen=None):
    """is the value of e at the node computed (over reaching definitions, through any operation) from an expression on which
    hit(expression) holds"""
    seen = set() if seen is None else seen
    if hit(e):
        return True
    for nm in sorted(_loaded_names(e)):
        for d in sorted(IN.get(node.id, {}).get(nm, ())):
            if d == cfg.entry.id or (d, nm) in seen:
                continue
            seen.add((d, nm))
            dn = cfg.node(d)
            if any(_flows_from(cfg, IN, src, dn, hit, seen) for src in _def_sources(dn)):
                return True
    return False


def _class_methods(repo, cls):
    return {f.name: f for q, f in repo.funcs.items() if q.startswith(IU + cls + ".") and f.cls == cls}


def _call_sites(repo, methods, target):
    """[(calling method, cfg node)] of the calls self.<target>(..) made by the methods of the class"""
    out = []
    for m in methods.values():
        for n in cfg_of(m).nodes:
            if any(_self_callee(repo, m, c) is target for c in stmts_calls_of(n)):
                out.append((m, n))
    return out


def _definite_store_nodes(repo, methods, fi, attr, depth=0):
    """CFG nodes of fi after which the attribute has been re-bound in this call: a store self.A = v, or a call of a method of the
    object in which such a node lies on every path to the normal return"""
    cfg = cfg_of(fi)
    out = [n for n, a, whole, _, _ in _attr_stores(fi) if a == attr and whole]
    if depth < 3:
        for n in cfg.nodes:
            for c in stmts_calls_of(n):
                tgt = _self_callee(repo, fi, c)
                if tgt is None or tgt is fi:
                    continue
                v = cfg_of(tgt).view()
                if any(v.dominates(m, cfg_of(tgt).exit) for m in _definite_store_nodes(repo, methods, tgt, attr, depth + 1)):
                    out.append(n)
    return out


def _fresh(repo, methods, fi, node, attr, depth=0):
    """the attribute read at this node was re-bound earlier in the same call: in this method, or -- for a private helper -- before
    every call of the helper"""
    v = cfg_of(fi).view()
    if any(s is not node and v.dominates(s, node) for s in _definite_store_nodes(repo, methods, fi, attr)):
        return True
    if depth < 3 and fi.name.startswith("_") and not fi.name.startswith("__"):
        sites = _call_sites(repo, methods, fi)
        return bool(sites) and all(m is not fi and _fresh(repo, methods, m, n, attr, depth + 1) for m, n in sites)
    return False


def _guards(repo, methods, fi, node, depth=0):
    """the (expanded) tests that decide whether the node runs: those of its own method and, for a helper, of its call sites"""
    v = cfg_of(fi).view()
    out = [rules.expand(b.ast.test, fi.node) for b, _ in v.controlling_branches(node) if b.kind == "branch" or (b.kind == "loop" and isinstance(b.ast, ast.While))]
    if depth < 3 and fi.name not in _ENTRY_METHODS:
        for m, n in _call_sites(repo, methods, fi):
            if m is not fi:
                out += _guards(repo, methods, m, n, depth + 1)
    return out


def _compares_key(repo, fi, tests):
    """True: some test compares the cached point count (==, !=, in); None: the key / tables occur in a test in another way; False: not at all"""
    some = False
    for t in tests:
        # `self.npts is None` asks whether a rule exists at all, not which one
        t = _DropNoneTests().visit(_copy.deepcopy(t))
        for x in walk_no_nested(t):
            if isinstance(x, ast.Compare) and all(isinstance(o, (ast.Eq, ast.NotEq, ast.In, ast.NotIn)) for o in x.ops) and _mentions_rule_state(repo, fi, x, ("self.npts",)):
                return True
        if _mentions_rule_state(repo, fi, t):
            some = True
    return None if some else False


class _DropNoneTests(ast.NodeTransformer):
    """`e is None`, `e is not None`, `e == None`, `e != None` replaced by a constant"""

    def visit_Compare(self, x):
        if len(x.ops) == 1 and isinstance(x.ops[0], (ast.Is, ast.IsNot, ast.Eq, ast.NotEq)) and (_is_none(x.left) or _is_none(x.comparators[0])):
            return ast.copy_location(ast.Constant(value=True), x)
        return self.generic_visit(x)


def derived_state(chk, repo):
    """'results do not depend on point counts used in earlier calls on the same object': besides the key and the two tables, anything
    the object keeps from one call to the next that was computed from the tables (mapped abscissae, scaled weights, function values
    at the nodes ...) belongs to the rule of the count it was computed for.  Necessary: such an attribute is (a) re-bound in every
    call before it is read, or (b) written by setup whenever setup rewrites the tables, or (c) reused only under a test that compares
    the cached count / stored under a key that contains it.  Otherwise a call with another npts reuses values of the old rule."""
    methods = _class_methods(repo, "QGauss")
    setup = repo.func(IU + "QGauss.setup")
    # methods whose reads matter: the integrators and the methods of the object they call
    scope, todo = {}, [methods[m] for m in _ENTRY_METHODS if m in methods]
    while todo:
        f = todo.pop()
        if f.name in scope:
            continue
        scope[f.name] = f
        for x in walk_no_nested(f.node):
            if isinstance(x, ast.Call):
                tgt = _self_callee(repo, f, x)
                if tgt is not None and tgt.name != "setup":
                    todo.append(tgt)
    stores = {}
    for f in methods.values():
        cfg = cfg_of(f)
        IN, _ = cfg.view().reaching_defs()
        for n, attr, whole, val, key in _attr_stores(f):
            if attr in _KEY_STATE:
                continue
            derived = val is not None and _flows_from(cfg, IN, val, n, lambda e, f=f: _mentions_rule_state(repo, f, e, TABLES))
            stores.setdefault(attr, []).append((f, n, whole, val, key, derived))
    kept = sorted(a for a, st in stores.items() if any(s[5] for s in st))
    chk.ob("R17.5", "QGauss::state-derived-from-the-tables", True, setup.where(),
           "attributes of the object computed from the cached tables: %s" % (kept or "none besides the tables themselves"))
    atoms = {}
    vs = cfg_of(setup).view()
    tab_nodes = [n for n, a, whole, _, _ in _attr_stores(setup) if a in TABLES]
    for attr in kept:
        reads = []
        for f in scope.values():
            for n in cfg_of(f).nodes:
                if n.ast is None or n.kind in ("def", "handler", "try"):
                    continue
                roots = [n.ast.test] if n.kind == "branch" or (n.kind == "loop" and isinstance(n.ast, ast.While)) else \
                    [n.ast.iter] if n.kind == "loop" else [i.context_expr for i in n.ast.items] if n.kind == "with" else [n.ast]
                if any(isinstance(x, ast.Attribute) and isinstance(x.ctx, ast.Load) and _self_attr(x) == attr for r in roots for x in walk_no_nested(r)):
                    reads.append((f, n))
        stale = [(f, n) for f, n in reads if not _fresh(repo, methods, f, n, attr)]
        dst = [s for s in stores[attr] if s[5]]
        f0, n0 = dst[0][0], dst[0][1]
        key = "QGauss::derived-state-follows-the-key::%s" % attr
        if not stale:
            chk.ob("R17.5", key, True, f0.where(n0.ast), "%s is computed from the tables and re-bound in every call before it is read (%d reads)" % (attr, len(reads)))
            continue
        # (b) setup writes it whenever it rewrites the tables
        resets = [n for n, a, whole, _, _ in _attr_stores(setup) if a == attr and whole]
        if tab_nodes and resets:
            pct = [_path_cond(vs, t, setup.node, atoms) for t in tab_nodes]
            pcr = sp.Or(*[_path_cond(vs, r, setup.node, atoms) for r in resets])
            from sympy.logic.inference import satisfiable
            if all(not satisfiable(sp.And(p, sp.Not(pcr))) for p in pct):
                chk.ob("R17.5", key, True, f0.where(n0.ast), "%s is computed from the tables; setup writes it whenever it recomputes them" % attr)
                continue
        # (c) reuse decided by a comparison of the count / stored under a key that contains the count
        verdicts = []
        shown = []
        for f, n, whole, val, k, _ in dst:
            if f is setup:
                continue
            tests = _guards(repo, methods, f, n) + ([rules.expand(k, f.node)] if k is not None else [])
            if k is not None and _mentions_rule_state(repo, f, rules.expand(k, f.node), ("self.npts",)):
                verdicts.append(True)
                continue
            verdicts.append(_compares_key(repo, f, tests))
            shown.append("%s.%s stores it %s" % ("QGauss", f.name, ("when `%s`" % "` / `".join(norm(t)[:90] for t in tests[:3])) if tests else "unconditionally"))
        # the reads that may see an earlier call's value: also their own guards may compare the count
        if verdicts and all(v is False for v in verdicts):
            rv = [_compares_key(repo, f, _guards(repo, methods, f, n)) for f, n in stale]
            if any(r is not False for r in rv):
                verdicts = [None]
        ok = None if not verdicts else (False if all(v is False for v in verdicts) else (True if all(v is True for v in verdicts) else None))
        f1, n1 = stale[0]
        chk.ob("R17.5", key, ok, f0.where(n0.ast),
               "%s holds values computed from the cached tables (self.xxi / self.wii) and `%s` in QGauss.%s can read what an earlier call left there%s"
               % (attr, norm(n1.ast)[:70] if n1.kind not in ("branch", "loop") else norm(n1.ast.test if hasattr(n1.ast, "test") else n1.ast.iter)[:70], f1.name,
                  "; reuse is decided by a comparison with the cached point count" if ok else
                  ": %s; no test on that path compares the point count and setup does not reset it when it recomputes the tables, so after a call with another npts "
                  "the values of the old rule are used" % "; ".join(shown[:2]) if ok is False else
                  ": %s; how its reuse is tied to the point count was not recognised" % "; ".join(shown[:2])))


# ---------------------------------------------------------------------------
# R17.5 (history clause): rules the object keeps for later (a per-object table of rules) are filed under their own count
# ---------------------------------------------------------------------------
def _attr_reaching(fi, attr, node):
    """the values the attribute self.A can hold when the node starts: [("entry",)] (what the object held when the method was
    entered) and / or [("store", cfg node, value)] for the re-binding stores of this method from which the node is reached with no
    other re-binding in between; None when the attribute is changed in a way not followed (setattr, in-place change, method calls
    that store it)"""
    cfg = cfg_of(fi)
    view = cfg.view()
    sts = [(n, whole, v) for n, a, whole, v, _ in _attr_stores(fi) if a == attr]
    if any(not whole for _, whole, _ in sts):
        return None
    out = []
    nodes = [n for n, _, _ in sts]
    for n, _, v in sts:
        if n is not node and view.reaches(n, node, avoiding=[m for m in nodes if m is not n]):
            tv = [tv for t, tv in _stores(cfg).items() if t == attr for tv in tv if tv[0] is n]
            out.append(("store", n, tv[0][1] if len(tv) == 1 else None))
    if view.path_exists_entry_to(node, avoiding=nodes):
        out.append(("entry",))
    return out


def _state_term(repo, fi, e, node, depth=0):
    """normal form of a point count / key expression evaluated at the node: ('param', name) for a never re-bound parameter,
    ('const', v), ('entry', 'self.A') for what an attribute held when the method was entered; None when not decided"""
    if depth > 6 or e is None or isinstance(e, tuple):
        return None
    e = rules.expand(e, fi.node) if isinstance(e, ast.Name) and e.id not in [p.lstrip("*") for p in fi.params] else e
    if isinstance(e, ast.Constant) and isinstance(e.value, int) and not isinstance(e.value, bool):
        return ("const", e.value)
    if isinstance(e, ast.Name):
        return ("param", e.id) if _param_unchanged(fi, e.id) else None
    if isinstance(e, ast.Call) and len(e.args) == 1 and not e.keywords and (isinstance(e.func, ast.Name) and e.func.id == "int"
                                                                          or repo.resolve_name(fi.module, dotted_name(e.func) or "?") == "operator.index"):
        return _state_term(repo, fi, e.args[0], node, depth + 1)
    a = _self_attr(e)
    if a:
        r = _attr_reaching(fi, a, node)
        if not r or len(r) != 1:
            return None
        if r[0] == ("entry",):
            return ("entry", a)
        return _state_term(repo, fi, r[0][2], r[0][1], depth + 1)
    return None


def _kept_rule_counts(repo, fi, e, node):
    """the point counts (normal forms of _state_term, None = not decided) of the rule components an expression holds at the node,
    one per component and way of reaching it; [] when the expression positively holds no rule component.  The cached tables
    self.xxi / self.wii as they were on entry belong to the count the object held on entry (the invariant the other R17.5 rules
    establish)."""
    ev = _RuleEval(repo, fi)
    cfg = cfg_of(fi)
    if isinstance(e, ast.Name):
        e2 = rules.expand(e, fi.node)
        if e2 is not e and not isinstance(e2, ast.Name):
            e = e2
    if isinstance(e, (ast.Tuple, ast.List)):
        out = []
        for x in e.elts:
            out += _kept_rule_counts(repo, fi, x, node)
        return out
    a = _self_attr(e)
    if a in TABLES:
        r = _attr_reaching(fi, a, node)
        if r is None:
            return [None]
        out = []
        for alt in r:
            if alt == ("entry",):
                out.append(("entry", "self.npts"))
                continue
            _, sn, val = alt
            c, k = _component(val, cfg, fi.node) if val is not None else (None, None)
            alts = ev.rule_call(c, sn) if c is not None else None
            if not alts:
                # a table re-bound to something that is no rule call: e.g. a read of the kept rules themselves
                out.append(None)
                continue
            for P in alts:
                rv = P.item(k) if isinstance(P, _Pair) and k in (0, 1) else None
                out.append(_state_term(repo, fi, rv.count, sn) if rv is not None else None)
        return out
    vals = ev.value(e, node)
    out = []
    for v in vals:
        for rv in ((v.a, v.b) if isinstance(v, _Pair) else (v,) if isinstance(v, _RV) else ()):
            out.append(_state_term(repo, fi, rv.count, node))
    return out


def kept_rules(chk, repo):
    """'results do not depend on point counts used in earlier calls on the same object': when the object keeps rules it has computed
    for later calls (self.D[k] = (abscissae, weights)), a later request for k points is answered with what is filed under k.
    Necessary (the writer invariant, the same one _RuleEval.memo_table demands of module-level tables): at every such store the key
    is the point count of the rule being stored, for every state of the object -- both are brought to a normal form over the
    method's parameters and the attribute values on entry (attribute reads resolved over the re-binding stores that reach them)."""
    methods = _class_methods(repo, "QGauss")
    setup = repo.func(IU + "QGauss.setup")
    found = 0
    for f in methods.values():
        view = cfg_of(f).view()
        for n, attr, whole, val, key in _attr_stores(f):
            if whole or key is None or attr in _KEY_STATE or val is None:
                continue
            if isinstance(n.ast, ast.AugAssign):
                continue
            counts = _kept_rule_counts(repo, f, val, n)
            if not counts:
                continue              # not a store of rule components
            found += 1
            kt = _state_term(repo, f, key, n)
            # tests on the way that equate two terms (`if npts == self.npts:` ...)
            same = set()
            for b, lab in view.controlling_branches(n):
                if b.kind == "branch":
                    for t in walk_no_nested(rules.expand(b.ast.test, f.node)):
                        if isinstance(t, ast.Compare) and len(t.ops) == 1 and ((isinstance(t.ops[0], ast.Eq) and lab == "T") or (isinstance(t.ops[0], ast.NotEq) and lab == "F")) \
                                and not isinstance(b.ast.test, ast.BoolOp):
                            x, y = _state_term(repo, f, t.left, b), _state_term(repo, f, t.comparators[0], b)
                            if x and y:
                                same.add(frozenset((x, y)))
            if kt is None or any(c is None for c in counts):
                ok = None
            else:
                ok = all(c == kt or frozenset((c, kt)) in same for c in counts)
            bad = next((c for c in counts if c is not None and kt is not None and c != kt), None)

            def show(t):
                return {"param": "the argument `%s`", "const": "%s", "entry": "the value `%s` had when the call began"}[t[0]] % t[1]
            chk.ob("R17.5", "QGauss::kept-rules-filed-under-their-count::%s.%s" % (f.name, attr), ok, f.where(n.ast),
                   "`%s` keeps rule components on the object under a key: the key must be the point count of the rule stored%s"
                   % (norm(n.ast)[:90], "" if ok else (": the rule stored is the one for %s but the key `%s` is %s, so a later request for that count is answered with the rule of another count"
                                                       % (show(bad), norm(key)[:40], show(kt))) if ok is False and bad else ": key or count not brought to a normal form"))
    if not found:
        chk.ob("R17.5", "QGauss::kept-rules-filed-under-their-count", True, setup.where(), "the object keeps no table of rules besides the cached pair")


class _NoTerm:
    """the symbolic evaluator met a construct it does not model: no term, so no verdict from the formula rule built on it
    (the other rules of the check still give theirs)"""

    def __init__(self, why):
        self.why = why

    def __repr__(self):
        return "no term: %s" % self.why


class _Positional(ast.NodeTransformer):
    """`f(p=a, q=b)` -> `f(a, b)` for calls of package functions whose signature is known, when the keywords name the leading
    parameters and are written in parameter order (same values, same evaluation order): the symbolic evaluator forms the term of
    an opaque callee from its positional arguments"""

    def __init__(self, repo, fi):
        self.repo, self.fi = repo, fi

    def visit_Call(self, c):
        self.generic_visit(c)
        if not c.keywords:
            return c
        d = dotted_name(c.func)
        q = self.repo.resolve_name(self.fi.module, d) if d else None
        f = self.repo.funcs.get(q) if q else None
        if f is None or f.cls is not None or any(p.startswith("*") for p in f.params) or f.node.args.kwonlyargs:
            return c
        b = _bind_call(f, c)
        if b is None:
            return c
        lead = f.params[:len(b)]
        written = [a for a in c.args] + [k.value for k in c.keywords]
        if set(lead) != set(b) or [b[p] for p in lead] != written:
            return c
        return ast.copy_location(ast.Call(func=c.func, args=[b[p] for p in lead], keywords=[]), c)


def _positional(repo, fi):
    from vcheck.core import FuncInfo
    node = _Positional(repo, fi).visit(_copy.deepcopy(fi.node))
    ast.fix_missing_locations(node)
    return FuncInfo(fi.qualname, fi.module, fi.cls, node, fi.path)


def _sym_run(se, fi, env):
    try:
        fi = _positional(se.repo, fi)
    except Exception:
        pass
    try:
        return se.run(fi, env, {})
    except symx.Unsupported as e:
        return _NoTerm(str(e))


# ---------------------------------------------------------------------------
# R17.6 returns: no input-dependent special case replaces the weighted sum
# ---------------------------------------------------------------------------
_MACHINE_CONSTANTS = {"numpy.finfo": ("eps", "epsneg", "tiny", "resolution", "smallest_normal", "smallest_subnormal", "max"),
                      "sys.float_info": ("epsilon", "min", "max")}


def _machine_constant(repo, mod, e):
    """a positive symbol when the attribute expression is a positive floating-point constant of the platform
    (numpy.finfo(T).eps / .tiny / .., sys.float_info.epsilon / .min): what is known about it is its sign"""
    if not isinstance(e, ast.Attribute):
        return None
    base = e.value.func if isinstance(e.value, ast.Call) else e.value
    d = dotted_name(base)
    full = repo.resolve_name(mod, d) if d else None
    if full in _MACHINE_CONSTANTS and e.attr in _MACHINE_CONSTANTS[full] and isinstance(e.value, ast.Call) == (full == "numpy.finfo"):
        return sp.Symbol("FLT_%s" % e.attr.upper(), positive=True)
    return None


class _GuardEnv(symx.Env):
    """the symbolic evaluator's environment, reading the platform's positive floating-point constants as positive symbols, so that a
    comparison of a data term with such a constant is a relation between terms rather than a test it cannot see into"""

    def ev(self, e, stmt_level=False):
        if isinstance(e, ast.Attribute):
            k = _machine_constant(self.se.repo, self.mod, e)
            if k is not None:
                return k
        if isinstance(e, ast.Call):
            t = self._contraction(e)
            if t is not None:
                return t
        return super().ev(e, stmt_level)

    def _contraction(self, c):
        """the term of an array contraction the evaluator has no term for (`a.dot(b)`, numpy.vdot / matmul / tensordot / einsum):
        an uninterpreted application named after the operation, so that the rule about how the weights are summed can see it"""
        f = c.func
        d = dotted_name(f)
        full = (self.se.repo.resolve_name(self.mod, d) if d else "") or ""
        ops = None
        if full.startswith("numpy.") and full.rsplit(".", 1)[-1] in ("vdot", "matmul", "tensordot") and len(c.args) >= 2:
            name, ops = full.rsplit(".", 1)[-1].upper(), c.args[:2]
        elif full == "numpy.einsum" and len(c.args) >= 3 and isinstance(const_value(c.args[0]), str):
            name, ops = "EINSUM", c.args[1:]
        elif isinstance(f, ast.Attribute) and f.attr == "dot" and len(c.args) == 1 and not c.keywords and not full.startswith(("numpy.", "scipy.")):
            name, ops = "DOT", [f.value, c.args[0]]
        if ops is None:
            return None
        vals = [self.ev(a) for a in ops]
        if not all(symx._is_expr(v) for v in vals):
            return None
        return sp.Function(name)(*[symx._as_expr(v) for v in vals])


_SHAPE_MAKERS = {"ones_like", "zeros_like", "empty_like", "full_like", "ones", "zeros", "empty", "full", "broadcast_to", "broadcast_arrays", "atleast_1d",
                 "resize", "tile", "repeat", "linspace", "arange"}


class _ShapeEnv(_GuardEnv):
    """for the rule about how the weights are summed: the environment keeps what fixes the SHAPE of a value where the plain term
    forgets it -- an array made by a numpy constructor is an application SHAPED_<constructor>(..) (not the number 1 or 0), and
    arithmetic whose term no longer mentions an operand's symbols (0 * x, x - x) is wrapped as SHAPED_AS(term, lost symbols):
    broadcasting against such a value gives a result of that shape whatever the other operand is"""

    def ev(self, e, stmt_level=False):
        if isinstance(e, ast.Call):
            d = dotted_name(e.func)
            full = (self.se.repo.resolve_name(self.mod, d) if d else "") or ""
            if full.startswith("numpy.") and full.rsplit(".", 1)[-1] in _SHAPE_MAKERS and e.args:
                vals = [self.ev(x) for x in e.args]
                return sp.Function("SHAPED_" + full.rsplit(".", 1)[-1])(*[symx._as_expr(v) for v in vals if symx._is_expr(v)])
        return super().ev(e, stmt_level)

    def binop(self, op, a, b, node):
        r = super().binop(op, a, b, node)
        if isinstance(r, sp.Basic) and symx._is_expr(a) and symx._is_expr(b):
            lost = (symx._as_expr(a).free_symbols | symx._as_expr(b).free_symbols) - r.free_symbols
            if lost:
                return sp.Function("SHAPED_AS")(r, *sorted(lost, key=str))
        return r


class _GuardEval(symx.SymEval):
    env_cls = _GuardEnv

    def run(self, fi, args, flags=None, depth=0, pins=None):
        flags = dict(flags or {})
        env = self.env_cls(self, fi, fi.module, dict(args), flags, depth=depth)
        env.pins = dict(pins or {})
        for p in fi.params:
            pn = p.lstrip("*")
            if pn not in env.vars:
                if pn in fi.defaults:
                    env.vars[pn] = env.ev(fi.defaults[pn])
                elif p.startswith("**"):
                    env.vars[pn] = {}
                elif p.startswith("*"):
                    env.vars[pn] = ()
        for k, v in flags.items():
            if k in [p.lstrip("*") for p in fi.params]:
                env.vars[k] = v
        rets = env.exec_body(fi.node.body, sp.true)
        env.finish_returns(rets)
        self.last_env = env
        return env.result


def _region_admits(c, nonneg):
    """can the condition c (a conjunction of relations between terms that are linear in real-valued symbols, those in `nonneg`
    ranging over [0, oo) and all others over the reals) hold on a set of inputs with non-empty interior?  True / False / None (not
    decided: an opaque test, a non-linear relation, more than one inequality).  Equations must have been substituted before."""
    atoms = list(c.args) if isinstance(c, sp.And) else [c]
    ineq = []
    for t in atoms:
        if t is sp.true or isinstance(t, sp.Ne):
            continue
        if t is sp.false:
            return False
        if isinstance(t, (sp.Lt, sp.Le)):
            ineq.append(t.rhs - t.lhs)
        elif isinstance(t, (sp.Gt, sp.Ge)):
            ineq.append(t.lhs - t.rhs)
        else:
            return None
    if not ineq:
        return True
    if len(ineq) > 1:
        return None
    g = sp.expand(ineq[0])
    if g.atoms(sp.core.function.AppliedUndef) or any(str(x).startswith("B_") for x in g.free_symbols):
        return None
    syms = sorted((x for x in g.free_symbols if not x.is_positive or x in nonneg), key=str)
    try:
        poly = sp.Poly(g, *syms) if syms else None
    except sp.PolynomialError:
        return None
    if poly is not None and poly.total_degree() > 1:
        return None
    const = g if poly is None else poly.coeff_monomial(1)
    for x in syms:
        k = poly.coeff_monomial(x)
        if k == 0:
            continue
        if x not in nonneg:
            return True                      # unbounded in that direction: g > 0 somewhere, and around that point
        if k.is_positive:
            return True
        if not k.is_negative:
            return None
    # the largest value of g is its constant term (every remaining symbol is >= 0 and enters with a negative factor)
    if const.is_positive:
        return True
    if const.is_nonpositive:
        return False
    return None


def _guarded_returns(r, data_terms=()):
    """`r`: what a function returns, as a term in which the alternatives of tests on the inputs are Piecewise arms.  The value on the
    last arm (no special case taken) is the reference; every other arm must return the same value under its condition (equations of
    the condition substituted: `if a == b: return 0` agrees with (b - a)/2 * S).  An arm whose value differs and whose condition
    holds on a set of inputs with non-empty interior (a threshold on the inputs) replaces the reference there: contradiction.
    data_terms: (MIN term, MAX term) pairs, read as m and m + d with d >= 0.  -> (True / False / None, text)"""
    if not isinstance(r, sp.Basic):
        return None, "the returned value is not a term (%r)" % (r,)
    nonneg = set()
    rep = {}
    for k, (lo, hi) in enumerate(data_terms):
        m, d = sp.Symbol("xmin%d" % k, real=True), sp.Symbol("xrange%d" % k, nonnegative=True)
        rep[lo], rep[hi] = m, m + d
        nonneg.add(d)
    shown = r
    r = r.xreplace(rep)
    if not r.has(sp.Piecewise):
        return True, "one value on every path that returns"
    try:
        f = sp.piecewise_fold(r)
    except Exception:
        return None, "the alternatives of the returned value were not separated"
    if not isinstance(f, sp.Piecewise):
        return True, "one value on every path that returns"
    if f.args[-1][1] is not sp.true:
        return None, "no alternative without a condition"
    ref = f.args[-1][0]
    # |t| is a quantity >= 0
    undecided = None
    prior = []
    for v, c in f.args[:-1]:
        eff = sp.And(c, *[sp.Not(p) for p in prior])
        prior.append(c)
        if symx.equal(v, ref)[0]:
            continue
        for alt in (eff.args if isinstance(eff, sp.Or) else (eff,)):
            subs = _cond_subs(alt)
            w, g, cc = v, ref, alt
            for a, b in subs:
                w, g, cc = w.subs(a, b), g.subs(a, b), cc.subs(a, b)
            if symx.equal(w, g)[0]:
                continue
            cc = sp.And(*[t for t in (cc.args if isinstance(cc, sp.And) else (cc,)) if not isinstance(t, sp.Eq)]) if cc not in (sp.true, sp.false) else cc
            nn = set(nonneg)
            for k, t in enumerate(sorted(cc.atoms(sp.Abs), key=str)):
                q = sp.Symbol("abs%d" % k, nonnegative=True)
                cc = cc.xreplace({t: q})
                nn.add(q)
            adm = _region_admits(cc, nn) if isinstance(cc, sp.Basic) and not any(str(x).startswith("B_") for x in cc.free_symbols) else None
            if adm:
                back = {}
                for lo_, hi_ in data_terms:
                    back[rep[lo_]] = lo_
                    back[rep[hi_] - rep[lo_]] = hi_ - lo_
                return False, "when `%s` holds the function returns %s instead of %s: a threshold on the inputs replaces the weighted sum on a whole range of valid inputs" % (
                    alt.xreplace(back), v.xreplace(back), sp.simplify(ref).xreplace(back))
            if adm is None:
                undecided = "the alternative returned when `%s` holds (%s) was not decided" % (alt, v)
    if undecided:
        return None, undecided
    return True, "every alternative return agrees with the general one under its condition (%d alternatives)" % (len(f.args) - 1)


# array contractions whose result depends on the shapes of BOTH operands: they sum over the weights only when the other operand
# has one entry per weight (dot / inner of a scalar and an array is the scaled array, nothing is summed; matmul / vdot / einsum /
# tensordot of a scalar and an array raise)
_CONTRACTIONS = {"DOT": "dot", "INNER": "inner", "MATMUL": "matmul (@)", "VDOT": "vdot", "TENSORDOT": "tensordot", "EINSUM": "einsum"}


class _ShapeEval(_GuardEval):
    env_cls = _ShapeEnv


def _has_integrands_shape(o, integrand, tables):
    """is the shape of the operand `o` the shape of whatever the caller's integrand returns: it contains a value of the integrand
    and, outside the integrand's arguments, none of the object's tables (arithmetic with a table broadcasts to the table's shape)"""
    apps = [t for t in o.atoms(sp.core.function.AppliedUndef) if t.func.__name__ == integrand]
    if not apps:
        return False
    blind = o.xreplace({t: sp.Symbol("Y__%d" % k) for k, t in enumerate(sorted(apps, key=str))})
    if any(t.func.__name__.startswith("SHAPED_") and t.func.__name__ != "SHAPED_AS" for t in blind.atoms(sp.core.function.AppliedUndef)):
        return False
    return not (blind.free_symbols & set(tables))


def _weights_summed_whatever_the_shape(r, integrand, tables):
    """`r`: the term an integrator returns; integrand: name of the caller-supplied callable; tables: symbols of the node / weight
    tables of the object.  The constant integrand (a polynomial of degree 0) need not return an array: the rule's weighted sum is
    sum_i w_i c, which `(f(x) * w).sum()` gives for every shape f(x) broadcasts from.  A contraction of f(x) itself with the weights
    sums over the weights only when f(x) has their shape.  -> (True / False, text)"""
    bad = []

    def walk(t, summed):
        if isinstance(t, sp.core.function.AppliedUndef):
            nm = t.func.__name__
            if nm == integrand:
                return
            if nm in _CONTRACTIONS and len(t.args) >= 2 and (not summed or nm not in ("DOT", "INNER")):
                own = [o for o in t.args if _has_integrands_shape(o, integrand, tables)]
                rest = [o for o in t.args if not any(o is x for x in own)]
                if own and any(o.free_symbols & set(tables) for o in rest):
                    bad.append((nm, own[0], t))
            for x in t.args:
                walk(x, summed or nm == "SUM")
            return
        for x in getattr(t, "args", ()):
            walk(x, summed)
    walk(r, False)
    if bad:
        nm, own, t = bad[0]
        return False, "the weights are combined with the integrand's value by %s (%s), whose result depends on the shape of %s: for an integrand that returns a scalar " \
                      "(a constant, the polynomial of degree 0) it does not sum over the weights (dot / inner give the weights scaled by the constant, the others raise); " \
                      "the rule's weighted sum is the total sum of value * weights, which broadcasts" % (_CONTRACTIONS[nm], t, own)
    return True, "no shape-dependent contraction of the integrand's value with the weights"


def _returns_agree(chk, repo, fi, name, opaque, assume, env, data_terms=(), integrand=None, tables=()):
    se = _GuardEval(repo, opaque=opaque, opaque_tests=None)
    se.assume = dict(assume)
    r = _sym_run(se, fi, env)
    if isinstance(r, _NoTerm):
        ok, txt = None, "the returned value was not inferred with both arms of every test followed (%s)" % r.why
    else:
        ok, txt = _guarded_returns(r, data_terms)
    chk.ob("R17.6", "returns::%s::no-special-case-replaces-the-sum" % name, ok, fi.where(),
           "every path that returns hands back the weighted sum (a test on the inputs does not replace it by another value): %s" % txt)
    if integrand is not None:
        if isinstance(r, sp.Basic):
            ok, txt = _weights_summed_whatever_the_shape(r, integrand, tables)
            if ok is False:
                # confirmed on the term that keeps what fixes the shape of a value (array constructors, arithmetic that cancels)
                se2 = _ShapeEval(repo, opaque=opaque, opaque_tests=None)
                se2.assume = dict(assume)
                r2 = _sym_run(se2, fi, env)
                if isinstance(r2, sp.Basic):
                    ok, txt = _weights_summed_whatever_the_shape(r2, integrand, tables)
                else:
                    ok, txt = None, "the shapes of the operands of the contraction in %s were not inferred" % r
        else:
            ok, txt = None, "the returned value was not inferred (%s)" % (r.why if isinstance(r, _NoTerm) else repr(r)[:80])
        chk.ob("R17.6", "returns::%s::weights-summed-whatever-the-integrand-returns" % name, ok, fi.where(),
               "the weighted sum is a total sum of (integrand value * weights), for every shape the value of the caller's integrand has: %s" % txt)


def integrators(chk, repo, tensor=(None, "")):
    SUM = sp.Function("SUM")
    xxi, wii, a, b, func = symx.symbols("xxi", "wii", "a", "b", "func")
    fi = repo.func(IU + "QGauss.integrate_func")
    chk.analysed_unit(fi.qualname)
    se = symx.SymEval(repo, opaque_tests=False)
    se.assume = {"text:self.npts is None": False, "text:len(xvals) != 2": False}
    r = _sym_run(se, fi, {"self": symx.Opaque("self"), "xvals": [a, b], "func": func, "self.xxi": xxi, "self.wii": wii, "self.npts": sp.Symbol("n")})
    f1, f2 = (b - a) / 2, (b + a) / 2
    ref = f1 * SUM(sp.Function("func")(xxi * f1 + f2) * wii)
    eq = isinstance(r, sp.Basic) and symx.equal(r, ref)[0]
    chk.ob("R17.6", "integrate_func::formula", None if isinstance(r, _NoTerm) else bool(eq), fi.where(), "result is (b-a)/2 * sum(w_i f((b-a)/2 x_i + (a+b)/2)) (found %s)" % r)
    _returns_agree(chk, repo, fi, "QGauss.integrate_func", (), se.assume, {"self": symx.Opaque("self"), "xvals": [a, b], "func": func, "self.xxi": xxi, "self.wii": wii, "self.npts": sp.Symbol("n")},
                   integrand="func", tables=(xxi, wii))
    fi = repo.func(IU + "QGauss.integrate_data")
    chk.analysed_unit(fi.qualname)
    xs, ys = symx.symbols("xs", "ys")
    se = symx.SymEval(repo, opaque={"esutil.stat.util.interplin"}, opaque_tests=False)
    se.assume = {"text:self.npts is None": False}
    r = _sym_run(se, fi, {"self": symx.Opaque("self"), "xvals": xs, "yvals": ys, "self.xxi": xxi, "self.wii": wii, "self.npts": sp.Symbol("n")})
    lo, hi = sp.Function("MIN")(xs), sp.Function("MAX")(xs)
    f1, f2 = (hi - lo) / 2, (hi + lo) / 2
    ref = f1 * SUM(sp.Function("interplin")(ys, xs, xxi * f1 + f2) * wii)
    eq = isinstance(r, sp.Basic) and symx.equal(r, ref)[0]
    _returns_agree(chk, repo, fi, "QGauss.integrate_data", {"esutil.stat.util.interplin"}, se.assume,
                   {"self": symx.Opaque("self"), "xvals": xs, "yvals": ys, "self.xxi": xxi, "self.wii": wii, "self.npts": sp.Symbol("n")}, [(lo, hi)])
    chk.ob("R17.6", "integrate_data::formula", None if isinstance(r, _NoTerm) else bool(eq), fi.where(), "result is the weighted sum of the linearly interpolated data interplin(values=y, abscissae=x, at=mapped nodes) over [min x, max x] (found %s)" % r)
    fi = repo.func(IU + "QGauss2.integrate_func")
    chk.analysed_unit(fi.qualname)
    xg, yg, wg, c, d = symx.symbols("xg", "yg", "wg", "c", "d")
    se = symx.SymEval(repo, opaque_tests=False)
    se.assume = {"text:len(xrng) != 2 or len(yrng) != 2": False}
    r = _sym_run(se, fi, {"self": symx.Opaque("self"), "xrng": [a, b], "yrng": [c, d], "func": func, "self.xgrid": xg, "self.ygrid": yg, "self.wgrid": wg})
    xf1, xf2, yf1, yf2 = (b - a) / 2, (b + a) / 2, (d - c) / 2, (d + c) / 2
    ref = xf1 * yf1 * SUM(sp.Function("func")(xg * xf1 + xf2, yg * yf1 + yf2) * wg)
    eq = isinstance(r, sp.Basic) and symx.equal(r, ref)[0]
    _returns_agree(chk, repo, fi, "QGauss2.integrate_func", (), se.assume,
                   {"self": symx.Opaque("self"), "xrng": [a, b], "yrng": [c, d], "func": func, "self.xgrid": xg, "self.ygrid": yg, "self.wgrid": wg},
                   integrand="func", tables=(xg, yg, wg))
    if not eq and tensor[0]:
        # the same statement decided on elements (R17.7 tensor-product-sum): the grids need not be kept as attributes for it
        chk.ob("R17.6", "QGauss2.integrate_func::formula", True, fi.where(), "tensor-product sum with both affine maps and the product prefactor, established element by element: %s" % tensor[1])
    else:
        chk.ob("R17.6", "QGauss2.integrate_func::formula", None if isinstance(r, _NoTerm) else bool(eq), fi.where(), "tensor-product sum with both affine maps and the product prefactor (found %s)" % r)


# ---------------------------------------------------------------------------
# R17.8: the data reach the segment search and the interpolation formula with their values unchanged
# ---------------------------------------------------------------------------
SU = "esutil.stat.util."

# floating types that hold every value of the narrower numeric types (conversion to them keeps the values)
_WIDE = {"float", "float64", "double", "float_", "longdouble", "longfloat", "float96", "float128", "f8", "d", "g", "f12", "f16"}
# integer, boolean and short floating types: conversion of general floating data to them changes the values
_NARROW = {"int", "bool", "int_", "intc", "intp", "int8", "int16", "int32", "int64", "uint", "uintc", "uintp", "uint8", "uint16", "uint32", "uint64",
           "long", "longlong", "ulong", "ulonglong", "short", "ushort", "byte", "ubyte", "bool_", "float32", "float16", "single", "half",
           "f4", "f2", "f", "e", "?", "l", "q", "h", "b", "B", "H", "I", "L", "Q", "p", "P", "i", "u"}
_KEEP_FUNCS = {"array", "asarray", "asanyarray", "ascontiguousarray", "asfortranarray", "require", "atleast_1d", "copy", "ravel", "squeeze"}
_DTYPE_POS = {"array": 1, "asarray": 1, "asanyarray": 1, "ascontiguousarray": 1, "asfortranarray": 1, "require": 1}
_KEEP_METHODS = {"copy", "ravel", "flatten", "squeeze"}
_ROUNDERS = {"floor", "ceil", "rint", "round", "round_", "around", "trunc", "fix"}
_PROMOTERS = {"result_type", "promote_types", "common_type", "find_common_type"}


class _Step:
    """one array conversion on a data path: ok True (keeps every value), False (changes values for some input dtype), None (not decided)"""

    def __init__(self, call, ok, why, dt=None):
        self.call, self.ok, self.why, self.dt = call, ok, why, dt

    def text(self):
        return "`%s` %s" % (norm(self.call)[:90], self.why)


class _Flow:
    """where a value comes from, following single assignments backwards over reaching definitions and peeling array conversions:
    origins(expr, node) -> [(parameter name or None, [conversion steps, outermost first])], one entry per reaching alternative"""

    def __init__(self, repo, fi):
        self.repo, self.fi = repo, fi
        self.cfg = cfg_of(fi)
        self.view = self.cfg.view()
        self.IN, _ = self.view.reaching_defs()
        self.params = [p for p in fi.params if not p.startswith("*")]
        self.local_np = set()
        for x in walk_no_nested(fi.node):
            if isinstance(x, ast.ImportFrom) and x.module == "numpy":
                self.local_np |= {al.asname or al.name for al in x.names}

    # -- recognising conversions -------------------------------------------
    def _numpy_func(self, call):
        """rightmost name of the callee when it is a numpy function (np.f, numpy.f, or f imported from numpy), else None"""
        d = dotted_name(call.func)
        if d is None:
            return None
        full = self.repo.resolve_name(self.fi.module, d)
        if full.startswith("numpy.") or (isinstance(call.func, ast.Name) and call.func.id in self.local_np):
            return full.rsplit(".", 1)[-1]
        return None

    def conversion(self, e):
        """(operand, kind, dtype expression) when the call converts an array: kind 'keep' (no type change requested), 'dtype' (to the
        type given by the expression), 'wide' / 'narrow' (to a type named by the callee), 'round', 'unknown'; None for any other call"""
        if not isinstance(e, ast.Call):
            return None
        f = e.func
        nm = self._numpy_func(e)
        if nm is not None and e.args:
            if nm in _KEEP_FUNCS:
                dt = kwarg(e, "dtype")
                if dt is None and nm in _DTYPE_POS and len(e.args) > _DTYPE_POS[nm]:
                    dt = e.args[_DTYPE_POS[nm]]
                return (e.args[0], "keep" if dt is None or _is_none(dt) else "dtype", dt)
            if nm in _ROUNDERS:
                return (e.args[0], "round", None)
            if nm in _WIDE and len(e.args) == 1:
                return (e.args[0], "wide", None)
            if nm in _NARROW and len(e.args) == 1:
                return (e.args[0], "narrow", None)
            return None
        if isinstance(f, ast.Attribute) and nm is None:
            if f.attr == "astype":
                dt = e.args[0] if e.args else kwarg(e, "dtype")
                return (f.value, "dtype" if dt is not None else "unknown", dt)
            if f.attr in _KEEP_METHODS and not e.args and not e.keywords:
                return (f.value, "keep", None)
            if f.attr == "round":
                return (f.value, "round", None)
            if f.attr == "view":
                return (f.value, "keep" if not e.args and not e.keywords else "unknown", None)
            # <array>.dtype.type(value): the scalar / array constructor of another array's element type
            if f.attr == "type" and isinstance(f.value, ast.Attribute) and f.value.attr == "dtype" and len(e.args) == 1:
                return (e.args[0], "dtype", f.value)
        return None

    def dtype_class(self, dt, operand, own, node):
        """(True: the type holds every value of the operand / False: it does not for some input / None, explanation)"""
        if isinstance(dt, ast.Constant) and isinstance(dt.value, str):
            s = dt.value.lstrip("<>=|")
            if s in _WIDE:
                return True, "to %r" % dt.value
            if s in _NARROW or (s[:1] in "iub" and s[1:].isdigit()) or s.startswith(("int", "uint")):
                return False, "narrows to %r" % dt.value
            return None, "to %r" % dt.value
        if isinstance(dt, ast.Call) and call_name(dt) == "dtype" and len(dt.args) == 1:
            return self.dtype_class(dt.args[0], operand, own, node)
        if isinstance(dt, ast.Call) and call_name(dt) in _PROMOTERS:
            for a in dt.args:
                a = a.value if isinstance(a, ast.Attribute) and a.attr == "dtype" else a
                if norm(a) == norm(operand) or (own and {p for p, _ in self.origins(a, node)} == own):
                    return True, "to a common type that includes its own"
            return None, "to `%s`" % norm(dt)
        if isinstance(dt, ast.Attribute) and dt.attr == "type" and isinstance(dt.value, ast.Attribute) and dt.value.attr == "dtype":
            dt = dt.value
        if isinstance(dt, ast.Attribute) and dt.attr == "dtype":
            src = dt.value
            if norm(src) == norm(operand):
                return True, "to its own type"
            alts = self.origins(src, node)
            # the other array was itself converted to a stated type on every path: that type decides
            stated = [next((s.dt for s in steps if s.dt is not None), None) for _, steps in alts]
            if stated and all(s is True for s in stated):
                return True, "to the type of `%s`, which is a wide floating type" % norm(src)
            srcs = {p for p, _ in alts}
            if own and None not in own and srcs == own and not any(s is False for s in stated):
                return True, "to the type it arrived with"
            return False, "converts to the element type of a different array (`%s`): when that array is integer-typed (or of a shorter floating type) the values are truncated" % norm(src)
        d = dotted_name(dt)
        if d is not None:
            last = d.rsplit(".", 1)[-1]
            if last in _WIDE:
                return True, "to %s" % d
            if last in _NARROW:
                return False, "narrows to %s" % d
        return None, "to `%s`" % norm(dt)

    def step(self, call, node, alts_of_operand=None):
        c = self.conversion(call)
        if c is None:
            return None
        operand, kind, dt = c
        if kind == "keep":
            return _Step(call, True, "keeps the values")
        if kind == "wide":
            return _Step(call, True, "widens", True)
        if kind == "narrow":
            return _Step(call, False, "narrows the values to the type `%s`" % call_name(call), False)
        if kind == "round":
            return _Step(call, False, "rounds the values")
        if kind == "unknown":
            return _Step(call, None, "converts to a type that was not determined")
        own = {p for p, _ in (alts_of_operand if alts_of_operand is not None else self.origins(operand, node))}
        ok, why = self.dtype_class(dt, operand, own, node)
        return _Step(call, ok, why, ok)

    # -- following values backwards ------------------------------------------
    def origins(self, e, node, seen=frozenset(), depth=0):
        if depth > 12:
            return [(None, [])]
        if isinstance(e, ast.Name) and isinstance(e.ctx, ast.Load):
            defs = self.IN.get(node.id, {}).get(e.id)
            if not defs:
                return [(None, [])]
            out = []
            for d in sorted(defs):
                if d == self.cfg.entry.id:
                    out.append((e.id if e.id in self.params else None, []))
                    continue
                if (d, e.id) in seen:
                    out.append((None, []))
                    continue
                dn = self.cfg.node(d)
                a = dn.ast
                val = None
                if dn.kind == "stmt" and isinstance(a, ast.Assign) and len(a.targets) == 1 and isinstance(a.targets[0], ast.Name) and a.targets[0].id == e.id:
                    val = a.value
                elif dn.kind == "stmt" and isinstance(a, ast.AnnAssign) and isinstance(a.target, ast.Name) and a.target.id == e.id and a.value is not None:
                    val = a.value
                if val is None:
                    out.append((None, []))
                else:
                    out += self.origins(val, dn, seen | {(d, e.id)}, depth + 1)
            return out
        if isinstance(e, ast.IfExp):
            return self.origins(e.body, node, seen, depth + 1) + self.origins(e.orelse, node, seen, depth + 1)
        c = self.conversion(e)
        if c is not None:
            inner = self.origins(c[0], node, seen, depth + 1)
            st = self.step(e, node, inner)
            return [(p, [st] + steps) for p, steps in inner]
        if isinstance(e, ast.Subscript) and isinstance(e.ctx, ast.Load) and _plain_slice(e.slice):
            # a[lo:hi]: a run of consecutive elements of the array, each with the value it has there (a table searched or
            # interpolated in part is still that table: which part is a question for the formula rules, not for this one)
            inner = self.origins(e.value, node, seen, depth + 1)
            return [(p, [_Step(e, True, "takes consecutive elements unchanged")] + steps) for p, steps in inner]
        return [(None, [])]

    def conversions(self):
        """(cfg node, call) of every array conversion in the function"""
        out = []
        for n in self.cfg.nodes:
            for c in stmts_calls_of(n):
                if self.conversion(c) is not None:
                    out.append((n, c))
        return out


def _plain_slice(s):
    """lo:hi with unit step (also per axis: a[lo:hi, :])"""
    if isinstance(s, ast.Tuple):
        return bool(s.elts) and all(_plain_slice(x) for x in s.elts)
    return isinstance(s, ast.Slice) and (s.step is None or const_value(s.step) == 1)


def stmts_calls_of(n):
    from vcheck.cfg import stmts_calls
    return stmts_calls(n)


def _search_calls(flow):
    """(cfg node, call, table expression, query expression) of the sorted-table searches: t.searchsorted(q), np.searchsorted(t, q),
    np.digitize(q, t)"""
    out = []
    for n in flow.cfg.nodes:
        for c in stmts_calls_of(n):
            nm = call_name(c)
            if nm not in ("searchsorted", "digitize"):
                continue
            is_np = flow._numpy_func(c) is not None
            if nm == "searchsorted" and is_np:
                t = c.args[0] if c.args else kwarg(c, "a")
                q = c.args[1] if len(c.args) > 1 else kwarg(c, "v")
            elif nm == "searchsorted" and isinstance(c.func, ast.Attribute):
                t = c.func.value
                q = c.args[0] if c.args else kwarg(c, "v")
            elif nm == "digitize" and is_np:
                q = c.args[0] if c.args else kwarg(c, "x")
                t = c.args[1] if len(c.args) > 1 else kwarg(c, "bins")
            else:
                continue
            out.append((n, c, t, q))
    return out


def _path_verdict(alts, want):
    """verdict on one data path: (ok, lossy steps, text).  False: some reaching alternative passes a value-changing conversion, or the
    value positively is another input; True: every alternative is the wanted input through value-keeping conversions; else None"""
    lossy = [s for _, steps in alts for s in steps if s.ok is False]
    if lossy:
        return False, lossy
    srcs = {p for p, _ in alts}
    if None in srcs or any(s.ok is None for _, steps in alts for s in steps):
        return None, []
    if srcs == {want}:
        return True, []
    return False, []


def value_preservation(chk, repo):
    """R17.8: 'the weighted sum of the linearly interpolated values' is a statement about the data as given.  Necessary: (a) the search
    that picks the bracketing segment compares the given query points with the given abscissa table (for both, only conversions that
    keep every value for every input dtype may lie between the parameter and the search); (b) no input of the interpolation is passed
    through a narrowing / rounding conversion or converted to the element type of another array; (c) the same for every conversion in
    the integrators -- the symbolic evaluator behind R17.6 reads astype / asarray(dtype=) / float32() as the identity, which is only
    right for value-keeping conversions."""
    fi = repo.func(SU + "interplin")
    chk.analysed_unit(fi.qualname)
    flow = _Flow(repo, fi)
    roles = dict(zip(flow.params, ("values", "abscissa table", "query points")))
    if len(flow.params) != 3:
        chk.ob("R17.8", "interplin::segment-search-on-given-values", None, fi.where(), "interplin does not take (values, abscissae, query points)")
        return
    p_tab, p_qry = flow.params[1], flow.params[2]
    searches = _search_calls(flow)
    verdicts = []
    msgs = []
    where = fi.where()
    for n, c, t, q in searches:
        for e, want in ((t, p_tab), (q, p_qry)):
            if e is None:
                verdicts.append(None)
                continue
            alts = flow.origins(e, n)
            ok, lossy = _path_verdict(alts, want)
            verdicts.append(ok)
            if ok is False:
                where = fi.where(c)
                if lossy:
                    msgs.append("the %s reach `%s` through %s" % (roles[want], norm(c)[:80], "; ".join(s.text() for s in lossy)))
                else:
                    msgs.append("`%s` in `%s` is the input `%s`, not the %s" % (norm(e)[:40], norm(c)[:80], "/".join(sorted(p for p, _ in alts)), roles[want]))
    ok = None if not searches else (False if any(v is False for v in verdicts) else (None if any(v is None for v in verdicts) else True))
    chk.ob("R17.8", "interplin::segment-search-on-given-values", ok, where,
           "the bracketing segment is found by searching the abscissa table as given for the query points as given (only value-keeping array conversions in between)%s"
           % ("" if ok else (": " + "; ".join(msgs) + " -- the segment is then chosen for other abscissae than the ones interpolated to, so the result is extrapolated from a neighbouring segment"
                            if msgs else ": %d searches found, operands not traced to the inputs" % len(searches))))
    segment_index(chk, fi, flow, roles, searches)
    segment_range(chk, fi, flow)
    # (b) every conversion applied to an input of the interpolation
    per = {p: [] for p in flow.params}
    for n, c in flow.conversions():
        alts = flow.origins(c, n)
        srcs = {p for p, _ in alts}
        if len(srcs) == 1 and None not in srcs:
            per[srcs.pop()] += [s for _, steps in alts for s in steps]
    for p in flow.params:
        lossy = [s for s in per[p] if s.ok is False]
        undecided = [s for s in per[p] if s.ok is None]
        ok = False if lossy else (None if undecided else True)
        chk.ob("R17.8", "interplin::input-values-kept::%s" % roles[p], ok, fi.where(lossy[0].call) if lossy else fi.where(),
               "the %s are only passed through conversions that keep every value whatever the input dtypes (%d conversions)%s"
               % (roles[p], len(per[p]), "" if not (lossy or undecided) else ": " + "; ".join(s.text() for s in (lossy or undecided)[:3])))
    # (c) conversions inside the integrators
    for q in ("QGauss.integrate_func", "QGauss.integrate_data", "QGauss2.integrate_func"):
        f = repo.func(IU + q)
        fl = _Flow(repo, f)
        steps = [fl.step(c, n) for n, c in fl.conversions()]
        lossy = [s for s in steps if s.ok is False]
        undecided = [s for s in steps if s.ok is None]
        ok = False if lossy else (None if undecided else True)
        chk.ob("R17.8", "%s::conversions-keep-values" % q, ok, f.where(lossy[0].call) if lossy else f.where(),
               "every array conversion on the way from the arguments to the weighted sum keeps the values (%d conversions)%s"
               % (len(steps), "" if not (lossy or undecided) else ": " + "; ".join(s.text() for s in (lossy or undecided)[:3])))


# ---------------------------------------------------------------------------
# R17.8 (segment clause): which segment is interpolated is decided by an ordered search of the table
# ---------------------------------------------------------------------------
_CLAMPS = {"clip", "minimum", "maximum", "fmin", "fmax"}
_ARRAY_METHODS = {"astype", "round", "clip", "copy", "ravel", "flatten", "squeeze", "view", "reshape", "item", "min", "max", "sum", "cumsum", "mean"}
_PLAIN_BUILTINS = {"int", "float", "abs", "min", "max", "len", "round", "divmod", "range"}
_APPROX = {"allclose", "isclose", "assert_allclose", "assert_almost_equal"}


class _Seg:
    """follows the index that selects the interpolated segment back to where it is made"""

    def __init__(self, flow, p_qry, searches):
        self.flow, self.cfg, self.IN = flow, flow.cfg, flow.IN
        self.p_qry = p_qry
        self.search_calls = [c for _, c, _, _ in searches]

    def dep(self, e, node):
        """does the value depend on the query points"""
        return self._dep_names(_loaded_names(e), node, set())

    def _dep_names(self, names, node, seen):
        for nm in sorted(names):
            for d in sorted(self.IN.get(node.id, {}).get(nm, ())):
                if d == self.cfg.entry.id:
                    if nm == self.p_qry:
                        return True
                    continue
                if (d, nm) in seen:
                    continue
                seen.add((d, nm))
                dn = self.cfg.node(d)
                if self._dep_names(set(self.cfg.defs_uses(dn)[1]), dn, seen):
                    return True
        return False

    def guards_of(self, node):
        return [(b.ast.test, lab) for b, lab in self.flow.view.controlling_branches(node) if b.kind == "branch" or (b.kind == "loop" and isinstance(b.ast, ast.While))]

    def is_search(self, e):
        return any(e is c for c in self.search_calls)

    def alts(self, e, node, guards=(), seen=frozenset(), depth=0):
        """[(kind, expression, node, guards)]: kind 'search' (result of an ordered search of the table), 'bound' (does not depend on
        the query points: a clamp limit), 'computed' (made from the query points by arithmetic alone), 'unknown'"""
        if depth > 14:
            return [("unknown", e, node, guards)]
        if not self.dep(e, node):
            return [("bound", e, node, guards)]
        if isinstance(e, ast.Call) and self.is_search(e):
            return [("search", e, node, guards)]
        if isinstance(e, ast.Name):
            out = []
            for d in sorted(self.IN.get(node.id, {}).get(e.id, ())):
                if d == self.cfg.entry.id:
                    out.append(("computed", e, node, guards))      # the query points themselves used as an index
                    continue
                if (d, e.id) in seen:
                    continue
                dn = self.cfg.node(d)
                a = dn.ast
                g = tuple(guards) + tuple(self.guards_of(dn))
                if dn.kind == "stmt" and isinstance(a, ast.Assign) and len(a.targets) == 1 and isinstance(a.targets[0], ast.Name):
                    out += self.alts(a.value, dn, g, seen | {(d, e.id)}, depth + 1)
                elif dn.kind == "stmt" and isinstance(a, ast.AnnAssign) and isinstance(a.target, ast.Name) and a.value is not None:
                    out += self.alts(a.value, dn, g, seen | {(d, e.id)}, depth + 1)
                elif dn.kind == "stmt" and isinstance(a, ast.AugAssign) and isinstance(a.target, ast.Name) and isinstance(a.op, (ast.Add, ast.Sub)) and not self.dep(a.value, dn):
                    prev = ast.copy_location(ast.Name(id=e.id, ctx=ast.Load()), a)
                    out += self.alts(prev, dn, g, seen | {(d, e.id)}, depth + 1)
                else:
                    out.append(("unknown", e, dn, g))
            # elements written in place into the index array (xm[w] = limit)
            for n in self.cfg.nodes:
                a = n.ast
                if n.kind != "stmt" or not isinstance(a, (ast.Assign, ast.AugAssign)):
                    continue
                for t in (a.targets if isinstance(a, ast.Assign) else [a.target]):
                    if isinstance(t, ast.Subscript) and isinstance(t.value, ast.Name) and t.value.id == e.id and ("store", n.id, e.id) not in seen:
                        if isinstance(a, ast.AugAssign) and self.dep(a.value, n):
                            out.append(("unknown", a.value, n, guards))
                        elif isinstance(a, ast.Assign):
                            out += self.alts(a.value, n, tuple(guards) + tuple(self.guards_of(n)), seen | {("store", n.id, e.id)}, depth + 1)
            return out
        if isinstance(e, ast.IfExp):
            return self.alts(e.body, node, tuple(guards) + ((e.test, "T"),), seen, depth + 1) + self.alts(e.orelse, node, tuple(guards) + ((e.test, "F"),), seen, depth + 1)
        if isinstance(e, ast.BinOp) and isinstance(e.op, (ast.Add, ast.Sub)):
            dl, dr = self.dep(e.left, node), self.dep(e.right, node)
            if dl != dr and not (dr and isinstance(e.op, ast.Sub)):
                return self.alts(e.left if dl else e.right, node, guards, seen, depth + 1)
        if isinstance(e, ast.Call):
            c = self.flow.conversion(e)
            if c is not None:
                return self.alts(c[0], node, guards, seen, depth + 1)
            nm = self.flow._numpy_func(e)
            f = e.func
            if nm in _CLAMPS and e.args and not any(k.arg == "out" for k in e.keywords):
                out = []
                for a in list(e.args) + [k.value for k in e.keywords if k.arg in ("a_min", "a_max", "min", "max")]:
                    out += self.alts(a, node, guards, seen, depth + 1)
                return out
            if nm is None and isinstance(f, ast.Attribute) and f.attr == "clip":
                out = self.alts(f.value, node, guards, seen, depth + 1)
                for a in list(e.args) + [k.value for k in e.keywords]:
                    out += self.alts(a, node, guards, seen, depth + 1)
                return out
            if nm == "where" and len(e.args) == 3:
                return self.alts(e.args[1], node, tuple(guards) + ((e.args[0], "T"),), seen, depth + 1) + \
                    self.alts(e.args[2], node, tuple(guards) + ((e.args[0], "F"),), seen, depth + 1)
        return [(self.classify(e, node, set()), e, node, guards)]

    def classify(self, e, node, seen):
        """an expression that depends on the query points and is none of the recognised forms: 'computed' when it consists of
        arithmetic, subscripts and numpy / array-method calls only and no ordered search takes part in it, else 'unknown'"""
        for x in walk_no_nested(e):
            if isinstance(x, ast.Call):
                if self.is_search(x) or call_name(x) in ("searchsorted", "digitize", "bisect", "bisect_left", "bisect_right", "interp", "argmax", "argmin", "argsort", "nonzero", "where"):
                    return "unknown"
                f = x.func
                plain = self.flow._numpy_func(x) is not None or (isinstance(f, ast.Attribute) and f.attr in _ARRAY_METHODS) or (isinstance(f, ast.Name) and f.id in _PLAIN_BUILTINS)
                if not plain:
                    return "unknown"
            elif isinstance(x, (ast.Lambda, ast.ListComp, ast.GeneratorExp, ast.SetComp, ast.DictComp, ast.Await, ast.Yield, ast.YieldFrom, ast.NamedExpr, ast.Starred)):
                return "unknown"
        for nm in sorted(_loaded_names(e)):
            for d in sorted(self.IN.get(node.id, {}).get(nm, ())):
                if d == self.cfg.entry.id or (d, nm) in seen:
                    continue
                seen.add((d, nm))
                dn = self.cfg.node(d)
                if not self._dep_names({nm}, node, set()):
                    continue
                a = dn.ast
                if dn.kind == "stmt" and isinstance(a, (ast.Assign, ast.AnnAssign, ast.AugAssign)) and a.value is not None \
                        and all(isinstance(t, ast.Name) for t in (a.targets if isinstance(a, ast.Assign) else [a.target])):
                    if self.classify(a.value, dn, seen) == "unknown":
                        return "unknown"
                else:
                    return "unknown"
        return "computed"

    def exact_spacing_test(self, guards, fn):
        """is one of the tests an exact statement about all elements (all(a == b), array_equal): the arithmetic index may then be
        the right one for the tables that pass it; tolerance tests (allclose, |d| < eps) are not"""
        for t, _ in guards:
            t = rules.expand(t, fn)
            for x in walk_no_nested(t):
                if isinstance(x, ast.Call) and call_name(x) in _APPROX:
                    return False
            for x in walk_no_nested(t):
                if isinstance(x, ast.Call) and call_name(x) in ("all", "alltrue", "array_equal", "array_equiv"):
                    inner = [y for a in ([x.func.value] if isinstance(x.func, ast.Attribute) and not self.flow._numpy_func(x) else []) + list(x.args) for y in walk_no_nested(a)]
                    if call_name(x).startswith("array_eq") or any(isinstance(y, ast.Compare) and all(isinstance(o, ast.Eq) for o in y.ops) for y in inner):
                        return True
        return False


def segment_index(chk, fi, flow, roles, searches):
    """R17.8: 'the linearly interpolated values ... including unevenly spaced x'.  The segment [x[k], x[k+1]] used for a query point
    must be the one that brackets it in the table as given, for any spacing; necessary: every index with which the abscissa and
    value tables are looked up depends on the query points only through an ordered search of the table (searchsorted / digitize),
    shifted by constants and clamped to the ends.  An index computed from the query points by arithmetic (floor((u - x0)/dx) ...)
    is the bracketing one for evenly spaced tables only."""
    p_val, p_tab, p_qry = flow.params
    seg = _Seg(flow, p_qry, searches)
    lookups = []
    for n in flow.cfg.nodes:
        if n.ast is None or n.kind in ("def", "handler", "try"):
            continue
        roots = [n.ast.test] if n.kind == "branch" or (n.kind == "loop" and isinstance(n.ast, ast.While)) else \
            [n.ast.iter] if n.kind == "loop" else [i.context_expr for i in n.ast.items] if n.kind == "with" else [n.ast]
        for r in roots:
            for x in walk_no_nested(r):
                base = idx = None
                if isinstance(x, ast.Subscript) and isinstance(x.ctx, ast.Load) and not _plain_slice(x.slice):
                    base, idx = x.value, x.slice
                elif isinstance(x, ast.Call) and call_name(x) == "take" and x.args:
                    if flow._numpy_func(x) is not None and len(x.args) >= 2:
                        base, idx = x.args[0], x.args[1]
                    elif isinstance(x.func, ast.Attribute):
                        base, idx = x.func.value, x.args[0]
                if base is None or isinstance(idx, ast.Tuple):
                    continue
                srcs = {p for p, _ in flow.origins(base, n)}
                if srcs and srcs <= {p_val, p_tab} and seg.dep(idx, n):
                    lookups.append((n, x, idx))
    key = "interplin::segment-index-from-ordered-search"
    if not lookups:
        chk.ob("R17.8", key, None, fi.where(), "no lookup of the abscissa / value tables with an index that depends on the query points was found")
        return
    bad, exact, unknown, n_search = [], [], [], 0
    for n, x, idx in lookups:
        for kind, e, dn, guards in seg.alts(idx, n, tuple(seg.guards_of(n))):
            if kind == "search":
                n_search += 1
            elif kind == "computed":
                (exact if seg.exact_spacing_test(guards, fi.node) else bad).append((x, e, dn, guards))
            elif kind == "unknown":
                unknown.append((x, e, dn))
    if bad:
        x, e, dn, guards = bad[0]
        g = [("`%s`" if lab == "T" else "not `%s`") % norm(rules.expand(t, fi.node))[:110] for t, lab in guards]
        chk.ob("R17.8", key, False, fi.where(e),
               "the index in the table lookup `%s` is, on some path, `%s`: computed from the query points by arithmetic, not found by an ordered search of the abscissa table; "
               "that is the bracketing segment for evenly spaced tables only, and %s -- for unevenly spaced x the value is interpolated on the wrong segment"
               % (norm(x)[:40], norm(e)[:90], ("the test guarding it (%s) does not establish exactly even spacing (a tolerance test passes uneven tables whose spacings are below the tolerance)" % " and ".join(g)) if g else "nothing restricts it to such tables"))
        return
    ok = None if (exact or unknown or not n_search) else True
    what = ("a computed index `%s` is used under an exact all-elements test: whether it selects the bracketing segment is a numerical question" % norm(exact[0][1])[:80]) if exact else \
        ("the index `%s` was not traced to an ordered search" % norm(unknown[0][1])[:80]) if unknown else ""
    chk.ob("R17.8", key, ok, fi.where(), "every index used to look up the abscissa and value tables (%d lookups) comes from an ordered search of the table, shifted and clamped only%s"
           % (len(lookups), "" if ok else ": " + what))



# ---------------------------------------------------------------------------
# R17.8 (segment clause, range): the clamped index still selects every segment of the table
# ---------------------------------------------------------------------------
_INF = "inf"


_N_MIN = [2]


class _Aff:
    """a + b*N, N the number of tabulated points (any integer >= _N_MIN[0]; 2 unless stated otherwise); comparisons are decided for
    all such N or not at all"""
    __slots__ = ("a", "b")

    def __init__(self, a, b=0):
        self.a, self.b = a, b

    def __add__(self, o):
        return _Aff(self.a + o.a, self.b + o.b)

    def __sub__(self, o):
        return _Aff(self.a - o.a, self.b - o.b)

    def same(self, o):
        return isinstance(o, _Aff) and (self.a, self.b) == (o.a, o.b)

    def ge_all(self, o):
        """self >= o for every N >= _N_MIN[0]"""
        d = self - o
        return d.b >= 0 and d.a + _N_MIN[0] * d.b >= 0

    def text(self):
        if not self.b:
            return "%d" % self.a
        return ("%sN%s" % ("" if self.b == 1 else "%d*" % self.b, "%+d" % self.a if self.a else "")).replace("+", " + ").replace("-", " - ")


def _amax(x, y):
    """max of two bounds (an _Aff, -inf '-inf' or +inf 'inf'); None when neither dominates for all N >= 2"""
    if x == "-inf" or y == _INF:
        return y
    if y == "-inf" or x == _INF:
        return x
    return x if x.ge_all(y) else y if y.ge_all(x) else None


def _amin(x, y):
    if x == _INF or y == "-inf":
        return y
    if y == _INF or x == "-inf":
        return x
    return y if x.ge_all(y) else x if y.ge_all(x) else None


class _Idx:
    """the index min(H, max(L, s + c)) where s is the result of the ordered search of the whole abscissa table for the query
    point (0 <= s <= N, the bracketing segment of an interior point being [s-1, s]); c an integer, L / H bounds (_Aff or infinite)"""
    __slots__ = ("c", "L", "H", "ver")

    def __init__(self, c, L="-inf", H=_INF):
        self.c, self.L, self.H = c, L, H

    def shift(self, d):
        return _Idx(self.c + d, self.L if isinstance(self.L, str) else self.L + _Aff(d), self.H if isinstance(self.H, str) else self.H + _Aff(d))

    def at_least(self, B):
        L, H = _amax(self.L, B), _amax(self.H, B)
        return None if L is None or H is None else _Idx(self.c, L, H)

    def at_most(self, B):
        H = _amin(self.H, B)
        return None if H is None else _Idx(self.c, self.L, H)


class _Mask:
    """the positions where the index held in variable `var` (in its version `ver`) satisfies `op` against the bound B"""
    __slots__ = ("var", "ver", "op", "B")

    def __init__(self, var, ver, op, B):
        self.var, self.ver, self.op, self.B = var, ver, op, B


_TAB, _VAL, _QRY = "table", "values", "query"


def _same_abs(a, b):
    if a is b:
        return True
    if isinstance(a, _Aff) and isinstance(b, _Aff):
        return a.same(b)
    if isinstance(a, _Idx) and isinstance(b, _Idx):
        return a.c == b.c and all(x == y if isinstance(x, str) or isinstance(y, str) else x.same(y) for x, y in ((a.L, b.L), (a.H, b.H)))
    return isinstance(a, (str, tuple)) and a == b


class _IndexRange:
    """Abstract interpretation of the statements of the interpolation routine, in program order, over the domain above: which
    names hold the abscissa table / the values / the query points (through value-keeping conversions), the table size (as a + b*N),
    a search result shifted and clamped (_Idx), a mask on such an index.  Everything else is unknown (None).  Covers every input:
    no concrete value takes part."""

    def __init__(self, flow, fi):
        self.flow, self.fi = flow, fi
        p = flow.params
        self.env = {p[0]: _VAL, p[1]: _TAB, p[2]: _QRY}
        self.ver = {}
        self.alias = {}
        self.lookups = []        # (expression, base kind, _Idx or None, index expression)
        self.seg = _Seg(flow, p[2], [])
        self.stmt = None

    # -- expressions ------------------------------------------------------------
    def ev(self, e):
        if isinstance(e, ast.Constant):
            return _Aff(e.value) if isinstance(e.value, int) and not isinstance(e.value, bool) else None
        if isinstance(e, ast.Name):
            return self.env.get(e.id)
        if isinstance(e, ast.UnaryOp) and isinstance(e.op, ast.USub):
            v = self.ev(e.operand)
            return _Aff(-v.a, -v.b) if isinstance(v, _Aff) else None
        if isinstance(e, ast.BinOp) and isinstance(e.op, (ast.Add, ast.Sub)):
            l, r = self.ev(e.left), self.ev(e.right)
            sub = isinstance(e.op, ast.Sub)
            if isinstance(l, _Aff) and isinstance(r, _Aff):
                return l - r if sub else l + r
            if isinstance(l, _Idx) and isinstance(r, _Aff) and not r.b:
                return l.shift(-r.a if sub else r.a)
            if isinstance(r, _Idx) and isinstance(l, _Aff) and not l.b and not sub:
                return r.shift(l.a)
            return None
        if isinstance(e, ast.Attribute) and e.attr == "size" and self.ev(e.value) == _TAB:
            return _Aff(0, 1)
        if isinstance(e, ast.Subscript) and isinstance(e.ctx, ast.Load):
            b = self.ev(e.value)
            # x.shape[0]
            if isinstance(e.value, ast.Attribute) and e.value.attr == "shape" and self.ev(e.value.value) == _TAB and const_value(e.slice) == 0:
                return _Aff(0, 1)
            # x[a:b]: the run of consecutive table entries a .. N+b-1
            if b == _TAB and isinstance(e.slice, ast.Slice) and e.slice.step is None:
                lo = 0 if e.slice.lower is None else const_value(e.slice.lower)
                hi = 0 if e.slice.upper is None else const_value(e.slice.upper)
                if isinstance(lo, int) and isinstance(hi, int) and not isinstance(lo, bool) and not isinstance(hi, bool) and lo >= 0 and (hi < 0 or e.slice.upper is None):
                    return ("slice", lo, hi)
            # np.where(cond)[0]
            if isinstance(b, _Mask) and const_value(e.slice) == 0:
                return b
            return None
        if isinstance(e, ast.Compare) and len(e.ops) == 1:
            l, r = self.ev(e.left), self.ev(e.comparators[0])
            op = type(e.ops[0])
            flip = {ast.Lt: ast.Gt, ast.Gt: ast.Lt, ast.LtE: ast.GtE, ast.GtE: ast.LtE}
            if isinstance(r, _Idx) and isinstance(l, _Aff) and op in flip:
                l, r, op, left = r, l, flip[op], e.comparators[0]
            else:
                left = e.left
            if isinstance(l, _Idx) and isinstance(r, _Aff) and op in flip and isinstance(left, ast.Name):
                return _Mask(left.id, self.ver.get(left.id, 0), op, r)
            return None
        if isinstance(e, ast.IfExp):
            return None
        if isinstance(e, ast.Call):
            return self.call(e)
        return None

    def bound(self, e):
        """a clamp limit: None / absent means no limit"""
        if e is None or _is_none(e):
            return "none"
        v = self.ev(e)
        return v if isinstance(v, _Aff) else None

    def call(self, e):
        f = e.func
        nm = self.flow._numpy_func(e)
        name = call_name(e)
        # len(x), np.size(x)
        if ((isinstance(f, ast.Name) and f.id == "len") or nm == "size") and len(e.args) == 1 and not e.keywords and self.ev(e.args[0]) == _TAB:
            return _Aff(0, 1)
        # the ordered search
        if name in ("searchsorted", "digitize"):
            t = q = None
            if name == "searchsorted" and nm is not None:
                t = e.args[0] if e.args else kwarg(e, "a")
                q = e.args[1] if len(e.args) > 1 else kwarg(e, "v")
            elif name == "searchsorted" and isinstance(f, ast.Attribute):
                t, q = f.value, (e.args[0] if e.args else kwarg(e, "v"))
            elif nm is not None:
                q = e.args[0] if e.args else kwarg(e, "x")
                t = e.args[1] if len(e.args) > 1 else kwarg(e, "bins")
            if t is None or q is None or kwarg(e, "sorter") is not None or len(e.args) > 2 or any(k.arg not in ("a", "v", "x", "bins", "side", "right") for k in e.keywords):
                return None
            tv, qv = self.ev(t), self.ev(q)
            if qv != _QRY:
                return None
            if tv == _TAB:
                return _Idx(0, _Aff(0), _Aff(0, 1))
            if isinstance(tv, tuple) and tv[0] == "slice":
                # searching entries a .. N+b-1 only: the result is clamp(s - a, 0, N + b - a)
                return _Idx(-tv[1], _Aff(0), _Aff(tv[2] - tv[1], 1))
            return None
        # conversions that keep the elements (and, of an integer index, its values)
        c = self.flow.conversion(e)
        if c is not None:
            v = self.ev(c[0])
            if v in (_TAB, _VAL, _QRY):
                return v if c[1] == "keep" else None
            if isinstance(v, _Idx):
                return v if c[1] in ("keep", "dtype", "narrow") else None
            return None
        # clamps
        if nm == "clip" or (nm is None and isinstance(f, ast.Attribute) and f.attr == "clip"):
            args = list(e.args)
            v = self.ev(args.pop(0)) if nm == "clip" and args else self.ev(f.value) if nm is None else None
            if not isinstance(v, _Idx) or len(args) > 2 or any(k.arg not in ("a_min", "a_max", "min", "max") for k in e.keywords):
                return None
            lo = self.bound(args[0] if args else kwarg(e, "a_min") or kwarg(e, "min"))
            hi = self.bound(args[1] if len(args) > 1 else kwarg(e, "a_max") or kwarg(e, "max"))
            if lo is None or hi is None:
                return None
            # numpy: clip(a, lo, hi) is minimum(hi, maximum(a, lo))
            if lo != "none":
                v = v.at_least(lo)
            if hi != "none" and v is not None:
                v = v.at_most(hi)
            return v
        if nm in ("minimum", "maximum", "fmin", "fmax") and len(e.args) == 2 and not e.keywords:
            a, b = self.ev(e.args[0]), self.ev(e.args[1])
            if isinstance(b, _Idx):
                a, b = b, a
            if isinstance(a, _Idx) and isinstance(b, _Aff):
                return a.at_most(b) if nm in ("minimum", "fmin") else a.at_least(b)
            return None
        if nm in ("where", "nonzero", "flatnonzero") and len(e.args) == 1 and not e.keywords:
            m = self.ev(e.args[0])
            return m if isinstance(m, _Mask) else None
        if nm == "where" and len(e.args) == 3 and not e.keywords:
            m = self.ev(e.args[0])
            a, b = self.ev(e.args[1]), self.ev(e.args[2])
            if isinstance(m, _Mask) and self.ver.get(m.var, 0) == m.ver and isinstance(self.env.get(m.var), _Idx):
                cur = self.env[m.var]
                if isinstance(a, _Aff) and isinstance(e.args[2], ast.Name) and e.args[2].id == m.var:
                    return self.masked(cur, m.op, m.B, a)
                if isinstance(b, _Aff) and isinstance(e.args[1], ast.Name) and e.args[1].id == m.var:
                    neg = {ast.Lt: ast.GtE, ast.GtE: ast.Lt, ast.Gt: ast.LtE, ast.LtE: ast.Gt}
                    return self.masked(cur, neg[m.op], m.B, b)
            return None
        return None

    @staticmethod
    def masked(cur, op, B, V):
        """the (integer) index with the elements that satisfy `op B` replaced by V, when that is a clamp"""
        one = _Aff(1)
        if op is ast.GtE and (V.same(B) or V.same(B - one)):
            return cur.at_most(V)
        if op is ast.Gt and (V.same(B) or V.same(B + one)):
            return cur.at_most(V)
        if op is ast.Lt and (V.same(B) or V.same(B - one)):
            return cur.at_least(V)
        if op is ast.LtE and (V.same(B) or V.same(B + one)):
            return cur.at_least(V)
        return None

    # -- statements -------------------------------------------------------------
    def bind(self, name, v):
        self.env[name] = v
        self.ver[name] = self.ver.get(name, 0) + 1

    def forget(self, stmts):
        for st in stmts:
            for x in ast.walk(st):
                if isinstance(x, ast.Name) and isinstance(x.ctx, (ast.Store, ast.Del)):
                    self.bind(x.id, None)
                elif isinstance(x, (ast.Subscript, ast.Attribute)) and isinstance(x.ctx, (ast.Store, ast.Del)):
                    b = x
                    while isinstance(b, (ast.Subscript, ast.Attribute)):
                        b = b.value
                    if isinstance(b, ast.Name):
                        self.bind(b.id, None)
                elif isinstance(x, ast.Call) and kwarg(x, "out") is not None:
                    for y in ast.walk(kwarg(x, "out")):
                        if isinstance(y, ast.Name):
                            self.bind(y.id, None)
                elif isinstance(x, ast.Call) and isinstance(x.func, ast.Attribute) and x.func.attr in _INPLACE and isinstance(x.func.value, ast.Name) and self.flow._numpy_func(x) is None:
                    self.bind(x.func.value.id, None)

    def scan(self, e):
        """record the lookups of the abscissa / value tables made by the expression"""
        for x in walk_no_nested(e):
            if isinstance(x, ast.Subscript) and isinstance(x.ctx, ast.Load) and not _plain_slice(x.slice) and not isinstance(x.slice, ast.Tuple):
                base = self.ev(x.value)
                if base in (_TAB, _VAL):
                    iv = self.ev(x.slice)
                    node = next((n for n in self.flow.cfg.nodes if n.ast is self.stmt), None)
                    if not isinstance(iv, _Aff) and (isinstance(iv, _Idx) or node is None or self.seg.dep(x.slice, node)):
                        self.lookups.append((x, base, iv if isinstance(iv, _Idx) else None, x.slice))

    def nonempty_test(self, t):
        """the name w when the test is `w is not empty` (w.size > 0, w.size != 0, w.size, len(w) ...), else None"""
        if isinstance(t, ast.Compare) and len(t.ops) == 1:
            l, r, op = t.left, t.comparators[0], t.ops[0]
            if const_value(l) == 0 and isinstance(op, (ast.Lt, ast.NotEq)):
                return self.nonempty_test(r)
            if (const_value(r) == 0 and isinstance(op, (ast.Gt, ast.NotEq))) or (const_value(r) == 1 and isinstance(op, ast.GtE)):
                return self.nonempty_test(l)
            return None
        if isinstance(t, ast.Attribute) and t.attr == "size" and isinstance(t.value, ast.Name):
            return t.value.id
        if isinstance(t, ast.Call) and isinstance(t.func, ast.Name) and t.func.id == "len" and len(t.args) == 1 and isinstance(t.args[0], ast.Name):
            return t.args[0].id
        return None

    def masked_store(self, st):
        """xm[w] = V with w a mask on the current xm"""
        if isinstance(st, ast.Assign) and len(st.targets) == 1 and isinstance(st.targets[0], ast.Subscript) and isinstance(st.targets[0].value, ast.Name):
            return st.targets[0].value.id, st.targets[0].slice, st.value
        return None

    def run(self, stmts):
        for st in stmts:
            self.stmt = st
            if isinstance(st, (ast.FunctionDef, ast.AsyncFunctionDef, ast.ClassDef, ast.Import, ast.ImportFrom, ast.Pass, ast.Global, ast.Nonlocal)):
                continue
            if isinstance(st, ast.Expr) and isinstance(st.value, ast.Constant):
                continue
            if isinstance(st, ast.If):
                self.scan(st.test)
                w = self.nonempty_test(st.test)
                if w is not None and isinstance(self.env.get(w), _Mask) and not st.orelse and all(
                        self.masked_store(b) is not None and isinstance(self.masked_store(b)[1], ast.Name) and self.masked_store(b)[1].id == w for b in st.body):
                    # stores through an empty index array change nothing: the body runs as if unconditional
                    self.run(st.body)
                    continue
                # both arms are interpreted on a copy of the state; an arm that ends in raise / return hands nothing on, and a name
                # keeps its value after the statement only when the arms that continue agree on it
                before = (dict(self.env), dict(self.ver))
                ends = []
                for arm in (st.body, st.orelse):
                    self.env, self.ver = dict(before[0]), dict(before[1])
                    self.run(arm)
                    if not (arm and isinstance(arm[-1], (ast.Raise, ast.Return))):
                        ends.append((self.env, self.ver))
                if not ends:
                    self.env, self.ver = dict(before[0]), dict(before[1])
                    continue
                env, ver = dict(ends[0][0]), dict(ends[0][1])
                for e2, v2 in ends[1:]:
                    for k in set(env) | set(e2):
                        if not (k in env and k in e2 and _same_abs(env[k], e2[k]) and ver.get(k, 0) == v2.get(k, 0)):
                            env[k] = None
                            ver[k] = max(ver.get(k, 0), v2.get(k, 0)) + 1
                self.env, self.ver = env, ver
                continue
            if isinstance(st, ast.Expr) and isinstance(st.value, ast.Call) and isinstance(kwarg(st.value, "out"), ast.Name):
                # np.minimum(xm, limit, out=xm): the result of the call without `out`, bound to that name
                c = st.value
                self.scan(c)
                plain = ast.copy_location(ast.Call(func=c.func, args=c.args, keywords=[k for k in c.keywords if k.arg != "out"]), c)
                v = self.ev(plain)
                tgt = kwarg(c, "out").id
                self.bind(tgt, v if isinstance(v, _Idx) else None)
                for o in self.alias.get(tgt, ()):
                    self.bind(o, None)
                continue
            if isinstance(st, (ast.Return, ast.Expr)):
                if st.value is not None:
                    self.scan(st.value)
                    self.forget([st])
                continue
            if isinstance(st, ast.Assign) and len(st.targets) == 1:
                t = st.targets[0]
                self.scan(st.value)
                if isinstance(t, ast.Name):
                    v = self.ev(st.value)
                    if isinstance(st.value, ast.Name) and isinstance(v, _Idx):
                        self.alias.setdefault(st.value.id, set()).add(t.id)
                        self.alias.setdefault(t.id, set()).add(st.value.id)
                    self.bind(t.id, v)
                    continue
                if isinstance(t, (ast.Tuple, ast.List)) and len(t.elts) == 1 and isinstance(t.elts[0], ast.Name):
                    v = self.ev(st.value)
                    self.bind(t.elts[0].id, v if isinstance(v, _Mask) else None)
                    continue
                ms = self.masked_store(st)
                if ms is not None:
                    name, ix, val = ms
                    cur, m, V = self.env.get(name), self.ev(ix), self.ev(val)
                    new = None
                    if isinstance(cur, _Idx) and isinstance(m, _Mask) and m.var == name and m.ver == self.ver.get(name, 0) and isinstance(V, _Aff):
                        new = self.masked(cur, m.op, m.B, V)
                    if isinstance(cur, _Idx) or name in self.alias:
                        self.bind(name, new)
                        for o in self.alias.get(name, ()):
                            self.bind(o, None)
                    elif self.env.get(name) in (_TAB, _VAL, _QRY):
                        self.bind(name, None)
                    continue
                self.forget([st])
                continue
            if isinstance(st, ast.AugAssign) and isinstance(st.target, ast.Name) and isinstance(st.op, (ast.Add, ast.Sub)):
                self.scan(st.value)
                cur, v = self.env.get(st.target.id), self.ev(st.value)
                new = None
                if isinstance(cur, _Idx) and isinstance(v, _Aff) and not v.b:
                    new = cur.shift(v.a if isinstance(st.op, ast.Add) else -v.a)
                elif isinstance(cur, _Aff) and isinstance(v, _Aff):
                    new = cur + v if isinstance(st.op, ast.Add) else cur - v
                self.bind(st.target.id, new)
                for o in self.alias.get(st.target.id, ()):
                    self.bind(o, None)
                continue
            # anything else (loops, try, with, other assignments): its expressions are scanned with what is known before it,
            # and every name it may bind or change is unknown afterwards
            self.forget([st])
            self.scan(st)


def segment_range(chk, fi, flow):
    """R17.8: 'the weighted sum ... of the linearly interpolated values': a query point strictly inside the table is interpolated on
    the segment [x[s-1], x[s]] that the ordered search (result s, 1 <= s <= N-1) brackets it with.  The index actually used is the
    search result shifted by a constant c and clamped, min(H, max(L, s + c)), computed here for every statement by abstract
    interpretation with the table size N symbolic.  Necessary for every table size N >= 2: an index used for the lower end (c = -1)
    equals s - 1 for all 1 <= s <= N-1, i.e. L <= 0 and H >= N-2; one used for the upper end (c = 0) has L <= 1 and H >= N-1;
    no other shift is an end of the bracketing segment.  A tighter clamp means the first / last segment is never selected and the
    points in it are extrapolated from the neighbouring one."""
    key = "interplin::clamped-index-reaches-every-segment"
    # tables of at least 2 points first; when a limit cannot be ordered for all of those (max(N-2, 1) ...) the same analysis is made for
    # tables of at least 3 and 4 points, where only a violation counts (a routine wrong for every table of 4 or more points is wrong)
    first = None
    for n_min in (2, 3, 4):
        _N_MIN[0] = n_min
        try:
            verdict = _segment_range_verdict(fi, flow)
        finally:
            _N_MIN[0] = 2
        first = first or verdict
        if verdict[0] is not None or verdict[1] is None:
            break
    ok, where, msg = verdict
    if n_min > 2:
        ok, where, msg = (False, where, msg + " (analysed for tables of %d or more points)" % n_min) if ok is False else first
    where = where or fi.where()
    chk.ob("R17.8", key, ok, where, msg)


def _segment_range_verdict(fi, flow):
    """(ok, where, message) of segment_range for tables of at least _N_MIN[0] points; where is None when no lookup was recognised"""
    ir = _IndexRange(flow, fi)
    try:
        ir.run(fi.node.body)
    except RecursionError:
        ir.lookups = []
    found = [(x, b, iv, ix) for x, b, iv, ix in ir.lookups]
    if not found:
        return None, None, "no lookup of the abscissa / value tables with a searched index was recognised"
    bad, undecided, n_ok = None, None, 0
    N = _Aff(0, 1)
    for x, b, iv, ix in found:
        if iv is None:
            undecided = undecided or (x, "the index `%s` was not brought to the form clamp(search result + constant)" % norm(ix)[:60])
            continue
        if iv.c not in (-1, 0):
            bad = bad or (x, "its index is the search result %+d: for an interior point the search result s brackets it with [x[s-1], x[s]], and x[s%+d] is no end of that segment" % (iv.c, iv.c))
            continue
        # the clamp limits that matter, given 0 <= s <= N: effective limits of min(H, max(L, s + c))
        lo_need = _Aff(1 + iv.c)             # s = 1 must give 1 + c
        hi_need = N + _Aff(iv.c - 1)         # s = N-1 must give N-1+c
        which = "lower" if iv.c == -1 else "upper"
        L_ok = iv.L == "-inf" or (isinstance(iv.L, _Aff) and lo_need.ge_all(iv.L))
        H_ok = iv.H == _INF or (isinstance(iv.H, _Aff) and iv.H.ge_all(hi_need))
        if not H_ok:
            bad = bad or (x, "its index (the %s end of the segment) is limited from above to %s, but for the last segment it has to reach %s: the last segment of the table is never selected "
                             "for some table size, and query points in [x[N-2], x[N-1]] are extrapolated from the segment before" % (which, iv.H.text(), hi_need.text()))
            continue
        if not L_ok:
            bad = bad or (x, "its index (the %s end of the segment) is limited from below to %s, but for the first segment it has to be %s: the first segment of the table is never selected "
                             "for some table size, and query points in [x[0], x[1]] are extrapolated from the segment after" % (which, iv.L.text(), lo_need.text()))
            continue
        # within the table for every search result (0 and N included): exactly the documented end segments
        Le = _amax(iv.L, _Aff(iv.c))
        He = _amin(iv.H, N + _Aff(iv.c))
        if isinstance(Le, _Aff) and isinstance(He, _Aff) and Le.same(lo_need) and He.same(hi_need):
            n_ok += 1
        else:
            undecided = undecided or (x, "its index ranges over [%s, %s] where [%s, %s] is expected (query points outside the table)"
                                         % (Le.text() if isinstance(Le, _Aff) else Le, He.text() if isinstance(He, _Aff) else He, lo_need.text(), hi_need.text()))
    if bad:
        return False, fi.where(bad[0]), "table lookup `%s`: %s" % (norm(bad[0])[:40], bad[1])
    ok = True if n_ok and not undecided else None
    return ok, fi.where(), ("every searched index used on the abscissa / value tables (%d lookups) equals the bracketing segment's end for interior points and stays on the end segments outside%s"
                            % (len(found), "" if ok else ": table lookup `%s`: %s" % (norm(undecided[0])[:40], undecided[1]) if undecided else ""))



class _Arr:
    """an array value of the shape/element interpreter: symbolic shape and the element at index (i0, i1, ..) as a term"""

    def __init__(self, shape, elem):
        self.shape = tuple(shape)
        self.elem = sp.sympify(elem)

    def __repr__(self):
        return "Arr(%s, %s)" % (self.shape, self.elem)


def _ix(k):
    return sp.Symbol("i%d" % k, integer=True)


class _Sum:
    """pref * (sum over all elements of arr)"""

    def __init__(self, arr, pref=1):
        self.arr, self.pref = arr, sp.sympify(pref)

    def __repr__(self):
        return "%s * SUM%s(%s)" % (self.pref, self.arr.shape, self.arr.elem)


class _Fn:
    """a function handed in by the caller; applied to arrays it is evaluated element by element (the integrand of the property)"""

    def __init__(self, name):
        self.name = name


class _ElemEval:
    """shape / element interpreter for straight-line numpy code: every array is followed as (symbolic shape, element at [i0, i1] as
    a term); scalars are terms, sequences tuples.  Statements understood: assignments (tuple targets, attributes of self), augmented
    assignments, imports, doc strings, `if ...: raise` guards (the analysis is about the calls that are not rejected), return.
    Calls of module-level helper functions are evaluated on their body.  Anything else: the value is unknown (None)."""

    def __init__(self, repo, fi, env, issues, rules_used):
        self.repo, self.fi, self.env = repo, fi, env
        self.issues, self.rules_used = issues, rules_used
        self.straight = True
        self.depth = 0
        self.reshapes = []       # (where, text) of the reshapes that regroup elements
        self.np_local = set()
        for x in walk_no_nested(fi.node):
            if isinstance(x, ast.ImportFrom) and x.module == "numpy":
                self.np_local |= {al.asname or al.name for al in x.names}

    def shift(self, a, n):
        """re-index a for use as the trailing axes of an n-dimensional result; axes of length 1 do not depend on their index"""
        d = n - len(a.shape)
        sub = {_ix(k): (_ix(k + d) if a.shape[k] != 1 else 0) for k in range(len(a.shape))}
        return (1,) * d + a.shape, a.elem.xreplace(sub)

    def bc(self, a, b, where):
        n = max(len(a.shape), len(b.shape))
        (sa, ea), (sb, eb) = self.shift(a, n), self.shift(b, n)
        out = []
        for x, y in zip(sa, sb):
            if x == y:
                out.append(x)
            elif x == 1:
                out.append(y)
            elif y == 1:
                out.append(x)
            else:
                self.issues.append((where, "cannot broadcast axis lengths %s and %s (shapes %s and %s) unless nx == ny" % (x, y, sa, sb)))
                out.append(x)
        return tuple(out), ea, eb

    def is_np(self, e, *names):
        d = dotted_name(e.func)
        if d is None:
            return False
        full = self.repo.resolve_name(self.fi.module, d)
        last = full.rsplit(".", 1)[-1]
        local_np = isinstance(e.func, ast.Name) and e.func.id in self.np_local
        return last in names and (full.startswith("numpy") or local_np)

    @staticmethod
    def is_newaxis(s):
        return (isinstance(s, ast.Constant) and s.value is None) or (dotted_name(s) or "").rsplit(".", 1)[-1] == "newaxis"

    def dim(self, e):
        v = self.ev(e)
        return v if isinstance(v, sp.Basic) else None

    def ev(self, e):
        """_Arr, a scalar term, a tuple of values, _Sum, _Fn, or None (not understood)"""
        env = self.env
        if isinstance(e, ast.Constant) and isinstance(e.value, (int, float)) and not isinstance(e.value, bool):
            return sp.nsimplify(e.value, rational=True)
        if isinstance(e, (ast.Name, ast.Attribute)):
            if isinstance(e, ast.Attribute) and e.attr == "T":
                return self.tr(self.ev(e.value))
            if isinstance(e, ast.Attribute) and e.attr == "shape" and norm(e) not in env:
                base = self.ev(e.value)
                return tuple(base.shape) if isinstance(base, _Arr) else None
            return env.get(norm(e))
        if isinstance(e, (ast.Tuple, ast.List)):
            vs = tuple(self.ev(x) for x in e.elts)
            return None if any(v is None for v in vs) else vs
        if isinstance(e, ast.UnaryOp) and isinstance(e.op, (ast.USub, ast.UAdd)):
            v = self.ev(e.operand)
            if isinstance(v, _Arr):
                return _Arr(v.shape, -v.elem if isinstance(e.op, ast.USub) else v.elem)
            return (-v if isinstance(e.op, ast.USub) else v) if isinstance(v, sp.Basic) else None
        if isinstance(e, ast.BinOp) and isinstance(e.op, (ast.Add, ast.Sub, ast.Mult, ast.Div)):
            return self.arith(type(e.op), self.ev(e.left), self.ev(e.right), e)
        if isinstance(e, ast.Subscript):
            base = self.ev(e.value)
            if isinstance(base, tuple) and isinstance(const_value(e.slice), int) and -len(base) <= const_value(e.slice) < len(base):
                return base[const_value(e.slice)]
            if not isinstance(base, _Arr):
                return None
            parts = list(e.slice.elts) if isinstance(e.slice, ast.Tuple) else [e.slice]
            shape, sub, k = [], {}, 0
            for s in parts:
                if self.is_newaxis(s):
                    shape.append(1)
                elif isinstance(s, ast.Slice) and s.lower is None and s.upper is None and s.step is None and k < len(base.shape):
                    sub[_ix(k)] = _ix(len(shape))
                    shape.append(base.shape[k])
                    k += 1
                else:
                    return None
            while k < len(base.shape):
                sub[_ix(k)] = _ix(len(shape))
                shape.append(base.shape[k])
                k += 1
            return _Arr(shape, base.elem.xreplace(sub))
        if isinstance(e, ast.Call):
            return self.call(e)
        return None

    def call(self, e):
        ev = self.ev
        cnt = _rule_call_count(self.repo, self.fi, e)
        if cnt is not None:
            # gauleg, or a helper that hands out the rule for the count it is given (decided by _RuleEval.summary)
            n = self.dim(cnt)
            if n is None:
                return None
            k = len(self.rules_used)
            fx, fw = sp.Function("X%d" % k), sp.Function("W%d" % k)
            self.rules_used.append((fx, fw, n))
            return (_Arr((n,), fx(_ix(0))), _Arr((n,), fw(_ix(0))))
        if isinstance(e.func, ast.Name) and isinstance(self.env.get(e.func.id), _Fn) and e.args and not e.keywords:
            # the integrand at every element of its (broadcast) array arguments
            args = [ev(a) for a in e.args]
            if any(not isinstance(a, (_Arr, sp.Basic)) for a in args):
                return None
            arrs = [a if isinstance(a, _Arr) else _Arr((), a) for a in args]
            n = max(len(a.shape) for a in arrs)
            shape = None
            elems = []
            for a in arrs:
                s_, el = self.shift(a, n)
                if shape is None:
                    shape = s_
                elif tuple(shape) != tuple(s_):
                    shape, _, _ = self.bc(_Arr(shape, 0), a, self.fi.where(e))
                elems.append(el)
            return _Arr(shape, sp.Function(self.env[e.func.id].name)(*elems))
        if self.is_np(e, "meshgrid") and len(e.args) == 2:
            a, b = ev(e.args[0]), ev(e.args[1])
            extra = [k.arg for k in e.keywords if k.arg != "indexing"]
            if not (isinstance(a, _Arr) and isinstance(b, _Arr) and len(a.shape) == 1 and len(b.shape) == 1) or extra:
                return None
            ind = kwarg(e, "indexing")
            ind = "xy" if ind is None else const_value(ind)
            if ind == "xy":
                return (_Arr((b.shape[0], a.shape[0]), a.elem.xreplace({_ix(0): _ix(1)})), _Arr((b.shape[0], a.shape[0]), b.elem))
            if ind == "ij":
                return (_Arr((a.shape[0], b.shape[0]), a.elem), _Arr((a.shape[0], b.shape[0]), b.elem.xreplace({_ix(0): _ix(1)})))
            return None
        if self.is_np(e, "ones", "zeros") and e.args:
            s = ev(e.args[0])
            s = s if isinstance(s, tuple) else (s,)
            if all(isinstance(x, sp.Basic) for x in s):
                return _Arr(s, 1 if call_name(e) == "ones" else 0)
            return None
        if self.is_np(e, "ones_like", "zeros_like") and e.args:
            a = ev(e.args[0])
            return _Arr(a.shape, 1 if call_name(e) == "ones_like" else 0) if isinstance(a, _Arr) else None
        if self.is_np(e, "outer") and len(e.args) == 2 and not e.keywords:
            a, b = ev(e.args[0]), ev(e.args[1])
            if isinstance(a, _Arr) and isinstance(b, _Arr) and len(a.shape) == 1 and len(b.shape) == 1:
                return _Arr((a.shape[0], b.shape[0]), a.elem * b.elem.xreplace({_ix(0): _ix(1)}))
            return None
        if self.is_np(e, "multiply", "add", "subtract", "divide") and len(e.args) == 2 and not e.keywords:
            op = {"multiply": ast.Mult, "add": ast.Add, "subtract": ast.Sub, "divide": ast.Div}[call_name(e)]
            return self.arith(op, ev(e.args[0]), ev(e.args[1]), e)
        if self.is_np(e, "transpose") and len(e.args) == 1 and not e.keywords:
            return self.tr(ev(e.args[0]))
        if self.is_np(e, "array", "asarray", "asanyarray", "copy", "ascontiguousarray") and e.args and not (e.keywords or len(e.args) > 1):
            return ev(e.args[0])
        if self.is_np(e, "sum") and len(e.args) == 1 and not e.keywords:
            a = ev(e.args[0])
            return _Sum(a) if isinstance(a, _Arr) else None
        if isinstance(e.func, ast.Attribute) and e.func.attr == "sum" and not e.args and not e.keywords and not self.is_np(e, "sum"):
            a = ev(e.func.value)
            return _Sum(a) if isinstance(a, _Arr) else None
        if isinstance(e.func, ast.Attribute) and e.func.attr in ("copy", "transpose") and not e.args and not e.keywords:
            v = ev(e.func.value)
            return self.tr(v) if e.func.attr == "transpose" else v
        if (isinstance(e.func, ast.Attribute) and e.func.attr == "reshape" and not self.is_np(e, "reshape")) or (self.is_np(e, "reshape") and e.args):
            if self.is_np(e, "reshape"):
                a, rest = ev(e.args[0]), list(e.args[1:])
            else:
                a, rest = ev(e.func.value), list(e.args)
            order = kwarg(e, "order")
            if [k.arg for k in e.keywords if k.arg != "order"] or (order is not None and const_value(order) != "C") or not isinstance(a, _Arr):
                return None
            if len(rest) == 1:
                t = rest[0]
                if isinstance(t, (ast.Tuple, ast.List)):
                    dims = [(-1 if const_value(x) == -1 else ev(x)) for x in t.elts]
                else:
                    v = -1 if const_value(t) == -1 else ev(t)
                    dims = list(v) if isinstance(v, tuple) else [v]
            else:
                dims = [(-1 if const_value(x) == -1 else ev(x)) for x in rest]
            return self.reshape(a, dims, e)
        # a module-level helper of the package: what its body returns for these arguments
        d = dotted_name(e.func)
        q = self.repo.resolve_name(self.fi.module, d) if d else None
        f = self.repo.funcs.get(q) if q else None
        method = False
        if f is None or f.cls is not None:
            # ... or a method of the object itself (it sees and may re-bind the object's attributes)
            f = _self_callee(self.repo, self.fi, e)
            method = f is not None
        if f is not None and self.depth < 3:
            b = _bind_call(f, e)
            if b is None:
                self.straight = self.straight and not method
                return None
            sub = _ElemEval(self.repo, f, {}, self.issues, self.rules_used)
            sub.depth = self.depth + 1
            sub.reshapes = self.reshapes
            static = any(isinstance(d_, ast.Name) and d_.id == "staticmethod" for d_ in f.node.decorator_list)
            if method and not static:
                me = f.params[0] if f.params else "self"
                if me != "self":
                    return None
                sub.env.update({k: v for k, v in self.env.items() if k.startswith("self.")})
            for p in f.params[(1 if method and not static else 0):]:
                if p.startswith("*"):
                    return None
                v = ev(b[p]) if p in b else (sub.ev(f.defaults[p]) if p in f.defaults else None)
                if v is not None:
                    sub.env[p] = v
            r = sub.run()
            if method and not static:
                for k in [k for k in self.env if k.startswith("self.")]:
                    del self.env[k]
                self.env.update({k: v for k, v in sub.env.items() if k.startswith("self.")})
            if not sub.straight:
                self.straight = self.straight and not (method and not static)
                return None
            return r
        return None

    @staticmethod
    def _divmod(t, q, bounds):
        """(t div q, t mod q) for a term t >= 0 made of index symbols (0 <= i_k < bounds[i_k]) and axis lengths: the multiples of
        q among the terms of t go into the quotient; what is left must be one index that is smaller than q (else floor / Mod terms)"""
        if q == 1:
            return t, sp.Integer(0)
        whole, left = sp.Integer(0), sp.Integer(0)
        for term in sp.Add.make_args(sp.expand(t)):
            r = sp.cancel(term / q)
            if sp.denom(r) == 1:
                whole += r
            else:
                left += term
        if left == 0:
            return whole, sp.Integer(0)
        if left in bounds and _zero(bounds[left] - q):
            return whole, left
        return sp.floor(t / q), sp.Mod(t, q)

    def reshape(self, a, dims, node):
        """a.reshape(dims): same elements in row-major order.  Equal shapes: the array itself; shapes that differ in axes of
        length one only: the same axes under other numbers; otherwise the element at [i0, i1, ..] is the one whose row-major
        position in the old shape is the row-major position of [i0, i1, ..] in the new one (index arithmetic with floor / Mod
        where the axis lengths do not divide out)"""
        if any(not (d == -1 or isinstance(d, sp.Basic)) for d in dims) or sum(1 for d in dims if d == -1) > 1:
            return None
        total = sp.Mul(*a.shape) if a.shape else sp.Integer(1)
        if -1 in dims:
            rest = sp.Mul(*[d for d in dims if d != -1])
            free = sp.cancel(total / rest)
            if sp.denom(free) != 1:
                return None
            dims = [free if d == -1 else d for d in dims]
        if not _zero(sp.Mul(*dims) - total):
            return None
        old, new = tuple(a.shape), tuple(dims)
        if len(old) == len(new) and all(_zero(x - y) for x, y in zip(old, new)):
            return a
        keep_old = [k for k, d in enumerate(old) if d != 1]
        keep_new = [k for k, d in enumerate(new) if d != 1]
        if len(keep_old) == len(keep_new) and all(_zero(old[x] - new[y]) for x, y in zip(keep_old, keep_new)):
            sub = {_ix(k): sp.Integer(0) for k in range(len(old))}
            sub.update({_ix(x): _ix(y) for x, y in zip(keep_old, keep_new)})
            return _Arr(new, a.elem.xreplace(sub))
        bounds = {_ix(k): d for k, d in enumerate(new)}
        flat = sum((_ix(k) * sp.Mul(*new[k + 1:]) for k in range(len(new)) if new[k] != 1), sp.Integer(0))
        sub, rem = {}, flat
        for m in range(len(old)):
            q, rem = self._divmod(rem, sp.Mul(*old[m + 1:]), bounds)
            sub[_ix(m)] = q
        self.reshapes.append((self.fi.where(node), "`%s` re-reads an array of shape %s in row-major order as shape %s (this is not a transposition)"
                              % (norm(node)[:80], old, new)))
        return _Arr(new, a.elem.xreplace(sub))

    def tr(self, v):
        if isinstance(v, _Arr) and len(v.shape) == 2:
            return _Arr((v.shape[1], v.shape[0]), v.elem.xreplace({_ix(0): _ix(1), _ix(1): _ix(0)}))
        return v if isinstance(v, _Arr) and len(v.shape) < 2 else None

    def arith(self, op, a, b, node):
        if a is None or b is None or isinstance(a, (tuple, _Fn)) or isinstance(b, (tuple, _Fn)):
            return None
        f = {ast.Add: lambda x, y: x + y, ast.Sub: lambda x, y: x - y, ast.Mult: lambda x, y: x * y, ast.Div: lambda x, y: x / y}[op]
        if isinstance(a, _Sum) or isinstance(b, _Sum):
            # a sum scaled by a scalar
            if isinstance(a, _Sum) and isinstance(b, sp.Basic) and op in (ast.Mult, ast.Div):
                return _Sum(a.arr, f(a.pref, b))
            if isinstance(b, _Sum) and isinstance(a, sp.Basic) and op is ast.Mult:
                return _Sum(b.arr, a * b.pref)
            return None
        if not isinstance(a, _Arr) and not isinstance(b, _Arr):
            return f(a, b)
        a = a if isinstance(a, _Arr) else _Arr((), a)
        b = b if isinstance(b, _Arr) else _Arr((), b)
        shape, ea, eb = self.bc(a, b, self.fi.where(node))
        return _Arr(shape, f(ea, eb))

    def store(self, t, v):
        if isinstance(t, (ast.Tuple, ast.List)):
            for k, el in enumerate(t.elts):
                self.store(el, v[k] if isinstance(v, tuple) and len(v) == len(t.elts) else None)
        elif isinstance(t, (ast.Name, ast.Attribute)):
            if v is None:
                self.env.pop(norm(t), None)
            else:
                self.env[norm(t)] = v
        else:
            self.straight = False        # an element store: the arrays followed here may no longer hold what was inferred

    def run(self):
        """executes the body; the value of the `return` that ends it (None: no value / not understood)"""
        body = self.fi.node.body
        for k, st in enumerate(body):
            if isinstance(st, ast.Assign):
                v = self.ev(st.value)
                for t in st.targets:
                    self.store(t, v)
            elif isinstance(st, ast.AugAssign) and isinstance(st.op, (ast.Add, ast.Sub, ast.Mult, ast.Div)) and isinstance(st.target, (ast.Name, ast.Attribute)):
                self.store(st.target, self.arith(type(st.op), self.ev(st.target), self.ev(st.value), st))
            elif isinstance(st, (ast.Import, ast.ImportFrom, ast.Pass)) or (isinstance(st, ast.Expr) and isinstance(st.value, ast.Constant)):
                pass
            elif isinstance(st, ast.If) and not st.orelse and st.body and isinstance(st.body[-1], ast.Raise) and all(isinstance(x, (ast.Raise, ast.Expr, ast.Pass)) for x in st.body) \
                    and not any(isinstance(x, ast.NamedExpr) for x in ast.walk(st.test)):
                pass                     # an argument check: the calls it lets through go on below
            elif isinstance(st, ast.Return) and k == len(body) - 1:
                return self.ev(st.value) if st.value is not None else None
            else:
                self.straight = False    # control flow or calls with effects the interpreter does not follow
        return None


def shapes(chk, repo):
    """symbolic shape and element inference for QGauss2 (E12): every array is followed as (shape, element at [i0, i1]);
    the rules are stated on the results (grid and weight shapes, which weight sits at which grid point, and the element that
    integrate_func sums), not on how they are built"""
    fi = repo.func(IU + "QGauss2._setup")
    chk.analysed_unit(fi.qualname)
    nx, ny = sp.symbols("nx ny", positive=True, integer=True)
    env = {"nx": nx, "ny": ny, "self.nx": nx, "self.ny": ny}
    issues = []
    rules_used = []          # (x function, w function, count) per gauleg call
    it = _ElemEval(repo, fi, env, issues, rules_used)
    it.run()
    straight = it.straight
    chk.notes["QGauss2_shapes"] = {k: str(v) for k, v in env.items()}
    xg, yg, wg = env.get("self.xgrid"), env.get("self.ygrid"), env.get("self.wgrid")
    known = all(isinstance(v, _Arr) for v in (xg, yg, wg)) and straight
    chk.ob("R17.7", "QGauss2._setup::shapes-inferred", True if known else None, fi.where(), "shapes inferred: grids %s / %s, weights %s"
           % tuple(getattr(v, "shape", None) for v in (xg, yg, wg)))
    for where, txt in issues:
        chk.ob("R17.7", "QGauss2._setup::weight-grid-broadcast", False, where, "building the weight grid: %s; QGauss2(nx, ny) with nx != ny fails" % txt)
    if not issues and known:
        chk.ob("R17.7", "QGauss2._setup::weight-grid-broadcast", True, fi.where(), "weight grids broadcast for nx != ny")
    if known:
        chk.ob("R17.7", "QGauss2._setup::weights-match-grid", xg.shape == yg.shape == wg.shape and len(wg.shape) == 2, fi.where(),
               "the weight grid has the shape of the abscissa grids (%s vs %s): zvals * wgrid is an element-wise product" % (wg.shape, xg.shape))
        # the weight at a grid point is wx[a] * wy[b] where that point is (x[a], y[b]); x/wx come from one gauleg call for nx
        # points, y/wy from one for ny points
        okt = None
        ex, ey = xg.elem, yg.elem
        if isinstance(ex, sp.core.function.AppliedUndef) and isinstance(ey, sp.core.function.AppliedUndef) and len(ex.args) == 1 and len(ey.args) == 1:
            rx = [r for r in rules_used if r[0] == ex.func]
            ry = [r for r in rules_used if r[0] == ey.func]
            if rx and ry:
                want = rx[0][1](ex.args[0]) * ry[0][1](ey.args[0])
                okt = rx[0] is not ry[0] and rx[0][2] == nx and ry[0][2] == ny and sp.simplify(wg.elem - want) == 0 \
                    and {ex.args[0], ey.args[0]} == {_ix(0), _ix(1)}
        chk.ob("R17.7", "QGauss2._setup::tensor-product", okt, fi.where(), "weights are the tensor product: the weight at the grid point (x[a], y[b]) is wx[a] * wy[b] "
               "(grid points %s, %s; weight %s)%s" % (ex, ey, wg.elem, "".join("; %s: %s" % r for r in it.reshapes) if not okt else ""))
    ts = tensor_sum(repo, dict(env) if straight and not issues else None, list(rules_used), nx, ny)
    f2 = repo.func(IU + "QGauss2.integrate_func")
    chk.ob("R17.7", "QGauss2.integrate_func::tensor-product-sum", ts[0], f2.where(),
           "with the attributes as _setup leaves them, integrate_func([a, b], [c, d], f) returns (b-a)/2 (d-c)/2 sum_pq wx[p] wy[q] f(x[p] mapped to [a, b], y[q] mapped to [c, d]): %s" % ts[1])
    return ts


def tensor_sum(repo, state, rules_used, nx, ny):
    """'the two-dimensional integrator [returns] the tensor-product sum', stated on elements: with the object's attributes as _setup
    leaves them, QGauss2.integrate_func(xrng=[a, b], yrng=[c, d], func) returns
        (b-a)/2 (d-c)/2 sum_{p < nx, q < ny} wx[p] wy[q] func((b-a)/2 x[p] + (a+b)/2, (d-c)/2 y[q] + (c+d)/2)
    with (x, wx) the nx-point and (y, wy) the ny-point rule on [-1, 1], whichever attributes hold the rules and wherever the affine
    maps are applied.  -> (True / False / None, text)"""
    fi = repo.func(IU + "QGauss2.integrate_func")
    if state is None:
        return None, "the attributes _setup leaves behind were not inferred"
    params = [p for p in fi.params if not p.startswith("*")]
    if params[:1] != ["self"] or len(params) != 4:
        return None, "integrate_func does not take (xrng, yrng, func)"
    a, b, c, d = sp.symbols("a b c d")
    env = {k: v for k, v in state.items() if k.startswith("self.")}
    env[params[1]], env[params[2]], env[params[3]] = (a, b), (c, d), _Fn("func")
    issues = []
    it = _ElemEval(repo, fi, env, issues, rules_used)
    n_rules = len(rules_used)
    r = it.run()
    if not it.straight or not isinstance(r, _Sum) or issues or len(rules_used) != n_rules:
        return None, "the value integrate_func returns was not inferred as a sum over an array (%r)" % (r,)
    rx = [u for u in rules_used if u[2] == nx]
    ry = [u for u in rules_used if u[2] == ny]
    if len(rx) != 1 or len(ry) != 1 or rx[0] is ry[0]:
        return None, "the nx-point and the ny-point rule were not identified"
    (X, WX, _), (Y, WY, _) = rx[0], ry[0]
    xf1, xf2, yf1, yf2 = (b - a) / 2, (b + a) / 2, (d - c) / 2, (d + c) / 2
    got = r.pref * r.arr.elem
    F = sp.Function("func")
    for p, q, shape in ((_ix(0), _ix(1), (nx, ny)), (_ix(1), _ix(0), (ny, nx))):
        want = xf1 * yf1 * WX(p) * WY(q) * F(X(p) * xf1 + xf2, Y(q) * yf1 + yf2)
        if tuple(r.arr.shape) == shape and _zero(sp.expand(got - want)):
            return True, "the summed element is %s over an array of shape %s" % (got, shape)
    return False, "the summed element is %s over an array of shape %s" % (sp.simplify(got), tuple(r.arr.shape))
