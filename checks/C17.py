"""C17 -- Gauss-Legendre rules and the integrators that use them."""
import ast

import sympy as sp

from vcheck import cfront, csymx, rules, symx
from vcheck.core import PyRepo, AnalysisError, call_name, const_value, dotted_name, kwarg, norm, walk_no_nested
from vcheck.cstr import parse_tuple_format
from vcheck.ceffects import parse_tuple_binding
from vcheck.rules import cfg_of

MANIFEST = dict(
    text="Structural and formula rules (not numerical testing): (1) reaching definitions on the C control-flow graph decide that a "
         "variable initialised to the constant 0 cannot reach a divisor through a path on which its defining loop runs zero times "
         "(the n = 1 weight); (2) the two copies of the node/weight routine (standalone extension and cosmology library) agree "
         "statement by statement after lowering to terms; (3) each statement conforms to the textbook definitions: initial guess "
         "cos(pi (i-1/4)/(n+1/2)), Legendre recurrence, derivative identity, Newton step, mirrored fill (index sum n-1), weight "
         "2 xl/((1-z^2) P'^2), tolerance <= 1e-10; (4) the Python wrapper rejects npts <= 0 before the call and the parse format matches; "
         "(5) memo-key discipline of the integrator object: cached tables and their key are stored together, the recompute guard compares "
         "cached and requested key, nothing else writes them; (6) integrator formulas (affine map of the abscissae, weighted sum, "
         "prefactor, roles of the interpolation call) by symbolic normal forms; (7) symbolic shape inference of the tensor-product grid "
         "for nx != ny.",
    note="Not decided: Newton convergence for all n, exactness to degree 2n-1, agreement with an independent rule (numerical facts). "
         "Trusted: clang AST, numpy broadcasting/meshgrid semantics as modelled, sympy normaliser.",
    technique="static analysis: reaching definitions on a C CFG (zero-trip path rule), cross-copy sibling comparison, per-statement formula conformance, typestate/memo-key discipline, symbolic shape inference",
)

IU = "esutil.integrate.util."


# rules that keep their verdict however the code is laid out (decided by term equality, effect analysis or dominance over
# resolved calls); every other rule of this check is a template rule (vcheck.core.Check.obt)
SEMANTIC = ('R17.1', 'R17.2', 'R17.3', 'R17.5', 'R17.5r', 'R17.7')


def run(chk):
    repo = PyRepo()
    chk.set_templates(repo, semantic=SEMANTIC)
    chk.explanation = MANIFEST["text"]
    chk.trusted = ["clang 14 AST", "sympy normaliser", "numpy meshgrid/broadcast semantics (as modelled)"]
    chk.floor = 45
    cg = cfront.functions(cfront.load_tu("cgauleg")).get("PyCGauleg_cgauleg")
    cl = cfront.functions(cfront.load_tu("cosmolib")).get("gauleg")
    if cg is None or cl is None:
        raise AnalysisError("gauleg C anchors not found")
    chk.analysed_unit("PyCGauleg_cgauleg")
    chk.analysed_unit("cosmolib.c:gauleg")
    for name, fn, where in (("cgauleg", cg, "esutil/integrate/cgauleg_pywrap.c"), ("cosmolib.gauleg", cl, "esutil/cosmology/cosmolib.c")):
        zero_trip(chk, name, fn, where)
    siblings(chk, cg, cl)
    formulas(chk, cg, "cgauleg", "esutil/integrate/cgauleg_pywrap.c")
    wrapper(chk, repo, cg)
    memo(chk, repo)
    cached_tables_readonly(chk, repo)
    integrators(chk, repo)
    shapes(chk, repo)


# ---------------------------------------------------------------------------
def _divisor_vars(c):
    """variable names occurring in the right operand of a division inside expression c"""
    out = set()
    for x in cfront.walk(c):
        if x.get("kind") == "BinaryOperator" and x.get("opcode") == "/":
            for y in cfront.walk(x["inner"][1]):
                if y.get("kind") == "DeclRefExpr":
                    out.add(y.get("referencedDecl", {}).get("name"))
        if x.get("kind") == "CompoundAssignOperator" and x.get("opcode") == "/=":
            for y in cfront.walk(x["inner"][1]):
                if y.get("kind") == "DeclRefExpr":
                    out.add(y.get("referencedDecl", {}).get("name"))
    return out


def _zero_defs(cfg):
    """(node id, var) for definitions by the literal constant 0"""
    out = set()
    for n in cfg.nodes:
        if not isinstance(n.c, dict):
            continue
        for x in cfront.walk(n.c):
            if x.get("kind") == "VarDecl":
                init = [y for y in x.get("inner", []) if isinstance(y, dict) and y.get("kind")]
                if init and cfront.render(init[-1]) in ("0", "0.0", "0."):
                    out.add((n.id, x.get("name")))
            if x.get("kind") == "BinaryOperator" and x.get("opcode") == "=" and cfront.render(x["inner"][1]) in ("0", "0.0", "0."):
                l = cfront.strip(x["inner"][0])
                if l.get("kind") == "DeclRefExpr":
                    out.add((n.id, cfront.render(l)))
    return out


def zero_trip(chk, name, fn, where):
    cfg = cfront.CCFG(fn)
    view = cfg.view()
    IN, _ = view.reaching_defs()
    zd = _zero_defs(cfg)
    n_div = 0
    for n in cfg.nodes:
        if n.kind not in ("stmt", "return", "branch", "loop") or not isinstance(n.c, dict):
            continue
        for v in _divisor_vars(n.c):
            n_div += 1
            bad = [d for d in IN.get(n.id, {}).get(v, ()) if (d, v) in zd]
            chk.ob("R17.1", "%s::no-zero-initialised-divisor::%s@%s" % (name, v, cfront.render(n.c)[:40]), not bad, "%s:%s" % (where, n.lineno),
                   "divisor `%s` in `%s`%s" % (v, cfront.render(n.c)[:80], " is always assigned by the iteration first" if not bad else
                                              ": its initialisation to the constant 0 reaches this division on the path where the refinement loop runs zero times "
                                              "(first root already within tolerance of the start value, i.e. npts = 1), giving an infinite weight"))
    chk.ob("R17.1", name + "::divisions-examined", n_div >= 4, where, "%d divisor occurrences examined" % n_div)


def _assign_table(fn):
    out = []
    for lhs, rhs, node in csymx.stmt_rhs_table(fn, None):
        out.append((lhs, rhs))
    return out


def siblings(chk, cg, cl):
    def table(fn):
        rows = []
        for lhs, rhs in _assign_table(fn):
            if lhs in ("xarray", "warray", "x", "w", "npts", "output_tuple", "pi"):
                continue
            if rhs is None:
                continue
            rows.append((lhs, sp.simplify(rhs.subs(sp.Symbol("pi"), sp.pi))))
        return rows
    a, b = table(cg), table(cl)
    same = len(a) == len(b) and all(x[0] == y[0] and sp.simplify(x[1] - y[1]) == 0 for x, y in zip(a, b))
    chk.ob("R17.2", "gauleg-copies-agree", same, "esutil/cosmology/cosmolib.c",
           "the cosmology library's copy of the node/weight routine has the same %d assignments as the standalone extension%s"
           % (len(a), "" if same else ": first difference %s" % next(((x, y) for x, y in zip(a, b) if x[0] != y[0] or sp.simplify(x[1] - y[1]) != 0), (len(a), len(b)))))
    # loop structure agrees too (kinds of loops in order)
    def loops(fn):
        out = []
        for x in cfront.walk(cfront.body_of(fn)):
            k = x.get("kind")
            if k == "ForStmt":
                out.append((k, cfront.render(x["inner"][2]).replace("npts_long", "npts")))
            elif k == "WhileStmt":
                out.append((k, cfront.render(x["inner"][0])))
            elif k == "DoStmt":
                out.append((k, cfront.render(x["inner"][-1])))
        return out
    chk.ob("R17.2", "gauleg-copies-same-loop-structure", loops(cg) == loops(cl), "esutil/cosmology/cosmolib.c", "loop nests agree (%s vs %s)" % (loops(cg), loops(cl)))


def formulas(chk, fn, name, where):
    rows = {}
    order = []
    for lhs, rhs in _assign_table(fn):
        if rhs is None:
            continue
        rows.setdefault(lhs, []).append(rhs.subs(sp.Symbol("pi"), sp.pi))
        order.append(lhs)
    S = {n: sp.Symbol(n) for n in ("x1", "x2", "npts", "i", "j", "z", "z1", "p1", "p2", "p3", "pp", "xm", "xl", "EPS")}
    npts = S["npts"]
    # the variable holding the point count is npts (possibly via npts_long)

    def has(lhs, ref, what):
        got = rows.get(lhs, [])
        ok = any(sp.simplify(g - ref) == 0 for g in got)
        chk.ob("R17.3", "%s::%s" % (name, what), ok, where, "%s: `%s` is %s (found %s)" % (what, lhs, ref, got))
    has("xm", (S["x1"] + S["x2"]) / 2, "interval midpoint")
    has("xl", (S["x2"] - S["x1"]) / 2, "interval half width")
    has("m", (npts + 1) / 2, "number of roots computed (half, rounded up)")
    has("z", sp.cos(sp.pi * (S["i"] - sp.Rational(1, 4)) / (npts + sp.Rational(1, 2))), "initial guess of root i")
    has("p1", ((2 * S["j"] - 1) * S["z"] * S["p2"] - (S["j"] - 1) * S["p3"]) / S["j"], "Legendre recurrence j P_j = (2j-1) z P_(j-1) - (j-1) P_(j-2)")
    has("pp", npts * (S["z"] * S["p1"] - S["p2"]) / (S["z"] ** 2 - 1), "derivative identity P_n' = n (z P_n - P_(n-1))/(z^2-1)")
    has("z", S["z1"] - S["p1"] / S["pp"], "Newton step")
    has("x[(i - 1)]", S["xm"] - S["xl"] * S["z"], "lower abscissa")
    has("x[(((npts + 1) - i) - 1)]", S["xm"] + S["xl"] * S["z"], "mirrored abscissa (index sum n-1)")
    has("w[(i - 1)]", 2 * S["xl"] / ((1 - S["z"] ** 2) * S["pp"] ** 2), "weight 2 xl/((1-z^2) P_n'^2)")
    got = rows.get("w[(((npts + 1) - i) - 1)]", [])
    chk.ob("R17.3", name + "::mirrored weight", any(str(g) == "w(i - 1)" for g in got), where, "the mirrored weight equals the lower one (found %s)" % got)
    has("p1", sp.Integer(1), "recurrence start P_0 = 1")
    has("p2", sp.Integer(0), "recurrence start P_(-1) = 0")
    eps = rows.get("EPS", [])
    chk.ob("R17.3", name + "::tolerance", len(eps) == 1 and eps[0].is_number and 0 < eps[0] <= sp.Rational(1, 10 ** 10), where, "Newton tolerance EPS <= 1e-10 (found %s)" % eps)
    # the Newton iteration stops only when the step is below the tolerance itself (not a multiple of it that grows with n)
    nl = [x for x in cfront.walk(cfront.body_of(fn)) if x.get("kind") in ("DoStmt", "WhileStmt")]
    okc = False
    ctext = None
    if len(nl) == 1:
        cond = nl[0]["inner"][-1] if nl[0]["kind"] == "DoStmt" else nl[0]["inner"][0]
        c = cfront.strip(cond)
        ctext = cfront.render(c)
        if c.get("kind") == "BinaryOperator" and c.get("opcode") in (">", ">="):
            lhs, rhs = cfront.render(c["inner"][0]), cfront.strip(c["inner"][1])
            step = rows.get(lhs, [])
            is_step = any(sp.simplify(g - sp.Abs(S["z"] - S["z1"])) == 0 for g in step) if step else cfront.render(c["inner"][0]).replace(" ", "") in ("fabs((z-z1))", "fabs(z-z1)")
            okc = is_step and (cfront.render(rhs) == "EPS" or (rhs.get("kind") == "FloatingLiteral" and 0 < float(rhs.get("value")) <= 1e-10))
    chk.ob("R17.3", name + "::newton-stops-at-tolerance", okc, where, "the root refinement repeats while |z - z1| > EPS, the plain tolerance (found `%s`)" % ctext)
    # shift order inside the recurrence loop: p3 = p2; p2 = p1; p1 = ...
    inner = [x for x in cfront.walk(cfront.body_of(fn)) if x.get("kind") == "ForStmt"]
    seq = []
    if len(inner) >= 2:
        body = inner[-1]["inner"][-1]
        seq = [cfront.render(s["inner"][0]) for s in body.get("inner", []) if s.get("kind") == "BinaryOperator"]
        test = cfront.render(inner[-1]["inner"][2])
        chk.ob("R17.3", name + "::recurrence-range", test == "(j <= npts)" and cfront.render(inner[-1]["inner"][0]) == "(j = 1)", where, "the recurrence runs j = 1..npts (degree n polynomial)")
    chk.ob("R17.3", name + "::recurrence-shift-order", seq == ["p3", "p2", "p1"], where, "previous values are shifted before the new one is formed (%s)" % seq)
    outer = inner[0] if inner else None
    if outer is not None:
        chk.ob("R17.3", name + "::root-loop-range", cfront.render(outer["inner"][0]) == "(i = 1)" and cfront.render(outer["inner"][2]) == "(i <= m)", where, "roots i = 1..m are computed and mirrored")
    # z1 remembers the previous iterate before the Newton step
    zi = [i for i, l in enumerate(order) if l == "z1"]
    chk.ob("R17.3", name + "::previous-iterate-saved", any(str(r) == "z" for r in rows.get("z1", [])), where, "z1 = z is saved before the Newton step (convergence test uses |z - z1|)")


def _count_sign_test(test, name="npts"):
    """+1 when the test says `name <= 0` (name < 1, 0 >= name, not name > 0 ...), -1 when it says `name > 0`, else 0"""
    if isinstance(test, ast.UnaryOp) and isinstance(test.op, ast.Not):
        return -_count_sign_test(test.operand, name)
    if not (isinstance(test, ast.Compare) and len(test.ops) == 1):
        return 0
    a, b, op = test.left, test.comparators[0], type(test.ops[0])
    flip = {ast.Lt: ast.Gt, ast.Gt: ast.Lt, ast.LtE: ast.GtE, ast.GtE: ast.LtE}
    if isinstance(b, ast.Name) and b.id == name and op in flip:
        a, b, op = b, a, flip[op]
    if not (isinstance(a, ast.Name) and a.id == name and op in flip):
        return 0
    c = const_value(b)
    if isinstance(c, bool) or not isinstance(c, (int, float)):
        return 0
    if (op is ast.LtE and c == 0) or (op is ast.Lt and c == 1):
        return 1
    if (op is ast.Gt and c == 0) or (op is ast.GtE and c == 1):
        return -1
    return 0


def wrapper(chk, repo, cg):
    fmt, names = parse_tuple_binding(cg)
    chk.ob("R17.4", "cgauleg::parse-format", parse_tuple_format(fmt or "") == ["d", "d", "l"] and names == ["x1", "x2", "npts_long"], "esutil/integrate/cgauleg_pywrap.c", "PyArg_ParseTuple %r binds (x1, x2, npts) as double, double, long (%s)" % (fmt, names))
    fi = repo.func(IU + "gauleg")
    chk.analysed_unit(fi.qualname)
    cfg = cfg_of(fi)
    view = cfg.view()
    calls = [(n, c) for n in cfg.nodes for c in rules.stmts_calls(n) if dotted_name(c.func) == "_cgauleg.cgauleg"]
    ok = len(calls) == 1 and not calls[0][1].keywords and [rules.xnorm(a, fi.node) for a in calls[0][1].args] == ["x1", "x2", "npts"]
    chk.ob("R17.4", "gauleg::call-roles", ok if calls else None, fi.where(), "the extension is called with (x1, x2, npts)")
    # some raise is controlled by a test that says npts <= 0, and that test is decided before the extension is called
    okg = False
    for r in rules.raise_nodes(cfg):
        for b, lab in view.controlling_branches(r):
            if b.kind == "branch" and _count_sign_test(rules.expand(b.ast.test, fi.node)) == (1 if lab == "T" else -1):
                if calls and all(view.dominates(b, n) for n, _ in calls):
                    okg = True
    chk.ob("R17.4", "gauleg::nonpositive-count-rejected", okg if calls else None, fi.where(), "npts <= 0 raises and that test dominates the extension call")
    # what is returned is what the extension produced: the call itself, or its two components in the same order
    okr = None
    rets = rules.return_nodes(cfg)
    if calls and rets:
        okr = True
        for r in rets:
            v = r.ast.value
            if v is None:
                okr = False
                continue
            v = rules.expand(v, fi.node)
            if isinstance(v, ast.Call) and dotted_name(v.func) == "_cgauleg.cgauleg":
                continue
            comps = [_component(e, cfg, fi.node) for e in v.elts] if isinstance(v, ast.Tuple) and len(v.elts) == 2 else []
            if not (len(comps) == 2 and all(c is not None and dotted_name(c.func) == "_cgauleg.cgauleg" for c, _ in comps) and [k for _, k in comps] == [0, 1]):
                okr = False
    chk.ob("R17.4", "gauleg::returns-x-w", okr, fi.where(), "the (abscissae, weights) pair is returned as produced")


def cached_tables_readonly(chk, repo):
    """R17.5r: the node/weight tables kept on the object are never modified by the integrators (a later call would silently use the
    rescaled grid of an earlier one); decided by the alias/effect analysis with each table as a caller-owned root"""
    from vcheck import effects
    from checks.C15 import analyse_attr_root
    eng = effects.Effects(repo, {})
    for cls, tables, methods in (("QGauss", ("self.xxi", "self.wii"), ("integrate_func", "integrate_data", "integrate")),
                                 ("QGauss2", ("self.xgrid", "self.ygrid", "self.wgrid"), ("integrate_func",))):
        for m in methods:
            fi = repo.func(IU + "%s.%s" % (cls, m))
            for attr in tables:
                s = analyse_attr_root(eng, fi, attr)
                sites = [st for st in s.mut.get(attr, []) if st.kind in ("data", "meta")]
                chk.ob("R17.5r", "%s.%s::%s-not-modified" % (cls, m, attr), not sites, sites[0].where() if sites else fi.where(),
                       "the cached table %s is only read%s" % (attr, "" if not sites else ": " + sites[0].describe()))


# ---------------------------------------------------------------------------
# helpers for the layout-independent Python rules
# ---------------------------------------------------------------------------
def _bind_call(callee, call, drop_self=True):
    """{parameter name: argument expression} of `call` against the parameter list of FuncInfo `callee`
    (None when the call uses * / ** arguments or does not fit the signature)"""
    params = [p for p in callee.params if not p.startswith("*")]
    if drop_self and callee.cls and params and not any(isinstance(d, ast.Name) and d.id == "staticmethod" for d in callee.node.decorator_list):
        params = params[1:]
    if any(isinstance(a, ast.Starred) for a in call.args) or any(k.arg is None for k in call.keywords) or len(call.args) > len(params):
        return None
    out = dict(zip(params, call.args))
    for k in call.keywords:
        if k.arg not in params or k.arg in out:
            return None
        out[k.arg] = k.value
    return out


def _is_none(e):
    return e is None or (isinstance(e, ast.Constant) and e.value is None)


def _formula(test, atoms):
    """propositional form of a branch test: and/or/not are interpreted, `x is None`, `a == b` (either order, != is its negation)
    and `a < b` (>=, >, <= by exchange / negation) become atoms; anything else is an atom of its own text"""
    def atom(key):
        if key not in atoms:
            atoms[key] = sp.Symbol("c%d" % len(atoms))
        return atoms[key]
    if isinstance(test, ast.BoolOp):
        vals = [_formula(v, atoms) for v in test.values]
        return sp.And(*vals) if isinstance(test.op, ast.And) else sp.Or(*vals)
    if isinstance(test, ast.UnaryOp) and isinstance(test.op, ast.Not):
        return sp.Not(_formula(test.operand, atoms))
    if isinstance(test, ast.Compare) and len(test.ops) == 1:
        a, b, op = test.left, test.comparators[0], test.ops[0]
        if isinstance(op, (ast.Is, ast.IsNot, ast.Eq, ast.NotEq)) and (_is_none(a) or _is_none(b)):
            f = atom(("isnone", norm(b if _is_none(a) else a)))
            return f if isinstance(op, (ast.Is, ast.Eq)) else sp.Not(f)
        if isinstance(op, (ast.Eq, ast.NotEq)):
            f = atom(("eq",) + tuple(sorted((norm(a), norm(b)))))
            return f if isinstance(op, ast.Eq) else sp.Not(f)
        if isinstance(op, ast.Lt):
            return atom(("lt", norm(a), norm(b)))
        if isinstance(op, ast.GtE):
            return sp.Not(atom(("lt", norm(a), norm(b))))
        if isinstance(op, ast.Gt):
            return atom(("lt", norm(b), norm(a)))
        if isinstance(op, ast.LtE):
            return sp.Not(atom(("lt", norm(b), norm(a))))
    return atom(("expr", norm(test)))


def _path_cond(view, n, fn, atoms):
    """the condition under which CFG node n runs, as a propositional formula over the atoms of the controlling tests
    (named temporaries in the tests are substituted first)"""
    f = sp.true
    for b, lab in view.controlling_branches(n):
        if b.kind == "branch" or (b.kind == "loop" and isinstance(b.ast, ast.While)):
            t = _formula(rules.expand(b.ast.test, fn), atoms)
            f = sp.And(f, t if lab == "T" else sp.Not(t))
    return f


def _equiv(a, b):
    from sympy.logic.inference import satisfiable
    return not satisfiable(sp.Xor(a, b))


def _stores(cfg):
    """attribute / name stores made by plain assignments: target text -> [(node, value)] where value is the assigned
    expression or ("item", <expr>, k) for the k-th component of an unpacked value"""
    out = {}

    def put(t, v, n):
        if isinstance(t, (ast.Tuple, ast.List)):
            for k, e in enumerate(t.elts):
                if isinstance(v, (ast.Tuple, ast.List)) and len(v.elts) == len(t.elts):
                    put(e, v.elts[k], n)
                else:
                    put(e, ("item", v, k), n)
        else:
            out.setdefault(norm(t), []).append((n, v))
    for n in cfg.nodes:
        a = n.ast
        if n.kind == "stmt" and isinstance(a, ast.Assign):
            for t in a.targets:
                put(t, a.value, n)
        elif n.kind == "stmt" and isinstance(a, ast.AnnAssign) and a.value is not None:
            put(a.target, a.value, n)
    return out


def _component(value, cfg, fn):
    """(producing call, component index or None) of a stored value: `a, b = f(..)` gives (f(..), 0) for a; a name bound once
    by such an unpacking is followed; a name bound once to a call gives (call, None)"""
    for _ in range(4):
        if isinstance(value, tuple) and value[0] == "item":
            inner = value[1]
            if isinstance(inner, ast.Name):
                inner = rules.expand(inner, fn)
            return (inner, value[2]) if isinstance(inner, ast.Call) else (None, None)
        if isinstance(value, ast.Call):
            return value, None
        if isinstance(value, ast.Name):
            defs = _stores(cfg).get(value.id, [])
            if len(defs) != 1:
                return None, None
            value = defs[0][1]
            continue
        if isinstance(value, ast.Subscript) and isinstance(const_value(value.slice), int):
            c, k = _component(value.value, cfg, fn)
            return (c, const_value(value.slice)) if c is not None and k is None else (None, None)
        return None, None
    return None, None


def _resolves_to(repo, fi, call, qualname):
    d = dotted_name(call.func)
    return d is not None and repo.resolve_name(fi.module, d) == qualname


def _self_callee(repo, fi, call):
    """FuncInfo of `self.m(...)` inside a method of the same class, else None"""
    d = dotted_name(call.func)
    if d and d.startswith("self.") and d.count(".") == 1 and fi.cls:
        q = "%s.%s.%s" % (fi.module.name, fi.cls, d[5:])
        if repo.has(q):
            return repo.func(q)
    return None


def _param_unchanged(fi, name):
    """name is a parameter of fi that is never re-bound in its body"""
    if name not in [p.lstrip("*") for p in fi.params]:
        return False
    cfg = cfg_of(fi)
    return not any(name in cfg.defs_uses(n)[0] for n in cfg.nodes if n.kind != "entry")


TABLES = ("self.xxi", "self.wii")


def _setup_events(repo, fi, depth=0):
    """[(cfg node, expression passed as the requested count)] for the nodes of fi that run QGauss.setup: a direct
    self.setup(..) call, or a call of a method of the object that itself runs setup on every path to its normal return
    with one of its own (unchanged) parameters as the count"""
    out = []
    cfg = cfg_of(fi)
    setup = repo.func(IU + "QGauss.setup")
    for n in cfg.nodes:
        for c in rules.stmts_calls(n):
            tgt = _self_callee(repo, fi, c)
            if tgt is None:
                continue
            b = _bind_call(tgt, c)
            if tgt is setup:
                out.append((n, None if b is None else b.get("npts", ast.Constant(value=None))))
            elif depth < 3 and tgt.name not in ("integrate_func", "integrate_data", "integrate"):
                inner = _setup_events(repo, tgt, depth + 1)
                if not inner:
                    continue
                v = cfg_of(tgt).view()
                for m, e in inner:
                    arg = None
                    if b is not None and isinstance(e, ast.Name) and _param_unchanged(tgt, e.id) and v.dominates(m, cfg_of(tgt).exit):
                        arg = b.get(e.id, tgt.defaults.get(e.id))
                    out.append((n, arg))
    return out


def _reads_tables(repo, fi, seen=None):
    """does the method (or a method of the object it calls) read the cached abscissae / weights"""
    seen = seen if seen is not None else set()
    if fi.qualname in seen:
        return False
    seen.add(fi.qualname)
    for x in walk_no_nested(fi.node):
        if isinstance(x, ast.Attribute) and isinstance(x.ctx, ast.Load) and norm(x) in TABLES:
            return True
        if isinstance(x, ast.Call):
            tgt = _self_callee(repo, fi, x)
            if tgt is not None and tgt.name != "setup" and _reads_tables(repo, tgt, seen):
                return True
    return False


def _table_use_nodes(repo, fi):
    cfg = cfg_of(fi)
    out = []
    for n in cfg.nodes:
        if n.ast is None or n.kind not in ("stmt", "return", "branch", "loop", "raise", "with"):
            continue
        roots = [n.ast.test] if n.kind == "branch" else ([n.ast.test] if n.kind == "loop" and isinstance(n.ast, ast.While) else
                                                         [n.ast.iter] if n.kind == "loop" else [i.context_expr for i in n.ast.items] if n.kind == "with" else [n.ast])
        hit = False
        for r in roots:
            for x in walk_no_nested(r):
                if isinstance(x, ast.Attribute) and isinstance(x.ctx, ast.Load) and norm(x) in TABLES:
                    hit = True
                if isinstance(x, ast.Call):
                    tgt = _self_callee(repo, fi, x)
                    if tgt is not None and tgt.name != "setup" and _reads_tables(repo, tgt):
                        hit = True
        if hit:
            out.append(n)
    return out


def memo(chk, repo):
    fi = repo.func(IU + "QGauss.setup")
    chk.analysed_unit(fi.qualname)
    cfg = cfg_of(fi)
    view = cfg.view()
    fn = fi.node
    atoms = {}
    st = _stores(cfg)
    key = st.get("self.npts", [])
    tabs = [st.get("self.xxi", []), st.get("self.wii", [])]
    found = [len(key) == 1] + [len(t) == 1 for t in tabs]
    # positively identified: some of the three are stored here exactly once and another one is not stored at all;
    # none found / stored several times: the construct is laid out in a way this rule does not recognise
    ok = True if all(found) else (False if any(found) and any(len(x) == 0 for x in [key] + tabs) else None)
    chk.ob("R17.5", "QGauss.setup::key-and-tables-stored", ok, fi.where(), "setup stores the key (self.npts) and both tables")
    if ok:
        key = key[0]
        tabs = [t[0] for t in tabs]
        pc_key = _path_cond(view, key[0], fn, atoms)
        pcs = [_path_cond(view, t[0], fn, atoms) for t in tabs]
        same = all(_equiv(pc_key, p) for p in pcs)
        chk.ob("R17.5", "QGauss.setup::stored-together", same, fi.where(), "key and tables are written under the same conditions: %s" % (rules.controlling_tests(view, key[0]),))
        # the recompute guard: the tables are (re)computed exactly when a count is requested and it differs from the cached key
        a_none = _formula(ast.parse("npts is None", mode="eval").body, atoms)
        a_eq = _formula(ast.parse("npts == self.npts", mode="eval").body, atoms)
        known = {a_none, a_eq}
        if pcs[0].free_symbols <= known and _param_unchanged(fi, "npts"):
            okg = _equiv(pcs[0], sp.And(sp.Not(a_none), sp.Not(a_eq)))
        else:
            okg = None
        chk.ob("R17.5", "QGauss.setup::recompute-guard-compares-keys", okg, fi.where(),
               "tables are recomputed exactly when a count is requested that differs from the cached key (condition of the store: %s)" % (rules.controlling_tests(view, tabs[0][0]),))
        # the tables are the two results of one gauleg(-1, 1, <count>) call, abscissae first
        c0, k0 = _component(tabs[0][1], cfg, fn)
        c1, k1 = _component(tabs[1][1], cfg, fn)
        okt = None
        arg = None
        if c0 is not None and c1 is not None and _resolves_to(repo, fi, c0, IU + "gauleg") and _resolves_to(repo, fi, c1, IU + "gauleg"):
            b = _bind_call(repo.func(IU + "gauleg"), c0)
            if b is not None and all(p in b for p in ("x1", "x2", "npts")):
                arg = norm(rules.expand(b["npts"], fn))
                okt = (c0 is c1 or norm(c0) == norm(c1)) and (k0, k1) == (0, 1) and const_value(b["x1"]) == -1.0 and const_value(b["x2"]) == 1.0 \
                    and arg in ("npts", "self.npts") and rules.xnorm(key[1], fn) == "npts" if not isinstance(key[1], tuple) else False
        chk.ob("R17.5", "QGauss.setup::tables-from-key", okt, fi.where(), "the tables are the rule on [-1,1] for the stored count (%s)" % (norm(c0) if c0 is not None else None,))
        if okt is not None:
            chk.ob("R17.5", "QGauss.setup::key-before-tables-or-same-value", arg == "npts" or (arg == "self.npts" and view.dominates(key[0], tabs[0][0])), fi.where(), "the count used for the tables is the requested one")
    # no other writer of the cached state
    writers = {}
    for q, f in repo.funcs.items():
        if q.startswith(IU + "QGauss."):
            for a in walk_no_nested(f.node):
                if isinstance(a, ast.Attribute) and isinstance(a.ctx, (ast.Store, ast.Del)) and norm(a) in ("self.npts", "self.xxi", "self.wii"):
                    writers.setdefault(norm(a), set()).add(f.name)
                if isinstance(a, ast.Call) and call_name(a) in ("setattr", "delattr") and a.args and norm(a.args[0]) == "self":
                    writers.setdefault("setattr(self, ...)", set()).add(f.name)
    ok = all(w <= {"__init__", "setup"} for w in writers.values()) and set(writers) == {"self.npts", "self.xxi", "self.wii"}
    chk.ob("R17.5", "QGauss::who-may-write-the-cache", ok, fi.where(), "only the constructor (to None) and setup write the cached key/tables (%s)" % {k: sorted(v) for k, v in writers.items()})
    init = repo.func(IU + "QGauss.__init__")
    iv = {}
    for a in walk_no_nested(init.node):
        if isinstance(a, ast.Assign):
            for t in a.targets:
                iv[norm(t)] = rules.xnorm(a.value, init.node)
    chk.ob("R17.5", "QGauss.__init__::starts-empty", iv.get("self.npts") == "None" and iv.get("self.xxi") == "None", init.where(), "a new object has no cached rule")
    for m in ("integrate_func", "integrate_data"):
        f = repo.func(IU + "QGauss." + m)
        vm = cfg_of(f).view()
        ev = _setup_events(repo, f)
        uses = _table_use_nodes(repo, f)
        if not ev or not uses:
            ok = None if not uses else False      # the tables are used and nothing here runs setup: a positive finding
        elif any(e is None for _, e in ev):
            ok = None                              # a setup call whose count argument could not be traced
        else:
            ok = len(ev) == 1 and norm(ev[0][1]) == "npts" and _param_unchanged(f, "npts") and all(vm.dominates(ev[0][0], u) for u in uses)
        chk.ob("R17.5", "QGauss.%s::setup-dominates-table-use" % m, ok, f.where(), "setup(npts=npts) runs (directly or through a method of the object) before the tables are used in every call")
    # integrate: function integrands go to integrate_func, anything else to integrate_data, always with (x, y, npts)
    ig = repo.func(IU + "QGauss.integrate")
    cfgi = cfg_of(ig)
    vi = cfgi.view()
    at = {}
    seen = {}
    okf = True
    isf = None
    for n in rules.return_nodes(cfgi):
        v = rules.expand(n.ast.value, ig.node) if n.ast.value is not None else None
        tgt = _self_callee(repo, ig, v) if isinstance(v, ast.Call) else None
        if tgt is None or tgt.name not in ("integrate_func", "integrate_data"):
            okf = None
            break
        b = _bind_call(tgt, v)
        if b is None:
            okf = None
            break
        second = "func" if tgt.name == "integrate_func" else "yvals"
        forwards = [norm(b[p]) if p in b else None for p in ("xvals", second, "npts")] == ["xvals", "yvals_or_func", "npts"]
        pc = _path_cond(vi, n, ig.node, at)
        seen.setdefault(tgt.name, []).append((forwards, pc))
    if okf:
        tests = [k for k in at if k[0] == "expr" and k[1].startswith("isinstance(yvals_or_func,")]
        if len(at) != 1 or len(tests) != 1 or set(seen) != {"integrate_func", "integrate_data"}:
            okf = None if set(seen) == {"integrate_func", "integrate_data"} or len(at) != 1 else False
        else:
            isf = at[tests[0]]
            okf = all(fw for v in seen.values() for fw, _ in v) and all(_param_unchanged(ig, p) for p in ("xvals", "yvals_or_func", "npts")) \
                and _equiv(sp.Or(*[pc for _, pc in seen["integrate_func"]]), isf) and _equiv(sp.Or(*[pc for _, pc in seen["integrate_data"]]), sp.Not(isf))
    chk.ob("R17.5", "QGauss.integrate::forwards-npts", okf, ig.where(), "integrate forwards (x, y-or-function, npts) to the matching integrator (%s)" % {k: [fw for fw, _ in v] for k, v in seen.items()})
    # qgauss: a fresh integrator for npts points, asked once
    qg = repo.func(IU + "qgauss")
    oks = None
    rets = rules.return_nodes(cfg_of(qg))
    shown = None
    if len(rets) == 1 and rets[0].ast.value is not None:
        v = rules.expand(rets[0].ast.value, qg.node)
        shown = norm(v)
        if isinstance(v, ast.Call) and isinstance(v.func, ast.Attribute) and isinstance(v.func.value, ast.Call) \
                and repo.resolve_name(qg.module, dotted_name(v.func.value.func) or "?") == IU + "QGauss":
            ctor = _bind_call(repo.func(IU + "QGauss.__init__"), v.func.value)
            meth = repo.funcs.get(IU + "QGauss." + v.func.attr)
            b = _bind_call(meth, v) if meth is not None else None
            if ctor is not None and b is not None:
                second = {"integrate": "yvals_or_func", "integrate_func": "func", "integrate_data": "yvals"}.get(v.func.attr)
                oks = v.func.attr == "integrate" and norm(ctor.get("npts", ast.Constant(value=None))) == "npts" and norm(b.get("xvals", ast.Constant(value=None))) == "x" \
                    and norm(b.get(second, ast.Constant(value=None))) == "y" and ("npts" not in b or norm(b["npts"]) in ("npts", "None")) \
                    and all(_param_unchanged(qg, p) for p in ("x", "y", "npts"))
    chk.ob("R17.5", "qgauss::one-shot", oks, qg.where(), "qgauss(x, y, npts) is QGauss(npts).integrate(x, y) (found %s)" % shown)


def integrators(chk, repo):
    SUM = sp.Function("SUM")
    xxi, wii, a, b, func = symx.symbols("xxi", "wii", "a", "b", "func")
    fi = repo.func(IU + "QGauss.integrate_func")
    chk.analysed_unit(fi.qualname)
    se = symx.SymEval(repo, opaque_tests=False)
    se.assume = {"text:self.npts is None": False, "text:len(xvals) != 2": False}
    r = se.run(fi, {"self": symx.Opaque("self"), "xvals": [a, b], "func": func, "self.xxi": xxi, "self.wii": wii, "self.npts": sp.Symbol("n")}, {})
    f1, f2 = (b - a) / 2, (b + a) / 2
    ref = f1 * SUM(sp.Function("func")(xxi * f1 + f2) * wii)
    eq = isinstance(r, sp.Basic) and symx.equal(r, ref)[0]
    chk.ob("R17.6", "integrate_func::formula", bool(eq), fi.where(), "result is (b-a)/2 * sum(w_i f((b-a)/2 x_i + (a+b)/2)) (found %s)" % r)
    fi = repo.func(IU + "QGauss.integrate_data")
    chk.analysed_unit(fi.qualname)
    xs, ys = symx.symbols("xs", "ys")
    se = symx.SymEval(repo, opaque={"esutil.stat.util.interplin"}, opaque_tests=False)
    se.assume = {"text:self.npts is None": False}
    r = se.run(fi, {"self": symx.Opaque("self"), "xvals": xs, "yvals": ys, "self.xxi": xxi, "self.wii": wii, "self.npts": sp.Symbol("n")}, {})
    lo, hi = sp.Function("MIN")(xs), sp.Function("MAX")(xs)
    f1, f2 = (hi - lo) / 2, (hi + lo) / 2
    ref = f1 * SUM(sp.Function("interplin")(ys, xs, xxi * f1 + f2) * wii)
    eq = isinstance(r, sp.Basic) and symx.equal(r, ref)[0]
    chk.ob("R17.6", "integrate_data::formula", bool(eq), fi.where(), "result is the weighted sum of the linearly interpolated data interplin(values=y, abscissae=x, at=mapped nodes) over [min x, max x] (found %s)" % r)
    fi = repo.func(IU + "QGauss2.integrate_func")
    chk.analysed_unit(fi.qualname)
    xg, yg, wg, c, d = symx.symbols("xg", "yg", "wg", "c", "d")
    se = symx.SymEval(repo, opaque_tests=False)
    se.assume = {"text:len(xrng) != 2 or len(yrng) != 2": False}
    r = se.run(fi, {"self": symx.Opaque("self"), "xrng": [a, b], "yrng": [c, d], "func": func, "self.xgrid": xg, "self.ygrid": yg, "self.wgrid": wg}, {})
    xf1, xf2, yf1, yf2 = (b - a) / 2, (b + a) / 2, (d - c) / 2, (d + c) / 2
    ref = xf1 * yf1 * SUM(sp.Function("func")(xg * xf1 + xf2, yg * yf1 + yf2) * wg)
    eq = isinstance(r, sp.Basic) and symx.equal(r, ref)[0]
    chk.ob("R17.6", "QGauss2.integrate_func::formula", bool(eq), fi.where(), "tensor-product sum with both affine maps and the product prefactor (found %s)" % r)


class _Arr:
    """an array value of the shape/element interpreter: symbolic shape and the element at index (i0, i1, ..) as a term"""

    def __init__(self, shape, elem):
        self.shape = tuple(shape)
        self.elem = sp.sympify(elem)

    def __repr__(self):
        return "Arr(%s, %s)" % (self.shape, self.elem)


def _ix(k):
    return sp.Symbol("i%d" % k, integer=True)


def shapes(chk, repo):
    """symbolic shape and element inference for QGauss2._setup (E12): every array is followed as (shape, element at [i0, i1]);
    the rule is stated on the results (grid and weight shapes, and which weight sits at which grid point), not on how they are built"""
    fi = repo.func(IU + "QGauss2._setup")
    chk.analysed_unit(fi.qualname)
    nx, ny = sp.symbols("nx ny", positive=True, integer=True)
    env = {"nx": nx, "ny": ny, "self.nx": nx, "self.ny": ny}
    issues = []
    rules_used = []          # (x function, w function, count) per gauleg call

    def shift(a, n):
        """re-index a for use as the trailing axes of an n-dimensional result; axes of length 1 do not depend on their index"""
        d = n - len(a.shape)
        sub = {_ix(k): (_ix(k + d) if a.shape[k] != 1 else 0) for k in range(len(a.shape))}
        return (1,) * d + a.shape, a.elem.xreplace(sub)

    def bc(a, b, where):
        n = max(len(a.shape), len(b.shape))
        (sa, ea), (sb, eb) = shift(a, n), shift(b, n)
        out = []
        for x, y in zip(sa, sb):
            if x == y:
                out.append(x)
            elif x == 1:
                out.append(y)
            elif y == 1:
                out.append(x)
            else:
                issues.append((where, "cannot broadcast axis lengths %s and %s (shapes %s and %s) unless nx == ny" % (x, y, sa, sb)))
                out.append(x)
        return tuple(out), ea, eb

    def is_np(e, *names):
        d = dotted_name(e.func)
        if d is None:
            return False
        full = repo.resolve_name(fi.module, d)
        last = full.rsplit(".", 1)[-1]
        local_np = isinstance(e.func, ast.Name) and e.func.id in np_local
        return last in names and (full.startswith("numpy") or local_np)

    np_local = set()
    for x in walk_no_nested(fi.node):
        if isinstance(x, ast.ImportFrom) and x.module == "numpy":
            np_local |= {al.asname or al.name for al in x.names}

    def is_newaxis(s):
        return (isinstance(s, ast.Constant) and s.value is None) or (dotted_name(s) or "").rsplit(".", 1)[-1] == "newaxis"

    def dim(e):
        v = ev(e)
        return v if isinstance(v, sp.Basic) else None

    def ev(e):
        """_Arr, a scalar term, a tuple of values, or None (not understood)"""
        if isinstance(e, ast.Constant) and isinstance(e.value, (int, float)) and not isinstance(e.value, bool):
            return sp.nsimplify(e.value, rational=True)
        if isinstance(e, (ast.Name, ast.Attribute)):
            return env.get(norm(e)) if not (isinstance(e, ast.Attribute) and e.attr == "T") else tr(ev(e.value))
        if isinstance(e, ast.Tuple):
            vs = tuple(ev(x) for x in e.elts)
            return None if any(v is None for v in vs) else vs
        if isinstance(e, ast.UnaryOp) and isinstance(e.op, (ast.USub, ast.UAdd)):
            v = ev(e.operand)
            if isinstance(v, _Arr):
                return _Arr(v.shape, -v.elem if isinstance(e.op, ast.USub) else v.elem)
            return None if v is None or isinstance(v, tuple) else (-v if isinstance(e.op, ast.USub) else v)
        if isinstance(e, ast.BinOp) and isinstance(e.op, (ast.Add, ast.Sub, ast.Mult, ast.Div)):
            return arith(type(e.op), ev(e.left), ev(e.right), e)
        if isinstance(e, ast.Subscript):
            base = ev(e.value)
            if isinstance(base, tuple) and isinstance(const_value(e.slice), int) and -len(base) <= const_value(e.slice) < len(base):
                return base[const_value(e.slice)]
            if not isinstance(base, _Arr):
                return None
            parts = list(e.slice.elts) if isinstance(e.slice, ast.Tuple) else [e.slice]
            shape, sub, k = [], {}, 0
            for s in parts:
                if is_newaxis(s):
                    shape.append(1)
                elif isinstance(s, ast.Slice) and s.lower is None and s.upper is None and s.step is None and k < len(base.shape):
                    sub[_ix(k)] = _ix(len(shape))
                    shape.append(base.shape[k])
                    k += 1
                else:
                    return None
            while k < len(base.shape):
                sub[_ix(k)] = _ix(len(shape))
                shape.append(base.shape[k])
                k += 1
            return _Arr(shape, base.elem.xreplace(sub))
        if isinstance(e, ast.Call):
            if call_name(e) == "gauleg" and repo.resolve_name(fi.module, dotted_name(e.func) or "?") == IU + "gauleg":
                b = _bind_call(repo.func(IU + "gauleg"), e)
                n = dim(b["npts"]) if b and "npts" in b else None
                if n is None:
                    return None
                k = len(rules_used)
                fx, fw = sp.Function("X%d" % k), sp.Function("W%d" % k)
                rules_used.append((fx, fw, n))
                return (_Arr((n,), fx(_ix(0))), _Arr((n,), fw(_ix(0))))
            if is_np(e, "meshgrid") and len(e.args) == 2:
                a, b = ev(e.args[0]), ev(e.args[1])
                extra = [k.arg for k in e.keywords if k.arg != "indexing"]
                if not (isinstance(a, _Arr) and isinstance(b, _Arr) and len(a.shape) == 1 and len(b.shape) == 1) or extra:
                    return None
                ind = kwarg(e, "indexing")
                ind = "xy" if ind is None else const_value(ind)
                if ind == "xy":
                    return (_Arr((b.shape[0], a.shape[0]), a.elem.xreplace({_ix(0): _ix(1)})), _Arr((b.shape[0], a.shape[0]), b.elem))
                if ind == "ij":
                    return (_Arr((a.shape[0], b.shape[0]), a.elem), _Arr((a.shape[0], b.shape[0]), b.elem.xreplace({_ix(0): _ix(1)})))
                return None
            if is_np(e, "ones", "zeros") and e.args:
                s = ev(e.args[0])
                s = s if isinstance(s, tuple) else (s,)
                if all(isinstance(x, sp.Basic) for x in s):
                    return _Arr(s, 1 if call_name(e) == "ones" else 0)
                return None
            if is_np(e, "ones_like", "zeros_like") and e.args:
                a = ev(e.args[0])
                return _Arr(a.shape, 1 if call_name(e) == "ones_like" else 0) if isinstance(a, _Arr) else None
            if is_np(e, "outer") and len(e.args) == 2 and not e.keywords:
                a, b = ev(e.args[0]), ev(e.args[1])
                if isinstance(a, _Arr) and isinstance(b, _Arr) and len(a.shape) == 1 and len(b.shape) == 1:
                    return _Arr((a.shape[0], b.shape[0]), a.elem * b.elem.xreplace({_ix(0): _ix(1)}))
                return None
            if is_np(e, "multiply", "add", "subtract", "divide") and len(e.args) == 2 and not e.keywords:
                op = {"multiply": ast.Mult, "add": ast.Add, "subtract": ast.Sub, "divide": ast.Div}[call_name(e)]
                return arith(op, ev(e.args[0]), ev(e.args[1]), e)
            if is_np(e, "transpose") and len(e.args) == 1 and not e.keywords:
                return tr(ev(e.args[0]))
            if is_np(e, "array", "asarray", "copy", "ascontiguousarray") and e.args:
                return ev(e.args[0])
            if isinstance(e.func, ast.Attribute) and e.func.attr in ("copy", "transpose") and not e.args and not e.keywords:
                v = ev(e.func.value)
                return tr(v) if e.func.attr == "transpose" else v
            if isinstance(e.func, ast.Attribute) and e.func.attr == "reshape":
                a = ev(e.func.value)
                args = list(e.args[0].elts) if len(e.args) == 1 and isinstance(e.args[0], ast.Tuple) else list(e.args)
                if isinstance(a, _Arr) and len(a.shape) == 1 and len(args) == 2:
                    c = [const_value(x) for x in args]
                    if c == [1, -1]:
                        return _Arr((1, a.shape[0]), a.elem.xreplace({_ix(0): _ix(1)}))
                    if c == [-1, 1]:
                        return _Arr((a.shape[0], 1), a.elem)
                return None
        return None

    def tr(v):
        if isinstance(v, _Arr) and len(v.shape) == 2:
            return _Arr((v.shape[1], v.shape[0]), v.elem.xreplace({_ix(0): _ix(1), _ix(1): _ix(0)}))
        return v if isinstance(v, _Arr) and len(v.shape) < 2 else None

    def arith(op, a, b, node):
        if a is None or b is None or isinstance(a, tuple) or isinstance(b, tuple):
            return None
        f = {ast.Add: lambda x, y: x + y, ast.Sub: lambda x, y: x - y, ast.Mult: lambda x, y: x * y, ast.Div: lambda x, y: x / y}[op]
        if not isinstance(a, _Arr) and not isinstance(b, _Arr):
            return f(a, b)
        a = a if isinstance(a, _Arr) else _Arr((), a)
        b = b if isinstance(b, _Arr) else _Arr((), b)
        shape, ea, eb = bc(a, b, fi.where(node))
        return _Arr(shape, f(ea, eb))

    def store(t, v):
        if isinstance(t, (ast.Tuple, ast.List)):
            for k, el in enumerate(t.elts):
                store(el, v[k] if isinstance(v, tuple) and len(v) == len(t.elts) else None)
        elif isinstance(t, (ast.Name, ast.Attribute)):
            if v is None:
                env.pop(norm(t), None)
            else:
                env[norm(t)] = v

    straight = True
    for st in fi.node.body:
        if isinstance(st, ast.Assign):
            v = ev(st.value)
            for t in st.targets:
                store(t, v)
        elif isinstance(st, ast.AugAssign) and isinstance(st.op, (ast.Add, ast.Sub, ast.Mult, ast.Div)):
            store(st.target, arith(type(st.op), ev(st.target), ev(st.value), st))
        elif isinstance(st, (ast.Import, ast.ImportFrom, ast.Pass)) or (isinstance(st, ast.Expr) and isinstance(st.value, ast.Constant)):
            pass
        else:
            straight = False         # control flow or calls with effects the interpreter does not follow
    chk.notes["QGauss2_shapes"] = {k: str(v) for k, v in env.items()}
    xg, yg, wg = env.get("self.xgrid"), env.get("self.ygrid"), env.get("self.wgrid")
    known = all(isinstance(v, _Arr) for v in (xg, yg, wg)) and straight
    chk.ob("R17.7", "QGauss2._setup::shapes-inferred", True if known else None, fi.where(), "shapes inferred: grids %s / %s, weights %s"
           % tuple(getattr(v, "shape", None) for v in (xg, yg, wg)))
    for where, txt in issues:
        chk.ob("R17.7", "QGauss2._setup::weight-grid-broadcast", False, where, "building the weight grid: %s; QGauss2(nx, ny) with nx != ny fails" % txt)
    if not issues and known:
        chk.ob("R17.7", "QGauss2._setup::weight-grid-broadcast", True, fi.where(), "weight grids broadcast for nx != ny")
    if known:
        chk.ob("R17.7", "QGauss2._setup::weights-match-grid", xg.shape == yg.shape == wg.shape and len(wg.shape) == 2, fi.where(),
               "the weight grid has the shape of the abscissa grids (%s vs %s): zvals * wgrid is an element-wise product" % (wg.shape, xg.shape))
        # the weight at a grid point is wx[a] * wy[b] where that point is (x[a], y[b]); x/wx come from one gauleg call for nx
        # points, y/wy from one for ny points
        okt = None
        ex, ey = xg.elem, yg.elem
        if isinstance(ex, sp.core.function.AppliedUndef) and isinstance(ey, sp.core.function.AppliedUndef) and len(ex.args) == 1 and len(ey.args) == 1:
            rx = [r for r in rules_used if r[0] == ex.func]
            ry = [r for r in rules_used if r[0] == ey.func]
            if rx and ry:
                want = rx[0][1](ex.args[0]) * ry[0][1](ey.args[0])
                okt = rx[0] is not ry[0] and rx[0][2] == nx and ry[0][2] == ny and sp.simplify(wg.elem - want) == 0 \
                    and {ex.args[0], ey.args[0]} == {_ix(0), _ix(1)}
        chk.ob("R17.7", "QGauss2._setup::tensor-product", okt, fi.where(), "weights are the tensor product: the weight at the grid point (x[a], y[b]) is wx[a] * wy[b] "
               "(grid points %s, %s; weight %s)" % (ex, ey, wg.elem))
