"""C07 -- structured-array field operations preserve data, types and documented order."""
import ast
import collections
import itertools

from vcheck import effects
from vcheck.core import PyRepo, call_name, dotted_name, norm
from vcheck.ctable import c_summaries

MANIFEST = dict(
    text="Structural rule checking (not a behavioural proof) of the five field operations and the copy/split helpers: the result is "
         "allocated as zeros(<input>.shape, dtype=<new descr>) (same-shape clause); every entry put into the new descriptor is an "
         "unmodified entry of the input's dtype.descr or of the added descriptor (type, sub-array shape and byte order preserved); the "
         "iteration order that builds the descriptor is the documented one for each operation; data are copied by the per-name copier "
         "after allocation with (source, destination) in the right roles and the copier assigns every common name; each documented "
         "rejection is a raise controlled by the matching test; the empty-selection rejection of extract/remove is reached on every way "
         "to the allocation and is controlled by a test that depends on both the request and the array's field names (dependence "
         "analysis of the raise guards); a field position looked up by name is never used as a found/not-found flag (position 0 is the "
         "first field); no entry of the new descriptor is rebuilt from a field view (arr[name].dtype / .shape) or cut to (name, type), "
         "which loses the sub-array shape for some array dimensionality; combine_fields' rejection of arrays of different length compares "
         ".shape, not a quantity arrays of different length can share (.size, .ndim, one axis); the sequence that drives each field list is the "
         "documented one (extract/remove and the tail of reorder walk the array's own fields in dtype order, the head of reorder and split_fields "
         "walk the request in the order given; never a sorted / set / reversed collection of names); extract_fields' strict-mode rejection, "
         "read as a quantifier over the requested names (per-name loop, np.isin mask, list or count of missing names), is reached whenever SOME "
         "name is not a field; copy_fields_by_name assigns the supplied value itself, never re-typed to the field's record type "
         "(arr.dtype[name] carries the sub-array shape); the returned array is fresh (alias analysis: it shares no buffer with "
         "any argument).",
    note="Not decided: element-wise equality (numpy field assignment trusted), rejection of a shared name (delegated to numpy.dtype "
         "construction, a trusted idiom). remove_fields documents only scalar/list names; tuple/array name lists are an observation.",
    technique="static analysis: symbolic evaluation of the field-list code (descr provenance, iteration order, guards), alias analysis "
              "for freshness of the result",
)

NU = "esutil.numpy_util."


# rules that keep their verdict however the code is laid out (decided on the symbolic values below and on the effect analysis);
# every other rule of this check is a template rule (vcheck.core.Check.obt): it is evaluated on the same values but a mismatch
# in a restructured function is "not recognised", not a violation
SEMANTIC = ('R07.alloc', 'R07.args', 'R07.copier', 'R07.defaults', 'R07.fresh', 'R07.nonempty', 'R07.lookup', 'R07.entry', 'R07.samelen', 'R07.seq', 'R07.strict')


# --------------------------------------------------------------------------------------------------------------------
# A small abstract interpreter for the field-list code (descr provenance).
#
# The rules below are statements about *values*: "the dtype handed to zeros() is the list of the input's descr entries whose
# name is requested, in original order".  To decide them independently of how the list is spelled (append loop, list
# comprehension, `+`, `+=`, a dict name->entry, np.where on an array of names, a private helper that was extracted or
# inlined, a guard clause instead of if/else, any() instead of a loop ...) the function is executed once on symbolic terms:
#
#   ('P', name)                      the caller's argument
#   ('DT', A) / ('NPDT', t)          A.dtype / np.dtype(t)
#   ('DESCR', F) ('NAMES', F) ('MAP', F) ('FIELDS', F)      F.descr, F.names, dict name->entry, F.fields
#   ('ENTRY', F, key) ('NAME', F, key)   one descr entry / its name; key = ('K', loop id): the entry visited by that loop,
#                                        ('N', term): the entry whose name is `term`
#   ('LIST', id)                     a list built locally; its content is a sequence of segments (loops, guards, element):
#                                    "for the iterations of `loops` that pass `guards`, in order, the element"
#   ('NORM', term, mode, types)      a names argument after scalar wrapping (mode 'unless'/'when' isinstance, 'atleast_1d')
#   ('ALLOC', n)                     the n-th array allocation
#   ('IMAP', F) ('DICT', id)         a dict name -> position in F.names; a dict built locally (content: segments of (key, value))
#   ('POSQ', F, term, default)       IMAP.get(term, default): the position of the field named `term`, or the default
#   ('NIDX', F, term) ('FIRST', ('WIDX', F, term))   F.names.index(term) / np.where(names == term)[0][0]
#
# Everything else is an opaque term; nothing is guessed: a rule that does not find the terms it is about reports
# "not recognised".
# --------------------------------------------------------------------------------------------------------------------
N_, RET, RAISE, CONT, BRK = "N", "RET", "RAISE", "CONT", "BRK"
ALLOCATORS = {"zeros": True, "zeros_like": True, "empty": False, "empty_like": False, "ones": False, "ones_like": False}
COPIERS = ("copy_fields", "copy_fields_by_name")
_Seg = collections.namedtuple("_Seg", "loops guards elem")


class _Unrec(Exception):
    """a construct the evaluator does not model"""


class _Loop:
    __slots__ = ("id", "src", "node", "broken", "unordered")

    def __init__(self, i, src, node):
        self.id, self.src, self.node, self.broken = i, src, node, False
        self.unordered = False      # the loop walks a set written at the loop itself (`for n in set(names)`): no defined order

    def __repr__(self):
        return "L%d<%s>" % (self.id, _show(self.src))


class _Guard:
    """cond holds with polarity pol.  kind says what happens to the iterations/paths where it does not:
    'filter' they go on normally (the element is skipped), 'reject' they raise, 'path' they return, 'break' the loop ends"""
    __slots__ = ("cond", "pol", "kind", "node")

    def __init__(self, cond, pol, node=None, kind="filter"):
        self.cond, self.pol, self.node, self.kind = cond, pol, node, kind

    def __repr__(self):
        return "%s%s/%s" % ("" if self.pol else "not ", _show(self.cond), self.kind)


class _Event:
    __slots__ = ("kind", "d", "loops", "guards", "seq", "site", "depth", "node")

    def __repr__(self):
        return "<%s#%d %s loops=%s guards=%s>" % (self.kind, self.seq, {k: _show(v) for k, v in self.d.items()}, list(self.loops), list(self.guards))


def _show(t):
    if isinstance(t, tuple):
        if t and t[0] == "P":
            return t[1]
        if t and t[0] == "C":
            return repr(t[1])
        return "%s(%s)" % (t[0], ", ".join(_show(x) for x in t[1:])) if t and isinstance(t[0], str) else "(%s)" % ", ".join(_show(x) for x in t)
    if isinstance(t, frozenset):
        return "{%s}" % ",".join(sorted(t))
    return str(t)


class _St:
    """one frame's variables plus the iteration/guard context of the statement being executed"""

    def __init__(self, vars_, module, loops=(), guards=(), closure=None):
        self.vars, self.module, self.loops, self.guards, self.closure = vars_, module, tuple(loops), tuple(guards), closure

    def child(self, loops=None, guards=None, own_vars=False):
        return _St(dict(self.vars) if own_vars else self.vars, self.module, self.loops if loops is None else loops,
                   self.guards if guards is None else guards, self.closure)

    def lookup(self, name):
        s = self
        while s is not None:
            if name in s.vars:
                return s.vars[name]
            s = s.closure
        return None


def _strip_prefix(cur, base):
    i = 0
    while i < len(cur) and i < len(base) and cur[i] is base[i]:
        i += 1
    return tuple(cur[i:])


def _param_of(t):
    """the parameter a (possibly normalised) names/values argument stands for"""
    while isinstance(t, tuple) and t and t[0] == "NORM":
        t = t[1]
    return t[1] if isinstance(t, tuple) and len(t) == 2 and t[0] == "P" else None


def _members(t):
    """canonical container of a membership test: names tuple, dict of names and dtype.fields have the same keys"""
    if isinstance(t, tuple) and t and t[0] in ("MAP", "NMAP", "FIELDS", "NAMES"):
        return ("NAMES", t[1])
    return t


def _subterms(t):
    yield t
    if isinstance(t, tuple):
        for x in t:
            if isinstance(x, tuple):
                for y in _subterms(x):
                    yield y


class _Interp:
    def __init__(self, repo, fi):
        self.repo, self.root = repo, fi
        self.heap = {}            # list id -> [segments]
        self.listctx = {}         # list id -> (loops, guards) where it was created
        self.events = []
        self.loops = {}
        self.uses = []            # (term, guards in force) for terms used as a container (iterated, tested for membership, converted to list/set)
        self.cur = None
        self._ids = itertools.count(1)
        self.depth = 0
        self.site = None
        self.frames = []
        self.stack = []
        self.failed = None
        self.nalloc = 0
        self._pre = {}
        self._funcs = {}
        self.postests = []        # (position-valued term, how it was tested, top-level statement): a field position used as a found/not-found flag
        self.opaque = []          # calls of callees whose body was not followed (they may raise)
        self.asserts = 0
        self.tested = {}          # list id -> how many segments the list had at each membership test on it
        self.pylists = set()      # ids of LIST terms that are certainly python lists (a list display, a list comprehension, list(...))

    # -- driver ------------------------------------------------------------------------------------------------------
    def run(self):
        fi = self.root
        st = _St({p.lstrip("*"): ("P", p.lstrip("*")) for p in fi.params}, fi.module)
        try:
            status = self.block(fi.node.body, st)
            if N_ in status:
                self.event("return", st, None, value=("C", None), implicit=True)
        except _Unrec as e:
            self.failed = str(e)
        except RecursionError:
            self.failed = "recursion"
        except Exception as e:      # a term shape the evaluator did not expect: no verdict, never a violation
            self.failed = "evaluator: %s: %s" % (type(e).__name__, e)
        return self

    def event(self, kind, st, node, **d):
        e = _Event()
        e.kind, e.d, e.loops, e.guards, e.seq, e.site, e.depth, e.node = kind, d, st.loops, st.guards, len(self.events), self.site, self.depth, node
        self.events.append(e)
        return e

    def use(self, t):
        self.uses.append((t, self.cur.guards if self.cur is not None else ()))

    def of(self, kind):
        return [e for e in self.events if e.kind == kind]

    # -- lists -------------------------------------------------------------------------------------------------------
    def newlist(self, st, segs=(), ctx=None):
        i = next(self._ids)
        self.heap[i] = list(segs)
        self.listctx[i] = ctx if ctx is not None else (st.loops, st.guards)
        return ("LIST", i)

    def pylist(self, t):
        if t[0] == "LIST":
            self.pylists.add(t[1])
        return t

    def known_isinstance(self, t, st):
        """the value of `isinstance(x, <classes>)` when x is a list built here: True / False, or None when it is not known"""
        if not (isinstance(t, ast.Call) and isinstance(t.func, ast.Name) and t.func.id == "isinstance" and st.lookup("isinstance") is None
                and len(t.args) == 2 and not t.keywords and isinstance(t.args[0], ast.Name)):
            return None
        v = st.lookup(t.args[0].id)
        if v is None or v[0] != "LIST" or v[1] not in self.pylists:
            return None
        types = self.type_names(t.args[1], st)
        if "list" in types or "object" in types:
            return True
        if types <= _NOT_LIST_CLASSES:
            return False
        return None

    def newloop(self, src, node):
        lp = _Loop(next(self._ids), src, node)
        self.loops[lp.id] = lp
        return lp

    def elem_of(self, seq, lp):
        k = seq[0] if isinstance(seq, tuple) and seq else None
        if k == "DESCR":
            return ("ENTRY", seq[1], ("K", lp.id))
        if k in ("NAMES", "MAP", "FIELDS"):
            return ("NAME", seq[1], ("K", lp.id))
        if k == "RANGE":
            return ("IDX", seq[1], lp.id)
        if k == "RANGEOF":
            return ("IDXOF", lp.id)
        if k == "ZIP":
            return ("TUPLE",) + tuple(self.elem_of(x, lp) for x in seq[1:])
        if k == "ENUM":
            inner = seq[1]
            idx = ("IDX", inner[1], lp.id) if isinstance(inner, tuple) and inner[0] in ("DESCR", "NAMES") else ("IDXOF", lp.id)
            return ("TUPLE", idx, self.elem_of(inner, lp))
        return ("ELEM", seq, lp.id)

    def segments(self, t, node=None):
        """the content of a sequence value as segments"""
        if isinstance(t, tuple) and t and t[0] == "LIST":
            return list(self.heap.get(t[1], []))
        lp = self.newloop(t, node)
        return [_Seg((lp,), (), self.elem_of(t, lp))]

    def copy_of(self, t, st):
        if isinstance(t, tuple) and t and t[0] == "LIST":
            return self.newlist(st, self.heap.get(t[1], []), self.listctx.get(t[1]))
        return t

    def as_list(self, t, st):
        if isinstance(t, tuple) and t and t[0] == "LIST":
            return t
        # a list that was not made here (dtype.descr builds a new list on every access): its content does not depend on where we are
        return self.newlist(st, self.segments(t), ((), ()))

    def append(self, lst, elem, st):
        c = self.listctx[lst[1]]
        self.heap[lst[1]].append(_Seg(_strip_prefix(st.loops, c[0]), _strip_prefix(st.guards, c[1]), elem))

    def extend(self, lst, seq, st, node=None):
        c = self.listctx[lst[1]]
        lo, gu = _strip_prefix(st.loops, c[0]), _strip_prefix(st.guards, c[1])
        for s in self.segments(seq, node):
            self.heap[lst[1]].append(_Seg(lo + s.loops, gu + s.guards, s.elem))

    def taint(self, lst, what):
        self.heap[lst[1]].append(_Seg((), (), ("TAINT", what)))

    def newdict(self, st, segs=()):
        d = self.newlist(st, segs)
        return ("DICT", d[1])

    def dictkind(self, t):
        """a dict built locally whose content is `for every field of F in order: name -> position` is ('IMAP', F), `name -> descr entry`
        is ('MAP', F); anything else stays what it is"""
        if not (isinstance(t, tuple) and t and t[0] == "DICT"):
            return t
        segs = self.heap.get(t[1], [])
        if len(segs) != 1 or len(segs[0].loops) != 1 or _filters(segs[0].guards):
            return t
        sg, lp = segs[0], segs[0].loops[0]
        el = sg.elem
        if el[0] != "TUPLE" or len(el) != 3 or el[1][0] != "NAME":
            return t
        F = el[1][1]
        if el[1] != ("NAME", F, ("K", lp.id)) or not _in_order_over(lp, F):
            return t
        if el[2] == ("IDX", F, lp.id):
            return ("IMAP", F)
        if el[2] == ("ENTRY", F, ("K", lp.id)):
            return ("MAP", F)
        if el[2] == el[1]:
            return ("NMAP", F)
        return t

    def pairs_dict(self, a0, st):
        """dict(<pairs>) / a dict comprehension: the dict of those pairs"""
        if a0[0] == "ZIP" and len(a0) == 3 and a0[1][0] == "NAMES" and a0[2] == ("RANGE", a0[1][1]):
            return ("IMAP", a0[1][1])
        if a0[0] == "LIST":
            segs = self.heap.get(a0[1], [])
            if segs and all(s.elem[0] == "TUPLE" and len(s.elem) == 3 for s in segs):
                return self.dictkind(self.newdict(st, segs))
        return None

    def postest(self, v, how):
        if _is_position(v):
            self.postests.append((v, how, self.site))

    # -- statements --------------------------------------------------------------------------------------------------
    def block(self, stmts, st):
        status = set()
        for s in stmts:
            if self.depth == 0:
                self.site = s
            r = self.stmt(s, st)
            status |= (r - {N_})
            if N_ not in r:
                return status
        return status | {N_}

    def stmt(self, s, st):
        if isinstance(s, ast.Expr):
            if not isinstance(s.value, ast.Constant):
                self.ev(s.value, st)
            return {N_}
        if isinstance(s, ast.Assign):
            v = self.ev(s.value, st)
            for t in s.targets:
                self.assign(t, v, st, s)
            return {N_}
        if isinstance(s, ast.AnnAssign):
            if s.value is not None:
                self.assign(s.target, self.ev(s.value, st), st, s)
            return {N_}
        if isinstance(s, ast.AugAssign):
            return self.augassign(s, st)
        if isinstance(s, ast.If):
            return self.if_(s, st)
        if isinstance(s, ast.For):
            return self.for_(s, st)
        if isinstance(s, ast.Return):
            v = self.ev(s.value, st) if s.value is not None else ("C", None)
            if self.depth == 0:
                self.event("return", st, s, value=v, implicit=False)
            else:
                self.frames[-1].append((v, st.guards))
            return {RET}
        if isinstance(s, ast.Raise):
            self.event("raise", st, s)
            return {RAISE}
        if isinstance(s, ast.Continue):
            return {CONT}
        if isinstance(s, ast.Break):
            return {BRK}
        if isinstance(s, (ast.Pass, ast.Import, ast.ImportFrom, ast.Global, ast.Nonlocal, ast.Assert)):
            if isinstance(s, ast.Assert):
                self.asserts += 1
            return {N_}
        if isinstance(s, ast.Delete):
            for t in s.targets:
                if isinstance(t, ast.Subscript):
                    b = self.ev(t.value, st)
                    if b[0] == "LIST":
                        self.taint(b, "del")
                    else:
                        self.event("store", st, s, base=b, key=("X", "del"), value=("X", "del"))
            return {N_}
        if isinstance(s, ast.With):
            for it in s.items:
                v = self.ev(it.context_expr, st)
                if it.optional_vars is not None:
                    self.assign(it.optional_vars, v, st, s)
            return self.block(s.body, st)
        if isinstance(s, (ast.FunctionDef, ast.AsyncFunctionDef)):
            st.vars[s.name] = ("FUNC", id(s))
            self._funcs[id(s)] = (s, st)
            return {N_}
        raise _Unrec("%s statement at line %s" % (type(s).__name__, getattr(s, "lineno", "?")))

    def assign(self, t, v, st, node):
        if isinstance(t, ast.Name):
            st.vars[t.id] = v
        elif isinstance(t, (ast.Tuple, ast.List)):
            if v[0] == "WHERE" and len(t.elts) == 1:
                self.assign(t.elts[0], ("WIDX", v[1], v[2]), st, node)
            elif v[0] == "TUPLE" and len(v) - 1 == len(t.elts):
                for e, x in zip(t.elts, v[1:]):
                    self.assign(e, x, st, node)
            else:
                for i, e in enumerate(t.elts):
                    self.assign(e, ("ITEM", v, ("C", i)), st, node)
        elif isinstance(t, ast.Subscript):
            base = self.ev(t.value, st)
            key = ("X", "slice:" + norm(t.slice)) if isinstance(t.slice, ast.Slice) else self.ev(t.slice, st)
            if base[0] == "LIST":
                self.taint(base, "item assignment")
            elif base[0] == "DICT":
                self.append(base, ("TUPLE", key, v), st)
            self.event("store", st, node, base=base, key=key, value=v)
        elif isinstance(t, ast.Attribute):
            self.event("attrstore", st, node, base=self.ev(t.value, st), attr=t.attr, value=v)
        elif isinstance(t, ast.Starred):
            self.assign(t.value, ("X", "starred"), st, node)

    def augassign(self, s, st):
        v = self.ev(s.value, st)
        if isinstance(s.target, ast.Name):
            cur = st.lookup(s.target.id) or ("G", s.target.id)
            if isinstance(s.op, ast.Add) and cur[0] in ("LIST", "DESCR", "NAMES"):
                lst = self.as_list(cur, st)
                st.vars[s.target.id] = lst
                self.extend(lst, v, st, s)
                return {N_}
            self.event("incr", st, s, name=s.target.id, op=type(s.op).__name__, value=v, before=cur)
            # a local that is only ever counted up/down stays one symbolic counter
            st.vars[s.target.id] = ("CNT", s.target.id) if isinstance(s.op, (ast.Add, ast.Sub)) else ("X", "updated:%s@%s" % (s.target.id, s.lineno))
        elif isinstance(s.target, ast.Subscript):
            self.event("store", st, s, base=self.ev(s.target.value, st), key=("X", "aug:" + norm(s.target.slice)), value=v)
        return {N_}

    # -- if ------------------------------------------------------------------------------------------------------------
    def _quantified(self, test):
        neg = False
        while isinstance(test, ast.UnaryOp) and isinstance(test.op, ast.Not):
            neg, test = not neg, test.operand
        if isinstance(test, ast.Call) and isinstance(test.func, ast.Name) and test.func.id in ("any", "all") and len(test.args) == 1 \
                and isinstance(test.args[0], (ast.GeneratorExp, ast.ListComp)) and not test.keywords:
            return test.func.id, neg, test.args[0]
        return None

    def if_(self, s, st):
        q = self._quantified(s.test)
        if q is not None:
            name, neg, comp = q
            ex_pol = (name == "any") != neg      # the test is true exactly when a witness exists
            cpol = name == "any"                 # a witness makes the element expression cpol
            ex_arm, other = (s.body, s.orelse) if ex_pol else (s.orelse, s.body)
            if ex_arm and isinstance(ex_arm[-1], (ast.Raise, ast.Return)):
                h0 = self._heapcopy()

                def leaf(stc):
                    gT, gF = self.cond(comp.elt, stc)
                    gs = gT if cpol else gF
                    return self.block(ex_arm, stc.child(guards=stc.guards + tuple(_Guard(c, p, s) for c, p in gs)))
                sX = self.comp_iter(comp.generators, st.child(own_vars=True), leaf)
                self.heap = h0
                g = _Guard(("EXISTS", norm(comp)), False, s, "reject" if sX <= {RAISE} else "path")
                st.guards = st.guards + (g,)
                sO = self.block(other, st) if other else {N_}
                return (sX - {N_}) | sO
        neg, t = False, s.test
        while isinstance(t, ast.UnaryOp) and isinstance(t.op, ast.Not):
            neg, t = not neg, t.operand
        known = self.known_isinstance(t, st)
        if known is not None:
            # the class of a list built here is known: only one arm can run
            arm = s.body if known != neg else s.orelse
            return self.block(arm, st) if arm else {N_}
        if isinstance(t, ast.Call):
            v = self.ev(t, st)
            if v[0] == "RETS" and all(alt[0][0] == "C" for alt in v[1:]):
                return self._if_alternatives(s, st, v, neg)
            self._pre[id(t)] = v
        gT, gF = self.cond(s.test, st)
        gT = tuple(_Guard(c, p, s) for c, p in gT)
        gF = tuple(_Guard(c, p, s) for c, p in gF)
        h0 = self._heapcopy()
        v0 = dict(st.vars)
        stT = st.child(guards=st.guards + gT, own_vars=True)
        sT = self.block(s.body, stT)
        hT = self.heap
        self.heap = {k: list(v) for k, v in h0.items()}
        stF = st.child(guards=st.guards + gF, own_vars=True)
        sF = self.block(s.orelse, stF) if s.orelse else {N_}
        hF = self.heap

        def kind_from(other_status):
            if N_ in other_status:
                return "filter"
            if other_status <= {RAISE}:
                return "reject"
            if RET in other_status:
                return "path"
            if BRK in other_status:
                return "break"
            return "filter"
        for g in gT:
            g.kind = kind_from(sF)
        for g in gF:
            g.kind = kind_from(sT)
        if N_ in sT and N_ in sF:
            self.heap = self._heapmerge(h0, hT, hF)
            merged = {}
            for k in set(stT.vars) | set(stF.vars):
                a, b = stT.vars.get(k), stF.vars.get(k)
                if a == b:
                    merged[k] = a
                elif ("CNT", k) in (a, b):
                    merged[k] = ("CNT", k)
                else:
                    merged[k] = self._norm_merge(gT, a, b, v0.get(k)) or ("PHI", a if a is not None else ("X", "unbound"), b if b is not None else ("X", "unbound"))
            st.vars.clear()
            st.vars.update(merged)
            extra = ()
            both = (sT | sF) - {N_, RAISE}
            # guards the arms pushed for their own remainder (maybe-return, maybe-continue) survive the merge as pseudo guards
            if RET in both:
                extra += (_Guard(("MAYRET", s.lineno), True, s, "path"),)
            if BRK in both:
                extra += (_Guard(("MAYBREAK", s.lineno), True, s, "break"),)
            if CONT in both:
                extra += (_Guard(("MAYSKIP", s.lineno), True, s, "filter"),)
            st.guards = st.guards + extra
        elif N_ in sT:
            self.heap = hT
            st.vars.clear()
            st.vars.update(stT.vars)
            st.guards = stT.guards
        elif N_ in sF:
            self.heap = hF
            st.vars.clear()
            st.vars.update(stF.vars)
            st.guards = stF.guards
        else:
            self.heap = self._heapmerge(h0, hT, hF)
        return sT | sF

    def _if_alternatives(self, s, st, v, neg):
        """the test is a call of a helper that returns constants: each way the helper returns selects an arm, under the helper's own tests"""
        results = []
        for val, gs in v[1:]:
            arm = s.body if bool(val[1]) != neg else s.orelse
            stA = st.child(guards=st.guards + tuple(_Guard(g.cond, g.pol, s, "filter") for g in gs), own_vars=True)
            results.append((self.block(arm, stA) if arm else {N_}, stA))
        status = set()
        for r, _ in results:
            status |= r
        normal = [a for r, a in results if N_ in r]
        if normal:
            merged = {}
            for k in set().union(*[set(a.vars) for a in normal]):
                vs = []
                for a in normal:
                    x = a.vars.get(k)
                    if x not in vs:
                        vs.append(x)
                merged[k] = vs[0] if len(vs) == 1 else (("CNT", k) if ("CNT", k) in vs else ("PHI",) + tuple(x if x is not None else ("X", "unbound") for x in vs))
            st.vars.clear()
            st.vars.update(merged)
            if RET in status:
                st.guards = st.guards + (_Guard(("MAYRET", s.lineno), True, s, "path"),)
        return status

    def _heapcopy(self):
        return {k: list(v) for k, v in self.heap.items()}

    def _heapmerge(self, h0, hT, hF):
        out = {}
        for k in set(hT) | set(hF):
            if k not in hF:
                out[k] = hT[k]
            elif k not in hT:
                out[k] = hF[k]
            else:
                n = len(h0.get(k, []))
                out[k] = list(hT[k][:n]) + list(hT[k][n:]) + list(hF[k][n:])
        return out

    def _norm_merge(self, gT, a, b, before):
        """`if not isinstance(x, (tuple, list, ndarray)): x = [x]` (or the mirrored / positive forms): x normalised to a sequence"""
        if len(gT) == 1 and gT[0].cond[0] == "ISNONE" and a is not None and b is not None:
            # `if x is not None: x = <normalised x>`: None stays None, anything else is normalised
            subj = gT[0].cond[1]
            none_arm, other = (a, b) if gT[0].pol else (b, a)
            if none_arm == subj and before == subj and other[0] in ("NORM", "LIST"):
                return ("OPT", subj, other)
            # `if x is None: x = <default>` (else: x normalised or left alone)
            if before == subj and none_arm != subj and (other == subj or other[0] == "NORM" and other[1] == subj):
                return ("DFLT", subj, none_arm, other)
            return None
        if len(gT) != 1 or gT[0].cond[0] != "ISINST" or a is None or b is None:
            return None
        subj, types = gT[0].cond[1], gT[0].cond[2]
        inst, noninst = (a, b) if gT[0].pol else (b, a)

        def wrapped(v):
            if v[0] != "LIST":
                return False
            segs = self.heap.get(v[1], [])
            return len(segs) == 1 and not segs[0].loops and segs[0].elem == subj
        if wrapped(noninst) and inst == subj:
            return ("NORM", subj, "unless", types)
        if wrapped(inst) and noninst == subj:
            return ("NORM", subj, "when", types)
        return None

    # -- for -----------------------------------------------------------------------------------------------------------
    def iterate(self, it, target, st, body, node, unordered=False):
        it = self.dictkind(it)
        if it[0] in ("IMAP", "NMAP"):
            it = ("NAMES", it[1])      # walking a dict walks its keys, in insertion order
        self.use(it)
        status = set()
        if it[0] == "LIST":
            segs = self.segments(it)
            if any(s.elem[0] == "TAINT" for s in segs):
                segs = None
        else:
            segs = None
        if segs is None:
            lp = self.newloop(it, node)
            lp.unordered = bool(unordered)
            segs = [_Seg((lp,), (), self.elem_of(it, lp))]
        mine = []
        for sg in segs:
            st2 = st.child(loops=st.loops + sg.loops, guards=st.guards + sg.guards)
            self.bind(target, sg.elem, st2)
            mine.extend(sg.loops)
            status |= body(st2)
        if BRK in status:
            for lp in mine:
                lp.broken = True
        return status

    def bind(self, target, v, st):
        self.assign(target, v, st, target)

    def for_(self, s, st):
        it = self.ev(s.iter, st)
        assigned = set()
        for x in ast.walk(s):
            if isinstance(x, ast.Name) and isinstance(x.ctx, ast.Store):
                assigned.add(x.id)
        r = self.iterate(it, s.target, st, lambda st2: self.block(s.body, st2), s, unordered=_is_set_display(s.iter, st))
        for k in assigned:
            v = st.vars.get(k)
            if v is not None and v[0] not in ("LIST", "ALLOC", "FUNC", "CNT"):
                st.vars[k] = ("X", "after-loop:%s@%s" % (k, s.lineno))
        out = {N_}
        if RET in r:
            out.add(RET)
            st.guards = st.guards + (_Guard(("MAYRET", s.lineno), True, s, "path"),)
        if RAISE in r:
            out.add(RAISE)
        if s.orelse:
            r2 = self.block(s.orelse, st)
            out = (out - {N_}) | r2 if N_ not in r2 else out | r2
        return out

    def comp_iter(self, gens, st, leaf, i=0):
        if i == len(gens):
            return leaf(st)
        g = gens[i]
        it = self.ev(g.iter, st)

        def body(st2):
            gs = ()
            for c in g.ifs:
                gT, _ = self.cond(c, st2)
                gs += tuple(_Guard(cc, p, c) for cc, p in gT)
            return self.comp_iter(gens, st2.child(guards=st2.guards + gs), leaf, i + 1)
        return self.iterate(it, g.target, st, body, g, unordered=_is_set_display(g.iter, st))

    # -- expressions ---------------------------------------------------------------------------------------------------
    def ev(self, e, st):
        self.cur = st
        if e is None:
            return ("C", None)
        if isinstance(e, ast.Constant):
            return ("C", e.value)
        if isinstance(e, ast.Name):
            v = st.lookup(e.id)
            if v is not None and v[0] == "OPT" and any(g.cond == ("ISNONE", v[1]) and not g.pol for g in st.guards):
                return v[2]
            return v if v is not None else ("G", e.id)
        if isinstance(e, ast.Attribute):
            return self.attr(self.ev(e.value, st), e.attr)
        if isinstance(e, ast.Subscript):
            return self.sub(self.ev(e.value, st), e.slice, st)
        if isinstance(e, ast.Call):
            if id(e) in self._pre:
                return self._pre.pop(id(e))
            return self.call(e, st)
        if isinstance(e, (ast.List, ast.Tuple)):
            elems = [self.ev(x, st) for x in e.elts]
            if isinstance(e, ast.Tuple):
                return _own_record(("TUPLE",) + tuple(elems))
            return self.pylist(self.newlist(st, [_Seg((), (), x) for x in elems]))
        if isinstance(e, ast.Dict) and not e.keys:
            return self.newdict(st)
        if isinstance(e, ast.DictComp):
            lst = self.newlist(st)

            def dleaf(stc):
                self.append(lst, ("TUPLE", self.ev(e.key, stc), self.ev(e.value, stc)), stc)
                return {N_}
            self.comp_iter(e.generators, st.child(own_vars=True), dleaf)
            self.cur = st
            return self.pairs_dict(lst, st) or ("X", norm(e))
        if isinstance(e, (ast.ListComp, ast.GeneratorExp, ast.SetComp)):
            lst = self.newlist(st)

            def leaf(stc):
                self.append(lst, self.ev(e.elt, stc), stc)
                return {N_}
            self.comp_iter(e.generators, st.child(own_vars=True), leaf)
            return self.pylist(lst) if isinstance(e, ast.ListComp) else lst
        if isinstance(e, ast.Compare) and len(e.ops) == 1:
            a, b = self.ev(e.left, st), self.ev(e.comparators[0], st)
            if isinstance(e.ops[0], ast.Eq):
                for x, y in ((a, b), (b, a)):
                    if x[0] == "NAMES":
                        return ("NAMEEQ", x[1], y)
            c, p = self.cmp(e.ops[0], a, b)
            return ("COND", c, p)
        if isinstance(e, ast.BinOp):
            a, b = self.ev(e.left, st), self.ev(e.right, st)
            if isinstance(e.op, ast.Add) and (a[0] in ("LIST", "DESCR", "NAMES") or b[0] in ("LIST", "DESCR", "NAMES")):
                out = self.newlist(st)
                self.extend(out, a, st, e)
                self.extend(out, b, st, e)
                return out
            return ("BIN", type(e.op).__name__, a, b)
        if isinstance(e, ast.UnaryOp):
            return ("UN", type(e.op).__name__, self.ev(e.operand, st))
        if isinstance(e, ast.IfExp):
            gT, gF = self.cond(e.test, st)
            gT, gF = tuple(_Guard(c, p, e) for c, p in gT), tuple(_Guard(c, p, e) for c, p in gF)
            a = self.ev(e.body, st.child(guards=st.guards + gT))
            b = self.ev(e.orelse, st.child(guards=st.guards + gF))
            self.cur = st
            if a == b:
                return a
            return self._norm_merge(gT, a, b, None) or ("PHI", a, b)
        if isinstance(e, ast.BoolOp):
            return ("BOOL", type(e.op).__name__) + tuple(self.ev(x, st) for x in e.values)
        if isinstance(e, ast.Starred):
            return ("X", "starred")
        if isinstance(e, ast.NamedExpr):
            v = self.ev(e.value, st)
            st.vars[e.target.id] = v
            return v
        return ("X", norm(e))

    def attr(self, b, a):
        if b[0] == "G":
            return ("G", b[1] + "." + a)
        if a == "dtype":
            return ("DT", b)
        if b[0] in ("DT", "NPDT"):
            if a == "descr":
                return ("DESCR", b)
            if a == "names":
                return ("NAMES", b)
            if a == "fields":
                return ("FIELDS", b)
        if a == "shape":
            return ("SHAPE", b)
        if a == "size":
            if b[0] in ("NAMES", "DESCR"):
                return ("NF", b[1])
            if b[0] == "WIDX":
                return ("WSIZE", b[1], b[2])
            return ("SIZE", b)
        return ("ATTR", b, a)

    def sub(self, b, sl, st):
        if isinstance(sl, ast.Slice):
            if sl.lower is None and sl.upper is None and sl.step is None:
                return self.copy_of(b, st)
            return ("SLICE", b, norm(sl))
        k = self.ev(sl, st)
        h = b[0]
        if h == "DICT":
            b = self.dictkind(b)
            h = b[0]
        if h == "IMAP":
            return ("NIDX", b[1], k)
        if h == "NMAP":
            return k                    # the dtype's own name object for that name: the same name
        if k[0] == "IDXOF" and h not in ("DESCR", "NAMES", "MAP", "LIST"):
            return ("ELEM", b, k[1])          # the element at the position of that loop (sequences walked in step)
        if h == "DESCR":
            if k[0] == "IDX" and k[1] == b[1]:
                return ("ENTRY", b[1], ("K", k[2]))
            if k[0] == "FIRST" and k[1][0] == "WIDX" and k[1][1] == b[1]:
                return ("ENTRY", b[1], ("N", k[1][2]))
            if k[0] in ("NIDX", "POSQ") and k[1] == b[1]:
                return ("ENTRY", b[1], ("N", k[2]))
        elif h == "NAMES":
            if k[0] == "IDX" and k[1] == b[1]:
                return ("NAME", b[1], ("K", k[2]))
        elif h == "MAP":
            if k[0] == "NAME" and k[1] == b[1]:
                return ("ENTRY", b[1], k[2])
            return ("ENTRY", b[1], ("N", k))
        elif h == "WHERE":
            if k == ("C", 0):
                return ("WIDX", b[1], b[2])
        elif h == "WIDX":
            if k == ("C", 0):
                return ("FIRST", b)
        elif h == "ENTRY":
            if k == ("C", 0):
                return ("NAME", b[1], b[2]) if b[2][0] == "K" else b[2][1]
        elif h == "TUPLE":
            if k[0] == "C" and isinstance(k[1], int) and -len(b) < k[1] < len(b) - 1:
                return b[1:][k[1]]
        return ("ITEM", b, k)

    # -- conditions ----------------------------------------------------------------------------------------------------
    def cond(self, t, st):
        """(conjuncts that hold in the true arm, conjuncts that hold in the false arm) as (condition term, polarity)"""
        if isinstance(t, ast.UnaryOp) and isinstance(t.op, ast.Not):
            a, b = self.cond(t.operand, st)
            return b, a
        if isinstance(t, ast.BoolOp):
            parts = [self.cond(v, st) for v in t.values]
            if isinstance(t.op, ast.And):
                return [c for p in parts for c in p[0]], [(("NOTALL", norm(t)), True)]
            return [(("SOME", norm(t)), True)], [c for p in parts for c in p[1]]
        if isinstance(t, ast.Compare) and len(t.ops) == 1:
            c, p = self.cmp(t.ops[0], self.ev(t.left, st), self.ev(t.comparators[0], st))
            return [(c, p)], [(c, not p)]
        v = self.ev(t, st)
        if v[0] == "COND":
            return [(v[1], v[2])], [(v[1], not v[2])]
        if v[0] == "ISINST":
            return [(v, True)], [(v, False)]
        c, p = self.truth(v)
        return [(c, p)], [(c, not p)]

    def truth(self, v):
        self.postest(v, "tested for truth")
        if v[0] in ("LEN",):
            return ("TRUE", v[1]), True
        if v[0] == "WSIZE":
            return ("IN", v[2], ("NAMES", v[1])), True
        if v[0] == "UN" and v[1] == "Not":
            c, p = self.truth(v[2])
            return c, not p
        return ("TRUE", v), True

    def cmp(self, op, a, b):
        if isinstance(op, (ast.In, ast.NotIn)):
            b = self.dictkind(b)
            if b[0] == "IMAP":
                b = ("NAMES", b[1])
            self.use(b)
            if b[0] == "LIST":
                self.tested.setdefault(b[1], []).append(len(self.heap.get(b[1], [])))
            return ("IN", a, _members(b)), isinstance(op, ast.In)
        # IMAP.get(name, <sentinel>) compared with its sentinel: membership in disguise
        for x, y, o in ((a, b, op), (b, a, _MIRROR.get(type(op), type(op))())):
            if x[0] == "POSQ":
                r = _posq_test(x, y, o)
                if r is not None:
                    return ("IN", x[2], ("NAMES", x[1])), r
        if isinstance(op, (ast.Is, ast.IsNot)):
            if b == ("C", None) or a == ("C", None):
                x = a if b == ("C", None) else b
                if x[0] == "OPT":
                    x = x[1]
                return ("ISNONE", x), isinstance(op, ast.Is)
            return ("IS", a, b), isinstance(op, ast.Is)
        # comparisons of a count with zero: emptiness / membership in disguise
        for x, y, o in ((a, b, op), (b, a, _MIRROR.get(type(op), type(op))())):
            if y[0] == "C" and isinstance(y[1], int) and not isinstance(y[1], bool):
                zero = None      # True: "x is zero", False: "x is not zero"
                if y[1] == 0 and isinstance(o, ast.Eq) or y[1] == 0 and isinstance(o, ast.LtE) or y[1] == 1 and isinstance(o, ast.Lt):
                    zero = True
                elif y[1] == 0 and isinstance(o, (ast.NotEq, ast.Gt)) or y[1] == 1 and isinstance(o, ast.GtE):
                    zero = False
                if zero is not None and not isinstance(o, (ast.Eq, ast.NotEq)):
                    self.postest(x, "compared with `%s %s`" % (_OPTEXT.get(type(o), "?"), y[1]))
                if zero is not None:
                    if x[0] == "MCALL" and x[1] == "count" and len(x[3]) == 1:
                        self.use(x[2])
                        return ("IN", x[3][0], _members(x[2])), not zero
                    if x[0] == "WSIZE" or (x[0] == "LEN" and x[1][0] == "WIDX"):
                        w = x if x[0] == "WSIZE" else x[1]
                        return ("IN", w[2], ("NAMES", w[1])), not zero
                    if x[0] == "LEN":
                        return ("TRUE", x[1]), not zero
                    if x[0] in ("SIZE", "NF") or (x[0] == "CALL" and x[1] == "count_nonzero") or (x[0] == "MCALL" and x[1] == "sum"):
                        return ("TRUE", x), not zero
        if isinstance(op, (ast.Eq, ast.NotEq)):
            x, y = sorted((a, b), key=repr)
            return ("EQ", x, y), isinstance(op, ast.Eq)
        return ("CMP", type(op).__name__, a, b), True

    # -- calls ---------------------------------------------------------------------------------------------------------
    def call(self, c, st):
        f = c.func
        nm = call_name(c)
        # method call on a local value
        if isinstance(f, ast.Attribute):
            recv = self.ev(f.value, st)
            if recv[0] != "G":
                return self.method(c, recv, nm, st)
        args = [self.ev(a, st) for a in c.args if not isinstance(a, ast.Starred)]
        kws = {k.arg: self.ev(k.value, st) for k in c.keywords if k.arg is not None}
        if any(isinstance(a, ast.Starred) for a in c.args) or any(k.arg is None for k in c.keywords):
            return ("CALL", nm or "?", tuple(args) + (("X", "star-args"),))
        if isinstance(f, ast.Name):
            fv = st.lookup(f.id)
            if fv is not None and fv[0] == "FUNC":
                node, dst = self._funcs[fv[1]]
                return self.inline(node, st.module, args, kws, st, closure=dst, qual="<local>." + node.name)
            if fv is not None:
                return ("CALL", "?", tuple(args))
        d = dotted_name(f) or ""
        full = self.repo.resolve_name(st.module, d) if d else ""
        is_np = full.startswith("numpy") or d.split(".")[0] in ("np", "numpy")
        a0 = args[0] if args else None
        if nm == "isinstance" and len(c.args) == 2:
            return ("ISINST", a0, frozenset(self.type_names(c.args[1], st)))
        if nm in ("list", "tuple", "set", "frozenset") and isinstance(f, ast.Name):
            if a0 is None:
                return self.pylist(self.newlist(st)) if nm == "list" else self.newlist(st)
            self.use(a0)
            r = self.copy_of(a0, st)
            return self.pylist(r) if nm == "list" and a0[0] == "LIST" else r
        if nm in ("deepcopy", "copy") and a0 is not None and len(args) == 1:
            return self.copy_of(a0, st)
        if nm == "len" and a0 is not None:
            return ("NF", a0[1]) if a0[0] in ("NAMES", "DESCR", "MAP", "FIELDS") else ("LEN", a0)
        if nm == "zip" and len(args) == 2:
            return ("ZIP", args[0], args[1])
        if nm == "enumerate" and len(args) == 1:
            return ("ENUM", a0)
        if nm == "dict" and len(args) == 1 and a0[0] == "ZIP" and a0[1][0] == "NAMES" and a0[2] == ("DESCR", a0[1][1]):
            return ("MAP", a0[1][1])
        if nm == "dict" and len(args) == 1 and not kws and a0[0] == "ZIP" and len(a0) == 3 and a0[1][0] == "NAMES" and a0[2] == a0[1]:
            return ("NMAP", a0[1][1])
        if nm == "dict" and isinstance(f, ast.Name) and not kws:
            if not args:
                return self.newdict(st)
            d = self.pairs_dict(a0, st) if len(args) == 1 else None
            if d is not None:
                return d
        if nm in ("range", "xrange") and len(args) == 1:
            if a0[0] == "NF":
                return ("RANGE", a0[1])
            return ("RANGEOF", a0[1]) if a0[0] == "LEN" else ("CALL", "range", (a0,))
        if nm == "dtype" and is_np and a0 is not None:
            return a0 if a0[0] in ("DT", "NPDT") else ("NPDT", a0)
        if nm == "shape" and is_np and a0 is not None:
            return ("SHAPE", a0)
        if nm == "size" and is_np and a0 is not None:
            return ("SIZE", a0)
        if nm in ("where", "nonzero", "flatnonzero") and len(args) == 1 and a0[0] == "NAMEEQ":
            return ("WIDX", a0[1], a0[2]) if nm == "flatnonzero" else ("WHERE", a0[1], a0[2])
        if nm in ("array", "asarray", "asanyarray", "atleast_1d") and a0 is not None and (is_np or isinstance(f, ast.Name)):
            if a0[0] in ("NAMES", "DESCR", "LIST") and "dtype" not in kws and len(args) == 1:
                self.use(a0)
                return self.copy_of(a0, st)
            if nm == "atleast_1d" or kws.get("ndmin") == ("C", 1):
                return ("NORM", a0, "atleast_1d", frozenset())
            # a conversion to an explicit type keeps that type as a fifth component (the second positional argument of
            # array/asarray/asanyarray is the dtype)
            dt = kws.get("dtype", args[1] if len(args) > 1 and nm != "atleast_1d" else None)
            if dt is not None and dt != ("C", None):
                return ("NORM", a0, "array", frozenset(), dt)
            return ("NORM", a0, "array", frozenset())
        if nm in ALLOCATORS and (is_np or isinstance(f, ast.Name)) and ("dtype" in kws or len(args) > 1):
            like = nm.endswith("_like")
            shp = kws.get("shape", a0) if not like else ("SHAPE", a0)
            dt = kws.get("dtype", args[1] if len(args) > 1 else None)
            if dt is not None and dt[0] == "NPDT" and dt[1][0] in ("LIST", "DESCR"):
                dt = dt[1]
            self.nalloc += 1
            tag = ("ALLOC", self.nalloc)
            self.event("alloc", st, c, tag=tag, fn=nm, shape=shp, dtype=dt, segs=self.segments(dt, c) if dt is not None and dt[0] in ("LIST", "DESCR") else None)
            return tag
        callee = self.repo.funcs.get(full) if full else None
        if callee is not None and callee.cls is None:
            if callee.name in COPIERS and callee is not self.root:
                bound = self._bindargs(callee.node, args, kws, st, callee.module)
                if bound is not None:
                    self.event(callee.name, st, c, **{"a_" + k: v for k, v in bound.items()})
                    return ("C", None)
            elif full not in self.stack and self.depth < 3 and callee is not self.root:
                return self.inline(callee.node, callee.module, args, kws, st, qual=full)
        if not is_np and not (isinstance(f, ast.Name) and f.id in _PURE_BUILTINS):
            self.opaque.append((nm or "?", tuple(args) + tuple(kws.values()), st.guards, self.site))
        return ("CALL", nm or "?", tuple(args) + tuple(v for _, v in sorted(kws.items())))

    def method(self, c, recv, nm, st):
        args = [self.ev(a, st) for a in c.args if not isinstance(a, ast.Starred)]
        a0 = args[0] if args else None
        recv = self.dictkind(recv)
        if recv[0] == "IMAP":
            if nm == "get" and len(args) in (1, 2) and not c.keywords:
                return ("POSQ", recv[1], a0, args[1] if len(args) == 2 else ("C", None))
            if nm == "keys" and not args:
                return ("NAMES", recv[1])
            # a dict keeps insertion order and field names are distinct: the dict is walked in field order
            if nm == "items" and not args:
                return ("ZIP", ("NAMES", recv[1]), ("RANGE", recv[1]))
            if nm == "values" and not args:
                return ("RANGE", recv[1])
        if recv[0] in ("LIST", "DESCR", "NAMES") and nm in ("append", "extend", "insert", "pop", "remove", "sort", "reverse", "clear", "add", "update", "discard"):
            lst = recv
            if recv[0] != "LIST":
                lst = self.as_list(recv, st)
                if isinstance(c.func.value, ast.Name):
                    st.vars[c.func.value.id] = lst
            if nm in ("append", "add") and len(args) == 1:
                self.append(lst, a0, st)
            elif nm in ("extend", "update") and len(args) == 1:
                self.extend(lst, a0, st, c)
            else:
                self.taint(lst, nm)
            return ("C", None)
        if nm == "copy" and not args:
            return self.copy_of(recv, st)
        if nm == "count" and len(args) == 1:
            return ("MCALL", "count", recv, (a0,))
        if nm == "index" and len(args) == 1 and recv[0] == "NAMES":
            return ("NIDX", recv[1], a0)
        if recv[0] == "MAP":
            if nm == "items" and not args:
                return ("ZIP", ("NAMES", recv[1]), ("DESCR", recv[1]))
            if nm == "keys" and not args:
                return ("NAMES", recv[1])
            if nm == "values" and not args:
                return ("DESCR", recv[1])
        if recv[0] == "FIELDS" and nm == "keys" and not args:
            return ("NAMES", recv[1])
        if recv[0] == "NMAP" and nm in ("keys", "values") and not args:
            return ("NAMES", recv[1])
        if nm == "tolist" and recv[0] in ("NAMES", "DESCR", "LIST") and not args:
            return self.copy_of(recv, st)
        if nm == "nonzero" and recv[0] == "NAMEEQ" and not args:
            return ("WHERE", recv[1], recv[2])
        return ("MCALL", nm or "?", recv, tuple(args))

    def type_names(self, ty, st, depth=0):
        """the class names the second argument of isinstance() stands for, whichever way the tuple of classes is spelled (written in
        place, a local, a module-level constant bound once, a sum of such).  '?' stands for a part that was not resolved: the set
        is then only a lower bound"""
        if isinstance(ty, (ast.Tuple, ast.List)):
            out = set()
            for x in ty.elts:
                out |= self.type_names(x, st, depth)
            return out
        if isinstance(ty, ast.BinOp) and isinstance(ty.op, ast.Add):
            return self.type_names(ty.left, st, depth) | self.type_names(ty.right, st, depth)
        if isinstance(ty, ast.Name):
            v = st.lookup(ty.id) if st is not None else None
            if v is not None:
                return self._type_names_of(v, st, depth)
            return self._global_type_names(ty.id, st.module if st is not None else None, depth)
        if isinstance(ty, ast.Attribute):
            d = dotted_name(ty)
            return {d.split(".")[-1]} if d else {"?"}
        return {"?"}

    def _global_type_names(self, name, module, depth):
        if module is not None and depth < 4:
            k, e = _module_binding(module, name)
            if k == "const":
                return self.type_names(e, _St({}, module), depth + 1)
            if k == "unknown":
                return {"?"}
        return {name}

    def _type_names_of(self, v, st, depth):
        if v[0] == "TUPLE":
            out = set()
            for x in v[1:]:
                out |= self._type_names_of(x, st, depth)
            return out
        if v[0] == "G":
            if "." in v[1]:
                return {v[1].split(".")[-1]}
            return self._global_type_names(v[1], st.module if st is not None else None, depth)
        if v[0] == "LIST":
            segs = self.heap.get(v[1], [])
            if all(not s.loops and not s.guards and s.elem[0] != "TAINT" for s in segs):
                out = set()
                for s in segs:
                    out |= self._type_names_of(s.elem, st, depth)
                return out
        return {"?"}

    def _bindargs(self, fn, args, kws, st, module):
        a = fn.args
        if a.vararg or a.kwarg:
            return None
        params = [x.arg for x in a.posonlyargs + a.args]
        if len(args) > len(params):
            return None
        bound = dict(zip(params, args))
        for k, v in kws.items():
            if k not in params + [x.arg for x in a.kwonlyargs] or k in bound:
                return None
            bound[k] = v
        dst = _St({}, module)
        for p, dflt in zip(params[len(params) - len(a.defaults):], a.defaults):
            if p not in bound:
                bound[p] = self.ev(dflt, dst)
        for p, dflt in zip(a.kwonlyargs, a.kw_defaults):
            if p.arg not in bound and dflt is not None:
                bound[p.arg] = self.ev(dflt, dst)
        if any(p not in bound for p in params):
            return None
        return bound

    def inline(self, fn, module, args, kws, st, closure=None, qual=""):
        """execute a package helper (or a local def) on the caller's terms: an extracted helper is the code it replaced"""
        bound = self._bindargs(fn, args, kws, st, module)
        if bound is None:
            return ("CALL", fn.name, tuple(args))
        st2 = _St(bound, module, st.loops, st.guards, closure)
        n0 = len(st.guards)
        self.depth += 1
        self.stack.append(qual)
        self.frames.append([])
        try:
            status = self.block(fn.body, st2)
        finally:
            self.depth -= 1
            self.stack.pop()
            rets = self.frames.pop()
        if N_ in status:
            rets.append((("C", None), st2.guards))
        # a guard clause of the helper that raises also guards what the caller does next
        st.guards = st.guards + tuple(g for g in st2.guards[n0:] if g.kind == "reject")
        vals = []
        for v, _ in rets:
            if v not in vals:
                vals.append(v)
        if len(vals) == 1:
            return vals[0]
        if not vals:
            return ("X", "no-return")
        if len(rets) == 2:
            # `if isinstance(x, <classes>): return x` / `return [x]` (either order, either polarity): the helper is the scalar-wrapping
            # idiom with the two arms written as two returns; its value is the same normalised argument the if/else form gives
            (va, ga), (vb, gb) = rets
            ga, gb = tuple(ga[n0:]), tuple(gb[n0:])
            if len(ga) == 1 and len(gb) == 1 and ga[0].cond == gb[0].cond and ga[0].pol != gb[0].pol and ga[0].cond[0] == "ISINST":
                m = self._norm_merge(ga, va, vb, None)
                if m is not None:
                    return m
        return ("RETS",) + tuple((v, tuple(gs[n0:])) for v, gs in rets)


def _is_set_display(e, st):
    """the expression is a set made on the spot: set(...) / frozenset(...) (the builtins) or a set display"""
    if isinstance(e, ast.Set):
        return True
    return isinstance(e, ast.Call) and isinstance(e.func, ast.Name) and e.func.id in ("set", "frozenset") and st.lookup(e.func.id) is None and len(e.args) == 1


_NOT_LIST_CLASSES = frozenset(["str", "bytes", "str_", "bytes_", "unicode", "tuple", "ndarray", "set", "frozenset", "dict", "int", "float", "bool", "number", "Number"])
_MIRROR = {ast.Lt: ast.Gt, ast.Gt: ast.Lt, ast.LtE: ast.GtE, ast.GtE: ast.LtE}
_OPTEXT = {ast.Lt: "<", ast.Gt: ">", ast.LtE: "<=", ast.GtE: ">=", ast.Eq: "==", ast.NotEq: "!="}
_PURE_BUILTINS = {"len", "str", "repr", "int", "float", "bool", "sorted", "reversed", "min", "max", "sum", "any", "all", "isinstance", "type", "id", "hash",
                  "print", "format", "abs", "range", "zip", "enumerate", "map", "filter", "set", "frozenset", "list", "tuple", "dict", "getattr", "hasattr",
                  "ValueError", "TypeError", "KeyError", "IndexError", "RuntimeError", "Exception"}


def _module_binding(module, name):
    """how a module-level name is bound: ('const', expr) one plain assignment at module level and no other binding anywhere in the
    module; ('none', None) not bound in the module (a builtin); ('unknown', None) anything else"""
    cache = module.__dict__.setdefault("_c07_bindings", {})
    if name in cache:
        return cache[name]
    stores = 0
    for n in ast.walk(module.tree):
        if isinstance(n, ast.Name) and n.id == name and isinstance(n.ctx, (ast.Store, ast.Del)):
            stores += 1
        elif isinstance(n, (ast.FunctionDef, ast.AsyncFunctionDef, ast.ClassDef)) and n.name == name:
            stores += 2
        elif isinstance(n, (ast.Import, ast.ImportFrom)) and any((al.asname or al.name.split(".")[0]) == name for al in n.names):
            stores += 2
        elif isinstance(n, ast.arg) and n.arg == name:
            stores += 2
    top = [n for n in module.tree.body if isinstance(n, ast.Assign) and len(n.targets) == 1 and isinstance(n.targets[0], ast.Name) and n.targets[0].id == name]
    if stores == 0:
        r = ("none", None)
    elif stores == 1 and len(top) == 1:
        r = ("const", top[0].value)
    else:
        r = ("unknown", None)
    cache[name] = r
    return r


def _own_record(t):
    """(name, F[name]) / (name, F.fields[name][0]) with F a dtype: the field's own record in F, i.e. what the descr entry of that name
    says (name, type with byte order, sub-array shape) for a packed dtype.  It is the same term the descr entry gets, so the rules
    about the new field list read a list of such pairs like a list of descr entries."""
    if len(t) != 3:
        return t
    name, ty = t[1], t[2]
    F = None
    if ty[0] == "ITEM" and ty[1][0] in ("DT", "NPDT") and len(ty[1]) == 2 and ty[2] == name:
        F = ty[1]
    elif ty[0] == "ITEM" and ty[2] == ("C", 0) and ty[1][0] == "ITEM" and ty[1][1][0] == "FIELDS" and ty[1][2] == name:
        F = ty[1][1][1]
    if F is None or name[0] in ("C", "X", "G"):
        return t
    if name[0] == "NAME" and len(name) == 3 and name[1] == F:
        return ("ENTRY", F, name[2])
    return ("ENTRY", F, ("N", name))


def _const_int(t):
    if t[0] == "C" and isinstance(t[1], int) and not isinstance(t[1], bool):
        return t[1]
    if t[0] == "UN" and t[1] == "USub" and t[2][0] == "C" and isinstance(t[2][1], int) and not isinstance(t[2][1], bool):
        return -t[2][1]
    return None


def _posq_test(x, y, o):
    """`IMAP.get(name, d) <o> y` as a membership test of name: True 'found', False 'not found', None when it is not one"""
    d = x[3]
    if d == ("C", None):
        if y == ("C", None) and isinstance(o, (ast.Is, ast.IsNot, ast.Eq, ast.NotEq)):
            return isinstance(o, (ast.IsNot, ast.NotEq))
        return None
    dv, yv = _const_int(d), _const_int(y)
    if dv is None or yv is None or dv >= 0:
        return None
    # the sentinel is a negative number, positions are 0, 1, ...
    if yv == dv and isinstance(o, (ast.Eq, ast.NotEq)):
        return isinstance(o, ast.NotEq)
    if isinstance(o, ast.GtE) and dv < yv <= 0 or isinstance(o, ast.Gt) and dv <= yv < 0:
        return True
    if isinstance(o, ast.Lt) and dv < yv <= 0 or isinstance(o, ast.LtE) and dv <= yv < 0:
        return False
    return None


def _is_position(v):
    """the term is the position of a field looked up by name (0 is a valid position), possibly merged with a not-found sentinel"""
    if not isinstance(v, tuple) or not v:
        return False
    if v[0] in ("POSQ", "NIDX", "WIDX"):
        return True
    if v[0] == "FIRST":
        return v[1][0] == "WIDX"
    if v[0] in ("PHI", "OPT", "DFLT"):
        return any(_is_position(x) for x in v[1:] if isinstance(x, tuple))
    return False


# --------------------------------------------------------------------------------------------------------------------
# reading the evaluator's result
# --------------------------------------------------------------------------------------------------------------------
_IT = {}


def interp(repo, fi):
    it = _IT.get(fi.qualname)
    if it is None or it.root is not fi:
        it = _IT[fi.qualname] = _Interp(repo, fi).run()
    return it


def _filters(guards):
    """the guards that decide whether an element is taken (a guard whose failure raises does not skip anything)"""
    return [g for g in guards if g.kind != "reject"]


def _in_order_over(lp, F):
    """the loop visits every field of dtype F exactly once, in the order of the dtype"""
    s = lp.src
    if lp.broken or lp.unordered:
        return False
    if s[0] in ("DESCR", "NAMES", "MAP", "RANGE"):
        return s[1] == F
    if s[0] == "ZIP":
        return all(x[0] in ("DESCR", "NAMES", "RANGE") and x[1] == F for x in s[1:])
    if s[0] == "ENUM":
        return s[1][0] in ("DESCR", "NAMES") and s[1][1] == F
    return False


def _whole_of(seg):
    """dtype F when the segment is `every entry of F, unmodified, in order` (no filter), else None"""
    if len(seg.loops) != 1 or _filters(seg.guards) or seg.elem[0] != "ENTRY":
        return None
    F = seg.elem[1]
    return F if _in_order_over(seg.loops[0], F) and seg.elem[2] == ("K", seg.loops[0].id) else None


def _where(fi, e=None):
    return fi.where(e.site) if e is not None and e.site is not None else fi.where()


def _tri(good, bad):
    """True when the construct was found as required, False when it was found and contradicts, None when it was not found"""
    return True if good else (False if bad else None)


def _returned_allocs(it, fi, eng):
    """(per-return effect tags, {id(return stmt): return event}, allocation events that are returned)"""
    rets = effects.return_tags_per_return(eng, fi, {})
    byret = {id(e.node): e for e in it.of("return") if e.node is not None}
    allocs = {e.d["tag"]: e for e in it.of("alloc")}
    out = []
    for n, tags in rets:
        e = byret.get(id(n.ast))
        if e is not None and e.d["value"] in allocs and allocs[e.d["value"]] not in out:
            out.append(allocs[e.d["value"]])
    return rets, byret, out


def _shape_verdict(shp, inputs):
    if shp is None:
        return None
    if shp[0] == "SHAPE" and shp[1] in inputs:
        return True
    if shp[0] == "C" or any(isinstance(x, tuple) and x and x[0] in ("SIZE", "LEN", "NF") for x in _subterms(shp)):
        return False
    if shp[0] in ("ITEM", "SLICE") and shp[1][0] == "SHAPE":
        return False
    return None


def _copies(it):
    """the places where the fields of one array are copied into another by name: calls of copy_fields, and the same thing written
    out (in place, or in a private helper the evaluator followed): a loop over ALL the names of the source's dtype, in which
    `<allocation>[name] = <source>[name]` runs for every name (or for every name the destination has, as copy_fields does).
    Each is an event with a_arr1 = source, a_arr2 = destination, under the tests and loops around the whole copy."""
    got = getattr(it, "_copies", None)
    if got is not None:
        return got
    out = list(it.of("copy_fields"))
    for e in it.of("store"):
        b, k, v = e.d["base"], e.d["key"], e.d["value"]
        if b[0] != "ALLOC" or k[0] != "NAME" or k[2][0] != "K" or k[1][0] != "DT":
            continue
        F, S = k[1], k[1][1]
        lp = [l for l in e.loops if l.id == k[2][1]]
        if not lp or not _in_order_over(lp[0], F) or v != ("ITEM", S, k):
            continue
        lp = lp[0]
        inside = set(map(id, ast.walk(lp.node))) if lp.node is not None else None
        around, skips = [], False
        for g in e.guards:
            if g.cond[0] in _OPAQUE_CONDS:
                dep = inside is None or g.node is None or id(g.node) in inside
            else:
                dep = _mentions_loop(g.cond, lp.id)
            if not dep:
                around.append(g)
            elif g.kind != "reject" and not (g.cond == ("IN", k, ("NAMES", ("DT", b))) and g.pol):
                skips = True        # some names are left out
        if skips:
            continue
        c = _Event()
        c.kind, c.d, c.loops, c.guards, c.seq, c.site, c.depth, c.node = "copy_fields", {"a_arr1": S, "a_arr2": b}, tuple(l for l in e.loops if l is not lp), \
            tuple(around), e.seq, e.site, e.depth, e.node
        out.append(c)
    out.sort(key=lambda c: c.seq)
    it._copies = out
    return out


_CONST_SLICE = frozenset("0123456789-: ")
_STR_EDITS = ("replace", "lstrip", "rstrip", "strip", "lower", "upper", "swapcase", "translate")


def _entry_verdict(el, is_input, added):
    """R07.entry: one element of the list handed to the allocation as dtype.  A retained field keeps its type, byte order and
    sub-array shape exactly when the entry is the field's own record in the dtype.  (True, '') the entry is an unmodified entry
    of an input's dtype.descr (or of the added descriptor), or (name, dtype[name]) / (name, dtype.fields[name][0]);
    (False, why) the entry is rebuilt from something that does not carry that record for every array: a field VIEW arr[name]
    (its .dtype is the element type without the sub-array shape; its .shape is the array's shape followed by the sub-array
    shape, so a fixed slice of it is the sub-array shape for one dimensionality only), a descr entry cut to (name, type), or a
    type whose byte-order character is edited; (None, what) anything else"""
    def good_F(F):
        return isinstance(F, tuple) and len(F) == 2 and (F[0] == "DT" and is_input(F[1]) or F in added)

    def view(t):
        """arr[<name>]: a field view of an input array (an integer subscript is a record, not a field)"""
        return isinstance(t, tuple) and len(t) == 3 and t[0] == "ITEM" and isinstance(t[1], tuple) and is_input(t[1]) and \
            not (t[2][0] == "C" and not isinstance(t[2][1], (str, bytes))) and t[2][0] not in ("IDX", "IDXOF")
    if not isinstance(el, tuple) or not el:
        return None, _show(el)
    if el[0] == "ENTRY":
        return (True, "") if good_F(el[1]) else (None, "an entry of %s" % _show(el[1]))
    if el[0] == "SLICE" and el[1][0] == "ENTRY" and el[2].replace(" ", "") in (":2", "0:2", ":-1"):
        return False, "`%s` cuts the descr entry to (name, type): the sub-array shape of the field is dropped" % _show(el)
    for x in _subterms(el):
        if isinstance(x, tuple) and len(x) == 4 and x[0] == "MCALL" and (x[1] == "newbyteorder" or x[1] in _STR_EDITS and
                                any(y[0] == "ENTRY" or (y[0] == "ATTR" and y[-1] in ("str", "byteorder")) for y in _subterms(x[2]) if isinstance(y, tuple) and y)):
            return False, "`%s` edits the type of the field (.%s()): the byte order / type of a retained field is not the input's" % (_show(el), x[1])
    if el[0] != "TUPLE" or len(el) < 3:
        return None, _show(el)
    comps = el[1:]
    subs = [x for c in comps[1:] for x in _subterms(c) if isinstance(x, tuple) and x and isinstance(x[0], str)]
    for x in subs:
        if x[0] == "SHAPE" and view(x[1]):
            whole = any(c == x for c in comps[1:])
            cut = [c for c in subs if c[0] in ("SLICE", "ITEM") and len(c) == 3 and c[1] == x]
            const = [c for c in cut if c[0] == "ITEM" and c[2][0] == "C" or c[0] == "SLICE" and set(c[2]) <= _CONST_SLICE]
            if whole or const:
                return False, ("`%s`: the shape component is %s of the field view %s, which is the ARRAY's shape followed by the field's sub-array shape; "
                               "it is the sub-array shape for one array dimensionality only (0-d / 2-d arrays get a different field shape)"
                               % (_show(el), "the shape" if whole else "a fixed slice `[%s]`" % _show(const[0][2]), _show(x[1])))
            return None, _show(el)
    if len(comps) == 2:
        name, ty = comps
        for x in [ty] + [y for y in _subterms(ty) if isinstance(y, tuple) and y]:
            if x[0] == "DT" and view(x[1]):
                return False, ("`%s`: the type is taken from the field view %s, whose dtype is the element type WITHOUT the field's sub-array shape "
                               "(and the entry has no shape component): sub-array fields lose their shape" % (_show(el), _show(x[1])))
        if ty[0] == "ITEM" and ty[1][0] == "ENTRY" and ty[2] == ("C", 1):
            return False, "`%s` keeps only (name, type) of the descr entry: the sub-array shape of the field (the entry's third component) is dropped" % _show(el)
        # (name, dtype[name]) / (name, dtype.fields[name][0]): the field's own dtype, sub-array shape and byte order included
        key = ty[2] if ty[0] == "ITEM" and good_F(ty[1]) else \
            (ty[1][2] if ty[0] == "ITEM" and ty[2] == ("C", 0) and ty[1][0] == "ITEM" and ty[1][1][0] == "FIELDS" and good_F(ty[1][1][1]) else None)
        if key is not None and key == name:
            return True, ""
    return None, _show(el)


def common(chk, repo, eng, fi):
    q = fi.qualname
    it = interp(repo, fi)
    combine_ = fi.name == "combine_fields"
    if combine_:
        arrlist = ("P", fi.params[0])
        inputs = [("ITEM", arrlist, ("C", k)) for k in (0, -1)]
    else:
        inputs = [("P", fi.params[0])]
    rets, byret, allocs = _returned_allocs(it, fi, eng)
    fresh = [(n, byret.get(id(n.ast))) for n, tags in rets if not any(t[0] == "P" for t in tags)]
    # (a) allocation: what is returned is one zeros(<input>.shape, dtype=<descr>) allocation
    vals = [e.d["value"] if e is not None else None for _, e in fresh]
    ok = None
    if it.failed is None and fresh and all(v is not None and v[0] == "ALLOC" for v in vals):
        ok = True
    chk.ob("R07.alloc", q + "::single-allocation", ok, fi.where(),
           "the result is allocated once with zeros(shape, dtype=descr)%s" % ("" if ok else " (no allocation call was found for the returned value: %s)"
                                                                              % (it.failed or [_show(v) for v in vals if v is not None])))
    for z in allocs:
        shp = z.d["shape"]
        ok = _shape_verdict(shp, inputs)
        chk.ob("R07.alloc", q + "::shape-from-input", ok, _where(fi, z),
               "the result's shape is the input's .shape (found `%s`): %s" % (_show(shp), "ok" if ok else
                                                                             "a result built from .size (or anything else) is not the same shape for 0-d/2-d inputs"))
        chk.ob("R07.alloc", q + "::zero-filled", ALLOCATORS[z.d["fn"]], _where(fi, z), "new fields start zero-filled (allocated with %s)" % z.d["fn"])
    tags_ = [z.d["tag"] for z in allocs]

    def is_input(t):
        if combine_:
            return (t[0] == "ELEM" and (t[1] == arrlist or t[1][0] == "SLICE" and t[1][1] == arrlist)) or (t[0] == "ITEM" and t[1] == arrlist)
        return t == inputs[0]
    # (b) every entry of the new descriptor carries the field's type, byte order and sub-array shape as the dtype records them
    added = [("NPDT", ("P", p)) for p in fi.params[1:]]
    for z in allocs[:1]:
        segs = z.d["segs"]
        vs = [_entry_verdict(sg.elem, is_input, added) for sg in segs] if segs else [(None, "the new descr is not a list built here")]
        badv = [why for v, why in vs if v is False]
        ok = False if badv else (True if all(v is True for v, _ in vs) and it.failed is None else None)
        chk.ob("R07.entry", q + "::entries-carry-type-and-subshape", ok, _where(fi, z),
               "every entry of the new descr is the field's own record in the dtype (the unmodified descr entry, or (name, dtype[name])): same type, "
               "byte order and sub-array shape for arrays of every dimensionality%s" % (": " + badv[0] if badv else ("" if ok else " (not recognised: %s)" % [w for v, w in vs if v is None][:1])))
    # (d) data copied by copy_fields(input, new) after the allocation
    cps = _copies(it)
    chk.ob("R07.copy", q + "::copy-call-present", _tri(len(cps) >= 1, it.failed is None), fi.where(), "data are copied with copy_fields (or field by field, by name, for every field)")
    for c in cps:
        a0, a1 = c.d.get("a_arr1"), c.d.get("a_arr2")
        chk.ob("R07.copy", q + "::copy-roles", is_input(a0) and a1 in tags_, _where(fi, c),
               "copy_fields(source=%s, destination=%s): source is the input, destination the newly allocated array" % (_show(a0), _show(a1)))
    if combine_:
        # every array of the list is a source: one loop over the list, or the first array plus a loop over the rest
        cover = set()
        for c in cps:
            a0 = c.d.get("a_arr1")
            if c.d.get("a_arr2") not in tags_ or _filters([g for g in c.guards if g not in (allocs[0].guards if allocs else ())]):
                continue
            if a0[0] == "ELEM" and any(lp.id == a0[2] and not lp.broken for lp in c.loops):
                if a0[1] == arrlist:
                    cover.add("all")
                elif a0[1] == ("SLICE", arrlist, "1:"):
                    cover.add("rest")
            elif a0 == ("ITEM", arrlist, ("C", 0)) and not c.loops:
                cover.add("first")
        chk.ob("R07.copy", q + "::copies-every-array", "all" in cover or {"first", "rest"} <= cover, fi.where(), "copy_fields runs for every array of the list")
    # (f) freshness of the returned value
    for n, tags in rets:
        p = sorted({t[1] for t in tags if t[0] == "P"})
        chk.ob("R07.fresh", q + "::returns-new-array::" + norm(n.ast.value), not p, fi.where(n.ast),
               "`return %s` is a new array%s" % (norm(n.ast.value), "" if not p else ": it can be (a view of) the argument %s" % p))
    # returned value is the allocated array
    for n, e in fresh:
        v = e.d["value"] if e is not None else None
        good = v is not None and v[0] == "ALLOC"
        bad = v is not None and not good and any(x[0] == "ALLOC" for x in _subterms(v) if isinstance(x, tuple) and x) and v[0] in ("ITEM", "SLICE")
        chk.ob("R07.fresh", q + "::returns-the-allocation", _tri(good, bad), fi.where(n.ast),
               "the allocated array is what is returned (returned: %s)" % (_show(v) if v is not None else it.failed))
    _lookup_rule(chk, fi, it)
    return it, (allocs[0] if allocs else None)


def _raises(it):
    return it.of("raise")


def _g(e, pred):
    return any(pred(g) for g in e.guards)


def _no_field_left(it, alloc):
    dt = alloc.d["dtype"] if alloc is not None else None
    if dt is None:
        return False
    strict_only = lambda e: _g(e, lambda g: g.cond == ("TRUE", ("P", "strict")) and g.pol)  # noqa: E731
    if any(_g(e, lambda g: g.cond == ("TRUE", dt) and not g.pol) and not strict_only(e) for e in _raises(it)):
        return True
    # the same test written on an equal count (a counter, any(), a second list over the same selection)
    return alloc.d["segs"] is not None and any(_rejects_empty(it, alloc, e, None) for e in _raises(it))


def _missing_strict(it, fi, F, pname, strict_name="strict", skip=()):
    """a raise reached for a requested name that is not a field of F, under `strict` (skip: raise events not to count)"""
    strict = ("TRUE", ("P", strict_name))

    def missing_list(t):
        """the list holds the requested names that are not fields of F: [n for n in names if n not in fields]"""
        if t[0] != "LIST":
            return False
        for s in it.heap.get(t[1], []):
            for h in s.guards:
                if h.cond[0] == "IN" and h.cond[2] == ("NAMES", F) and not h.pol and h.cond[1] == s.elem and s.elem[0] == "ELEM" and _param_of(s.elem[1]) == pname:
                    return True
        return False

    def made_under_strict(t, e):
        """the list was made in the arm of a test of `strict` alone (the only test around its creation that is not also around the
        raise e is `strict`, true): in strict mode the arm runs, so the list is the value the merged variable has"""
        ctx = it.listctx.get(t[1])
        if ctx is None:
            return False
        own = [g for g in ctx[1] if not any(g is x for x in e.guards)]
        return len(own) == 1 and own[0].cond == strict and own[0].pol and own[0].kind == "filter"
    for e in _raises(it):
        if any(e is x for x in skip):
            continue
        under = _g(e, lambda g: g.cond == strict and g.pol)
        for g in e.guards:
            c = g.cond
            if under and c[0] == "IN" and c[2] == ("NAMES", F) and not g.pol and c[1][0] == "ELEM" and _param_of(c[1][1]) == pname \
                    and any(lp.id == c[1][2] for lp in e.loops):
                return True
            # `missing = [n for n in names if n not in fields]; if strict and missing: raise`
            if under and c[0] == "TRUE" and g.pol and missing_list(c[1]):
                return True
            # `missing = []; if strict: missing = [n for n in names if n not in fields]` then `if missing: raise`: the tested value is
            # the merge of the two arms of `if strict`; the arm taken in strict mode made the list of missing names
            if c[0] == "TRUE" and g.pol and c[1][0] == "PHI" and len(c[1]) == 3 and \
                    any(missing_list(a) and made_under_strict(a, e) for a in c[1][1:]):
                return True
    return False


# -- which requests a strict-mode raise rejects, as a quantifier over the requested names -----------------------------------------
# The clause: in strict mode a request that names a missing field is rejected, i.e. the raise is reached exactly when SOME requested
# name is not a field.  A test over all the names at once (np.isin / in1d mask, a list of per-name tests, a list or a count of the
# missing / found names) is read as ('EX' | 'ALL', p): it holds when some / every requested name is (p) or is not (not p) a field.
# ('EX', False) is the documented condition; the three others are positively different conditions (a request mixing existing and
# missing names passes `every name is missing`, an all-missing request passes `some name is a field`, ...).

def _name_mask(it, t, F, pname, depth=0):
    """p when t is a truth value per requested name: element i says `name i is a field of F` (p True) / `is not` (p False)"""
    if depth > 6 or not (isinstance(t, tuple) and t):
        return None
    h = t[0]
    if h == "CALL" and t[1] in ("isin", "in1d") and len(t[2]) == 2 and _param_of(t[2][0]) == pname and _members(t[2][1]) == ("NAMES", F):
        return True
    if (h == "UN" and t[1] == "Invert") or (h == "CALL" and t[1] == "logical_not" and len(t[2]) == 1):
        p = _name_mask(it, t[2] if h == "UN" else t[2][0], F, pname, depth + 1)
        return None if p is None else not p
    if h == "NORM" and t[2] == "array" and len(t) == 4:
        return _name_mask(it, t[1], F, pname, depth + 1)
    if h == "LIST":
        segs = it.heap.get(t[1], [])
        if len(segs) == 1 and len(segs[0].loops) == 1 and not _filters(segs[0].guards):
            lp, el = segs[0].loops[0], segs[0].elem
            if not lp.broken and _param_of(lp.src) == pname and el[0] == "COND" and el[1][0] == "IN" and el[1][2] == ("NAMES", F) and \
                    el[1][1] == ("ELEM", lp.src, lp.id):
                return bool(el[2])
    return None


def _name_selection(it, t, F, pname, strict=None, depth=0):
    """p when t holds the requested names that are (p True) / are not (p False) fields of F, or their positions:
    request[mask], np.flatnonzero(mask), np.where(mask)[0], [n for n in request if n (not) in fields]"""
    if depth > 6 or not (isinstance(t, tuple) and t):
        return None
    h = t[0]
    if h == "ITEM" and _param_of(t[1]) == pname:
        return _name_mask(it, t[2], F, pname)
    if h == "ITEM" and t[2] == ("C", 0) and t[1][0] == "CALL" and t[1][1] in ("where", "nonzero") and len(t[1][2]) == 1:
        return _name_mask(it, t[1][2][0], F, pname)
    if h == "CALL" and t[1] == "flatnonzero" and len(t[2]) == 1:
        return _name_mask(it, t[2][0], F, pname)
    if h == "NORM" and t[2] == "array" and len(t) == 4:
        return _name_selection(it, t[1], F, pname, strict, depth + 1)
    if h == "LIST":
        segs = it.heap.get(t[1], [])
        if len(segs) == 1 and len(segs[0].loops) == 1:
            lp, el = segs[0].loops[0], segs[0].elem
            fl = [g for g in _filters(segs[0].guards) if not (g.cond == strict and g.pol)]
            if not lp.broken and _param_of(lp.src) == pname and el == ("ELEM", lp.src, lp.id) and len(fl) == 1 and \
                    fl[0].cond == ("IN", el, ("NAMES", F)):
                return bool(fl[0].pol)
    return None


def _name_count(it, t, F, pname, strict=None):
    """p when t is the number of requested names that are (p True) / are not (p False) fields of F"""
    if not (isinstance(t, tuple) and t):
        return None
    if t[0] == "CALL" and t[1] in ("sum", "count_nonzero") and len(t[2]) == 1:
        return _name_mask(it, t[2][0], F, pname)
    if t[0] == "MCALL" and t[1] == "sum" and len(t) == 4 and not t[3]:
        return _name_mask(it, t[2], F, pname)
    if t[0] in ("LEN", "SIZE") and len(t) == 2:
        return _name_selection(it, t[1], F, pname, strict)
    return None


_QTEXT = {("EX", False): "some requested name is not a field", ("ALL", False): "every requested name is missing (none is a field)",
          ("EX", True): "some requested name is a field", ("ALL", True): "every requested name is a field"}


def _strict_quantifier(it, e, g, F, pname, strict):
    """('EX'|'ALL', p) when guard g of the raise e holds exactly when some / every requested name is (p) / is not (not p) a field"""
    c, q = g.cond, None
    if c[0] == "IN" and c[2] == ("NAMES", F) and c[1][0] == "ELEM" and _param_of(c[1][1]) == pname:
        # the raise sits in a walk over the whole request: it is reached when some name passes the per-name test
        lp = [x for x in e.loops if x.id == c[1][2]]
        return ("EX", bool(g.pol)) if lp and not lp[0].broken and _param_of(lp[0].src) == pname else None
    if c[0] == "TRUE":
        v = c[1]
        if v[0] == "CALL" and v[1] in ("any", "all") and len(v[2]) == 1:
            p = _name_mask(it, v[2][0], F, pname)
            q = None if p is None else ("EX" if v[1] == "any" else "ALL", p)
        elif v[0] == "MCALL" and v[1] in ("any", "all") and len(v) == 4 and not v[3]:
            p = _name_mask(it, v[2], F, pname)
            q = None if p is None else ("EX" if v[1] == "any" else "ALL", p)
        else:
            p = _name_count(it, v, F, pname, strict)
            if p is None:
                p = _name_selection(it, v, F, pname, strict)
            q = None if p is None else ("EX", p)            # a non-zero count / a non-empty selection
    elif c[0] == "EQ":
        for x, y in ((c[1], c[2]), (c[2], c[1])):
            p = _name_count(it, x, F, pname, strict)
            if p is None:
                continue
            if y == ("C", 0):
                q = ("ALL", not p)
            elif y[0] in ("LEN", "SIZE") and len(y) == 2 and _param_of(y[1]) == pname:
                q = ("ALL", p)
    if q is None:
        return None
    return q if g.pol else ("ALL" if q[0] == "EX" else "EX", not q[1])


def _strict_missing_verdict(it, fi, F, pname, strict_name="strict"):
    """(verdict, raise event, text).  True: some strict-mode raise is reached whenever a requested name is not a field of F;
    False: the strict-mode raises are all positively identified and each is confined to a different condition on the names;
    None: a strict-mode raise is controlled by a test that is not recognised (or there is none)"""
    strict = ("TRUE", ("P", strict_name))
    correct, wrong, unknown = [], [], []
    for e in _raises(it):
        if not _g(e, lambda g: g.cond == strict and g.pol):
            continue
        # a guard whose other outcome raises is an earlier rejection: the requests it turns away are rejected all the same
        rest = [g for g in e.guards if not (g.cond == strict and g.pol) and g.kind != "reject"]
        qs = [_strict_quantifier(it, e, g, F, pname, strict) for g in rest]
        off = [(g, q) for g, q in zip(rest, qs) if q is not None and q != ("EX", False)]
        if off:
            wrong.append((e,) + off[0])       # a conjunction is at most as wide as any of its conjuncts
        elif not rest or any(q is None for q in qs):
            unknown.append(e)
        else:
            correct.append(e)
    if correct or _missing_strict(it, fi, F, pname, strict_name, skip=[w[0] for w in wrong]):
        return True, None, ""
    if unknown or not wrong:
        return None, None, " (not recognised: %s)" % ([list(e.guards) for e in unknown][:1] or it.failed or "no raise under `%s`" % strict_name)
    e, g, q = wrong[0]
    return False, e, ": the raise at line %s is reached only when %s (`%s`), not whenever %s: a request that names both existing and " \
        "missing fields, or only missing ones, can pass" % (getattr(e.node, "lineno", "?"), _QTEXT[q], norm(g.node.test)[:80] if isinstance(g.node, (ast.If, ast.IfExp, ast.While)) else _show(g.cond)[:80], _QTEXT[("EX", False)])


def _deps(it, t, seen=None):
    """what a term is computed from: ('P', name) the caller's argument name, ('F', name) the field list (dtype) of that argument,
    'opaque' something the evaluator does not model (the term may then depend on anything)"""
    out = set()
    seen = set() if seen is None else seen

    def of_guards(gs):
        for g in gs:
            walk(g.cond)

    def of_segs(segs):
        for sg in segs:
            for lp in sg.loops:
                walk(lp.src)
            of_guards(sg.guards)
            walk(sg.elem)

    def walk(x):
        if isinstance(x, _Loop):
            walk(x.src)
            return
        if isinstance(x, _Guard):
            walk(x.cond)
            return
        if not isinstance(x, tuple) or not x:
            return
        h = x[0]
        if not isinstance(h, str):
            for y in x:
                walk(y)
            return
        if h == "P" and len(x) == 2:
            out.add(("P", x[1]))
        elif h in ("DT",) and len(x) == 2 and isinstance(x[1], tuple) and x[1][:1] == ("P",):
            out.add(("F", x[1][1]))
        elif h in ("LIST", "DICT"):
            if ("H", x[1]) not in seen:
                seen.add(("H", x[1]))
                of_segs(it.heap.get(x[1], []))
        elif h == "CNT":
            if ("CNT", x[1]) not in seen:
                seen.add(("CNT", x[1]))
                for e in it.of("incr"):
                    if e.d["name"] == x[1]:
                        of_guards(e.guards)
                        for lp in e.loops:
                            walk(lp.src)
                        walk(e.d["value"])
        elif h in ("X", "EXISTS", "SOME", "NOTALL", "TAINT"):
            out.add("opaque")
        elif h == "ALLOC":
            if ("A", x[1]) not in seen:
                seen.add(("A", x[1]))
                for e in it.of("alloc"):
                    if e.d["tag"] == x:
                        walk(e.d["dtype"])
                        walk(e.d["shape"])
        elif h in ("K", "IDXOF") and len(x) == 2 and x[1] in it.loops:
            if ("L", x[1]) not in seen:
                seen.add(("L", x[1]))
                walk(it.loops[x[1]].src)
        elif h in ("C", "G", "MAYRET", "MAYBREAK", "MAYSKIP"):
            return
        else:
            if h in ("ELEM", "IDX") and isinstance(x[-1], int) and x[-1] in it.loops and ("L", x[-1]) not in seen:
                seen.add(("L", x[-1]))
                walk(it.loops[x[-1]].src)
            for y in x[1:]:
                walk(y)
    walk(t)
    return out


def _event_deps(it, e):
    d = set()
    for g in e.guards:
        d |= _deps(it, g.cond)
    for lp in e.loops:
        d |= _deps(it, lp.src)
    return d


def _canon(t, ids):
    """the term with the loops of `ids` named by their position (two selections written with different loops compare equal)"""
    if isinstance(t, tuple):
        if t and t[0] in ("C", "ALLOC", "LIST", "DICT"):
            return t
        return tuple(_canon(x, ids) for x in t)
    if isinstance(t, int) and not isinstance(t, bool) and t in ids:
        return "L%d" % ids[t]
    return t


def _selection(loops, guards, extra=()):
    """(what is walked, the tests an iteration must pass) in canonical form, or None when a loop may stop early"""
    if any(lp.broken for lp in loops):
        return None
    ids = {lp.id: i for i, lp in enumerate(loops)}
    srcs = tuple(_canon(("NAMES", lp.src[1]) if lp.src[0] in ("DESCR", "NAMES", "MAP", "RANGE") else lp.src, ids) for lp in loops)

    def cn(c):
        # the name of the visited entry is the visited name
        return _canon(c, ids)
    return srcs, frozenset((repr(cn(c)), bool(p)) for c, p in [(g.cond, g.pol) for g in guards] + list(extra))


def _same_count(it, t, pol, segs, ctx):
    """the guard `t holds with polarity pol` says that the selection `segs` (the new field list) is empty: t is a list / a count /
    an any() over the same iterations under the same tests"""
    want = [_selection(sg.loops, _filters(sg.guards)) for sg in segs]
    if any(w is None for w in want):
        return False

    def own(gs):
        return [g for g in _filters(gs) if not any(g is h for h in ctx)]
    got = None
    if t[0] == "TRUE" and not pol:
        v = t[1]
        fn = None
        if v[0] == "CALL" and v[1] in ("any", "sum", "len", "bool", "count_nonzero") and len(v[2]) == 1:
            fn, v = v[1], v[2][0]
        if v[0] == "LIST":
            got = []
            for sg in it.heap.get(v[1], []):
                extra = ()
                if fn in ("any", "count_nonzero") or (fn == "sum" and sg.elem[0] == "COND"):
                    if sg.elem[0] != "COND":
                        return False
                    extra = ((sg.elem[1], sg.elem[2]),)
                elif fn == "sum" and not (sg.elem[0] == "C" and sg.elem[1] in (1, True)):
                    return False
                got.append(_selection(sg.loops, _filters(sg.guards), extra))
    elif t[0] == "EQ" and pol and ("C", 0) in t[1:]:
        c = [x for x in t[1:] if x[0] == "CNT"]
        if len(c) == 1:
            incs = [e for e in it.of("incr") if e.d["name"] == c[0][1]]
            if incs and all(e.d["op"] == "Add" and e.d["value"] == ("C", 1) for e in incs) and incs[0].d["before"] == ("C", 0):
                got = [_selection(e.loops, own(e.guards)) for e in incs]
    if got is None or any(g is None for g in got):
        return False
    return sorted(map(repr, got)) == sorted(map(repr, want))


def _can_be_empty(it, segs, arr, pname):
    """every part of the new field list is a selection that depends on the request (it can select nothing)"""
    if not segs:
        return False
    for sg in segs:
        if sg.elem[0] == "TAINT":
            return False
        d = set()
        for g in _filters(sg.guards):
            d |= _deps(it, g.cond)
        for lp in sg.loops:
            d |= _deps(it, lp.src)
        if ("P", pname) not in d or "opaque" in d:
            return False
    return True


def _rejects_empty(it, alloc, e, strict):
    """the raise e is reached whenever the allocation would be reached with an empty field list: one of its guards says `the new
    field list is empty` (tested on the list itself or on an equal count) and every other guard holds on the way to the allocation too"""
    dt, segs = alloc.d["dtype"], alloc.d["segs"]
    ctx = tuple(alloc.guards)
    for g in e.guards:
        if g.cond == ("TRUE", dt) and not g.pol or _same_count(it, g.cond, g.pol, segs, tuple(e.guards) + ctx):
            rest = [h for h in e.guards if h is not g and h.kind != "reject"]
            if all(any(h is k or (h.cond == k.cond and h.pol == k.pol) for k in ctx) for h in rest) and not e.loops:
                return True
    return False


def _empty_result_rejected(chk, fi, it, alloc, pname, what):
    """R07.nonempty: whether the selection is empty depends on BOTH the request and the array's field names (a non-empty request can
    match no field; a removal list can cover every field).  So on every path that reaches the allocation some raise must be
    controlled by a test that depends on both.  True: the raise tests the new field list itself; False: no raise that can be
    reached (outside strict-only code) depends on both, so the empty result cannot be rejected for all inputs; None otherwise"""
    q = fi.qualname
    arr = fi.params[0]
    segs = alloc.d["segs"] if alloc is not None else None
    strict = "strict" if "strict" in fi.params else None
    ok, why = None, ""
    if it.failed is not None or segs is None:
        why = it.failed or "the new field list was not recognised"
    elif any(_rejects_empty(it, alloc, e, strict) for e in _raises(it)):
        ok = True
    elif not _can_be_empty(it, segs, arr, pname):
        why = "the new field list is not recognised as a selection by the request: %s" % _seg_text(segs)
    else:
        cands, seen = [], []
        for e in _raises(it):
            if strict is not None and _g(e, lambda g: g.cond == ("TRUE", ("P", strict)) and g.pol):
                seen.append("line %s: only in strict mode" % getattr(e.node, "lineno", "?"))
                continue
            d = _event_deps(it, e)
            if "opaque" in d or (("F", arr) in d and ("P", pname) in d):
                cands.append(e)
            else:
                seen.append("line %s: controlled by %s, which does not depend on %s" % (
                    getattr(e.node, "lineno", "?"), [g for g in e.guards] or "nothing",
                    "the array's field names" if ("F", arr) not in d else "the request"))
        hidden = [o for o in it.opaque if {("F", arr), ("P", pname)} <= set().union(*[_deps(it, a) for a in o[1]] or [set()])
                  or any("opaque" in _deps(it, a) for a in o[1])]
        if cands or hidden or it.asserts:
            why = "a rejection in a form that is not recognised: %s" % ([getattr(e.node, "lineno", "?") for e in cands] or [o[0] for o in hidden] or "assert")
        else:
            ok = False
            why = ("whether %s depends on the request AND on the array's field names, but no raise reachable%s is controlled by a test of both "
                   "(%s): a request that %s is not rejected and a zero-field array is returned"
                   % (what, " with strict=False" if strict else "", "; ".join(seen) or "there is no raise", "matches no field" if strict else "leaves no field"))
    chk.ob("R07.nonempty", q + "::empty-selection-rejected", ok, _where(fi, alloc) if alloc is not None else fi.where(),
           "a request that leaves no field is rejected on every path to the allocation%s" % (": " + why if why else ""))


def _lookup_rule(chk, fi, it):
    """R07.lookup: the position of a field (dict name->index .get, names.index, np.where(names == name)[0]) is a number that is 0 for
    the first field; deciding found / not found by its truth value (or `> 0`) treats the first field as missing"""
    q = fi.qualname
    bad = it.postests
    ok = False if bad else (True if it.failed is None else None)
    msg = "no field position is used as a found/not-found flag"
    if bad:
        v, how, site = bad[0]
        pos = [x for x in _subterms(v) if isinstance(x, tuple) and x and x[0] in ("POSQ", "NIDX", "WIDX")]
        kind = {"POSQ": "<dict name -> position>.get(%s)", "NIDX": "<names>.index(%s)", "WIDX": "where(<names> == %s)"}
        if pos:
            inner = pos[0][2]
            while isinstance(inner, tuple) and inner and inner[0] == "ELEM":
                inner = inner[1]
            v = ("X:" + kind[pos[0][0]] % ("<element of %s>" % _param_of(inner) if _param_of(inner) else "<name>"),)
        msg = ("the position of a field looked up by name, `%s`, is %s to decide whether the field exists: position 0 (the array's first field) "
               "is a valid position and counts as not found" % (v[0][2:] if v[0].startswith("X:") else _show(v), how))
        chk.ob("R07.lookup", q + "::position-not-used-as-flag", False, fi.where(site) if site is not None else fi.where(), msg)
    else:
        chk.ob("R07.lookup", q + "::position-not-used-as-flag", ok, fi.where(), msg + ("" if ok else " (%s)" % it.failed))


def _seg_text(segs):
    if segs is None:
        return "not a list built from descr entries"
    return "; ".join("for %s if %s: %s" % ([_show(lp.src) for lp in s.loops], _filters(s.guards), _show(s.elem)) for s in segs)


_OPAQUE_CONDS = ("MAYRET", "MAYBREAK", "MAYSKIP", "EXISTS", "SOME", "NOTALL", "X", "TAINT")


def _mentions_loop(t, lid):
    if isinstance(t, tuple):
        if t and t[0] in ("C", "ALLOC", "LIST", "DICT"):
            return False
        return any(_mentions_loop(x, lid) for x in t)
    return isinstance(t, int) and not isinstance(t, bool) and t == lid


def _subst(t, old, new):
    if t == old:
        return new
    if isinstance(t, tuple) and not (t and t[0] == "C"):
        return tuple(_subst(x, old, new) for x in t)
    return t


def _plain_filters(it, seg, F, depth=0):
    """the tests an entry must pass to be taken, as [(condition, polarity)], with a test `name in <names selected before>` replaced by
    the selection's own tests on that name:  name_k in [name_j for j in fields if P(name_j)]  <=>  P(name_k)  (take j = k; P looks at
    nothing of j but its name).  The list must have been complete at every membership test on it."""
    out = []
    for g in _filters(seg.guards):
        c = g.cond
        done = False
        if depth < 3 and c[0] == "IN" and c[2][0] == "LIST" and c[1][0] == "NAME" and c[1][1] == F:
            segs = it.heap.get(c[2][1], [])
            if len(segs) == 1 and len(segs[0].loops) == 1 and all(n == 1 for n in it.tested.get(c[2][1], [0])):
                sg, lp = segs[0], segs[0].loops[0]
                mine = ("NAME", F, ("K", lp.id))
                inner = _plain_filters(it, sg, F, depth + 1)
                if sg.elem == mine and _in_order_over(lp, F) and not any(l is lp for l in seg.loops) and \
                        all(ic[0] not in _OPAQUE_CONDS and not _mentions_loop(_subst(ic, mine, ("NAME", F, ("K", "*"))), lp.id) for ic, _ in inner):
                    if g.pol:
                        out.extend((_subst(ic, mine, c[1]), ip) for ic, ip in inner)
                        done = True
                    elif len(inner) == 1:
                        out.append((_subst(inner[0][0], mine, c[1]), not inner[0][1]))
                        done = True
        if not done:
            out.append((c, g.pol))
    return out


def _filtered(chk, fi, it, alloc, pname, pol, key1, msg1, key2=None, msg2=None):
    """the new descr is: for every entry of arr.dtype.descr in order, the unmodified entry, kept when (pol) its name is in <pname>"""
    q = fi.qualname
    F = ("DT", ("P", fi.params[0]))
    segs = alloc.d["segs"] if alloc is not None else None
    ok = ok2 = None
    if segs is not None:
        ok = ok2 = False
        if len(segs) == 1 and len(segs[0].loops) == 1 and _in_order_over(segs[0].loops[0], F):
            s = segs[0]
            key = ("K", s.loops[0].id)
            fl = _plain_filters(it, s, F)
            if s.elem == ("ENTRY", F, key) and len(fl) == 1 and fl[0][0][0] == "IN" and fl[0][1] == pol and _param_of(fl[0][0][2]) == pname:
                ok = True
                ok2 = fl[0][0][1] == ("NAME", F, key)
                ok = ok and ok2
    chk.ob("R07.order", q + "::" + key1, ok, fi.where(), msg1 + " (found: %s)" % _seg_text(segs))
    if key2:
        chk.ob("R07.order", q + "::" + key2, ok2, fi.where(), msg2)
    return F


# --------------------------------------------------------------------------------------------------------------------
# R07.seq: WHICH sequence drives the field list.  The order of the fields of the result (of the views of split_fields) is the order
# in which the loop that appends them visits its sequence.  Each operation documents that order: the array's own field order
# (extract, remove, the tail of reorder), the order of the request (the head of reorder, split_fields).  The rule reads, for every
# part of the list, the sequence its loop walks and how the appended element is tied to the visited one:
#   'fields'     the loop visits every field of the array's dtype in dtype order and the element is the visited field's
#   'request'    the loop visits the caller's names and the element is the field NAMED by the visited one
#   'scrambled'  the loop visits the result of an operation that does not keep either order (sorted / np.unique / np.setdiff1d /
#                np.intersect1d / np.union1d: alphabetical; a set or set algebra: arbitrary; reversed) and the element is the field
#                named by the visited one: the fields then come alphabetically / arbitrarily / backwards for some array
# A positive verdict needs the documented drivers; a negative one needs a positively identified wrong driver; anything else is
# "not recognised".  Positions are not names: `sorted(<positions>)` restores dtype order and is never read as scrambled (the
# element must be looked up BY THE NAME the loop visits).
# --------------------------------------------------------------------------------------------------------------------
_SORTED_RESULT = {"sorted": (1,), "unique": (1,), "sort": (1,), "setdiff1d": (2,), "intersect1d": (2, 3), "union1d": (2,), "setxor1d": (2, 3)}
_SET_METHODS = ("difference", "intersection", "union", "symmetric_difference")


def _scrambled(lp):
    """why the sequence the loop walks is in neither the array's field order nor the caller's order, or None"""
    s = lp.src
    if lp.unordered:
        return "a set made at the loop (its iteration order is arbitrary)"
    if not isinstance(s, tuple) or not s:
        return None
    if s[0] == "CALL" and len(s) == 3:
        nm, args = s[1], s[2]
        if nm in _SORTED_RESULT and len(args) in _SORTED_RESULT[nm]:
            return "%s(...) returns its values sorted (alphabetically for names)" % nm
        if nm == "reversed" and len(args) == 1:
            return "reversed(...) walks the names backwards"
        if nm in ("set", "frozenset") and len(args) == 1:
            return "a set (its iteration order is arbitrary)"
    if s[0] == "MCALL" and len(s) == 4 and s[1] in _SET_METHODS:
        return "the result of set.%s() (a set: its iteration order is arbitrary)" % s[1]
    if s[0] == "BIN" and s[1] in ("Sub", "BitAnd", "BitOr", "BitXor"):
        return "the result of set algebra (`%s` of two collections of names is a set: its iteration order is arbitrary)" % {"Sub": "-", "BitAnd": "&", "BitOr": "|", "BitXor": "^"}[s[1]]
    if s[0] == "SLICE" and s[2].replace(" ", "") == "::-1":
        return "`[::-1]` walks the names backwards"
    return None


def _request_of(t):
    """the parameter behind a names argument that was defaulted (`if x is None: x = <all fields>`), None-preserved or scalar-wrapped"""
    for _ in range(6):
        if isinstance(t, tuple) and t and t[0] in ("DFLT", "OPT") and len(t) >= 2:
            t = t[1]
        elif isinstance(t, tuple) and t and t[0] == "NORM":
            t = t[1]
        else:
            break
    return t[1] if isinstance(t, tuple) and len(t) == 2 and t[0] == "P" else None


def _driver(it, seg, F, req, by_name, by_visit):
    """(kind, loop, text) for one part of a field list; by_name(n) is the element that is the field named n, by_visit(lp) the
    element that is the field the in-order loop lp visits"""
    if seg.elem[0] == "TAINT" or len(seg.loops) != 1 or seg.loops[0].broken:
        return None, None, _seg_text([seg])
    lp = seg.loops[0]
    if (_in_order_over(lp, F) or lp.src == ("FIELDS", F) and not lp.unordered) and seg.elem in by_visit(lp):       # dtype.fields is a mapping in field order
        return "fields", lp, "the array's fields in dtype order"
    if lp.src[0] != "LIST" and seg.elem == by_name(("ELEM", lp.src, lp.id)):
        why = _scrambled(lp)
        if why:
            return "scrambled", lp, "`%s`: %s" % (_show(lp.src), why)
        if _request_of(lp.src) == req:
            return "request", lp, "the names given in `%s`, in the order given" % req
    if lp.unordered and lp.src[0] in ("NAMES", "FIELDS", "MAP", "DESCR") and lp.src[1] == F and seg.elem in by_visit(lp):
        return "scrambled", lp, "`set(%s)`: %s" % (_show(lp.src), _scrambled(lp))
    return None, lp, _seg_text([seg])


def _request_filter(it, seg, lp, F, req):
    """the part keeps the visited field only when its name is in (something computed from) the request"""
    mine = ("NAME", F, ("K", lp.id))
    return [g for g in _filters(seg.guards) if g.cond[0] == "IN" and g.pol and g.cond[1] == mine and ("P", req) in _deps(it, g.cond[2])]


def _descr_drivers(it, alloc, F, req):
    segs = alloc.d["segs"] if alloc is not None else None
    if it.failed is not None or not segs:
        return None
    by_name = lambda n: ("ENTRY", F, ("N", n))  # noqa: E731
    by_visit = lambda lp: (("ENTRY", F, ("K", lp.id)), ("ENTRY", F, ("N", ("NAME", F, ("K", lp.id)))))  # noqa: E731
    return [(sg,) + _driver(it, sg, F, req, by_name, by_visit) for sg in segs]


def _seq_original_order(chk, fi, it, alloc, req, what):
    """extract / remove: the result's fields are in the array's own order, whatever the order of the request"""
    q = fi.qualname
    F = ("DT", ("P", fi.params[0]))
    ds = _descr_drivers(it, alloc, F, req)
    ok, why = None, " (not recognised: %s)" % (it.failed or "the new field list is not a list built here")
    if ds is not None:
        bad = [(k, t) for _, k, _, t in ds if k in ("scrambled", "request")]
        if bad:
            ok = False
            why = ": the loop that appends the entries walks %s; each appended entry is the field named by the visited name, so the result's fields come in that order, not in the array's" % bad[0][1]
        elif all(k == "fields" for _, k, _, _ in ds):
            ok, why = True, ""
        else:
            why = " (not recognised: %s)" % [t for _, k, _, t in ds if k is None][:1]
    chk.ob("R07.seq", q + "::fields-in-original-order", ok, _where(fi, alloc) if alloc is not None else fi.where(),
           "%s: the entries of the new descr are appended by a walk over the array's own fields in dtype order%s" % (what, why))


def _seq_reorder(chk, fi, it, alloc):
    """reorder: first the named fields, driven by the request in the order given; then the rest, driven by the array's field order"""
    q = fi.qualname
    req = fi.params[1]
    F = ("DT", ("P", fi.params[0]))
    ds = _descr_drivers(it, alloc, F, req)
    w = _where(fi, alloc) if alloc is not None else fi.where()
    if ds is None:
        for key in ("::named-fields-in-request-order", "::rest-in-original-order"):
            chk.ob("R07.seq", q + key, None, w, "the new field list was not recognised (%s)" % (it.failed or "not a list built here"))
        return
    kinds = [k for _, k, _, _ in ds]
    scr = [t for _, k, _, t in ds if k == "scrambled"]
    # the head: some part is driven by the request, and no part takes the named fields in another order
    head_bad = None
    for sg, k, lp, t in ds:
        if k == "fields" and _request_filter(it, sg, lp, F, req) and "request" not in kinds:
            head_bad = "the named fields are taken by a walk over the array's fields filtered by the request (%s): they come in the array's order, not in the order given" % _seg_text([sg])
        elif k == "scrambled" and ("P", req) in _deps(it, lp.src) and "request" not in kinds:
            head_bad = "the named fields are taken by a walk over %s" % t
    ok = False if head_bad else (True if "request" in kinds and None not in kinds else None)
    chk.ob("R07.seq", q + "::named-fields-in-request-order", ok, w,
           "the named fields are appended by a walk over the requested names in the order given%s"
           % (": " + head_bad if head_bad else ("" if ok else " (not recognised: %s)" % [t for _, k, _, t in ds if k is None][:1])))
    # the tail: every part that is not driven by the request is driven by the array's field order
    rest = [(sg, k, lp, t) for sg, k, lp, t in ds if k != "request"]
    tail_bad = [t for sg, k, lp, t in rest if k == "scrambled" and not (head_bad and ("P", req) in _deps(it, lp.src) and len(rest) > 1)]
    ok = False if tail_bad else (True if rest and all(k == "fields" for _, k, _, _ in rest) and "request" in kinds else None)
    chk.ob("R07.seq", q + "::rest-in-original-order", ok, w,
           "the fields that were not named are appended by a walk over the array's own fields in dtype order%s"
           % (": they are appended by a walk over %s; each appended entry is the field named by the visited name, so the remaining fields follow in that order, "
              "not in their original order" % tail_bad[0] if tail_bad else ("" if ok else " (not recognised: %s)" % ([t for _, k, _, t in ds if k is None][:1] or kinds))))


def extract(chk, repo, fi, it, alloc):
    q = fi.qualname
    _seq_original_order(chk, fi, it, alloc, fi.params[1], "extraction keeps the original order")
    F = _filtered(chk, fi, it, alloc, fi.params[1], True, "original-order-filtered-by-membership",
                  "extraction walks arr.dtype.descr in original order and keeps the unmodified entry when its name is requested",
                  "name-is-entry[0]", "the tested name is the entry's own name")
    ok, ev, txt = _strict_missing_verdict(it, fi, F, fi.params[1])
    # (the same rejection written over all names at once -- a membership mask, a list or a count of the missing names -- is accepted
    # when it is proved to be reached whenever some requested name is not a field)
    chk.ob("R07.reject", q + "::missing-name-strict", _missing_strict(it, fi, F, fi.params[1]) or ok is True, fi.where(), "strict mode rejects a requested name that is not a field")
    chk.ob("R07.strict", q + "::any-missing-name-rejected", ok, _where(fi, ev) if ev is not None and ev.depth == 0 else fi.where(),
           "in strict mode the rejection is reached whenever some requested name is not a field (not only when all of them are "
           "missing, and not when they are present)%s" % txt)
    chk.ob("R07.reject", q + "::no-field-left", _no_field_left(it, alloc), fi.where(), "an empty result is rejected")
    _empty_result_rejected(chk, fi, it, alloc, fi.params[1], "any requested name is a field")
    # every use of the names argument as a collection (iteration, membership test, conversion) sees the wrapped value
    pname = fi.params[1]
    seqs = {"tuple", "list", "ndarray", "set", "frozenset"}
    # a use of the raw argument under `isinstance(<argument>, <sequence types>)` is a use of a sequence
    # (likewise under `not isinstance(<argument>, str)`: the documented argument is a name or a sequence of names)
    uses = [u for u, gs in it.uses if _param_of(u) == pname and
            not (u[0] == "P" and any(g.cond[0] == "ISINST" and g.cond[1] == u and
                                     (g.pol and set(g.cond[2]) <= seqs or not g.pol and "str" in g.cond[2] and not set(g.cond[2]) & seqs) for g in gs))]
    need = {"tuple", "list", "ndarray"}
    scalar = {"str", "bytes", "str_", "bytes_", "unicode", "basestring"}     # what a single field name is

    def wrapping(u):
        """True: scalars are wrapped and the documented sequences are not; False: a documented sequence is wrapped or a scalar is
        not; None: not known ('?' in the set of classes: some of them were not resolved)"""
        if u[0] != "NORM":
            return False
        mode, types = u[2], set(u[3])
        if mode == "atleast_1d":
            return True
        if mode == "unless":
            if types & scalar or (not need <= types and "?" not in types):
                return False
            return True if need <= types and "?" not in types else None
        if mode == "when":
            if types & need:
                return False
            return True if "?" not in types else None
        return None
    verdicts = [wrapping(u) for u in uses]
    bad = [u for u, v in zip(uses, verdicts) if v is False]
    ok = False if bad else (True if uses and all(v is True for v in verdicts) and it.failed is None else None)
    chk.ob("R07.args", q + "::scalar-name-wrapped", ok, fi.where(),
           "a scalar name is wrapped; tuple, list and array name lists are taken as they are%s"
           % ("" if not bad else ": `%s` is used as a collection of names as it was passed in (a single string is then a collection of characters / substrings)" % _show(bad[0])))


def remove(chk, repo, fi, it, alloc):
    q = fi.qualname
    _seq_original_order(chk, fi, it, alloc, fi.params[1], "removal keeps the original order")
    _filtered(chk, fi, it, alloc, fi.params[1], False, "original-order-filtered-by-non-membership",
              "removal walks the original descr in order and keeps the unmodified entry when its name is not listed",
              "descr-is-input-descr", "the walked descr is arr.dtype.descr")
    chk.ob("R07.reject", q + "::no-field-left", _no_field_left(it, alloc), fi.where(), "removing every field is rejected")
    _empty_result_rejected(chk, fi, it, alloc, fi.params[1], "any field is left")
    for u, _ in it.uses:
        if _param_of(u) == fi.params[1] and u[0] == "NORM" and u[2] == "unless" and not {"tuple", "ndarray"} <= set(u[3]):
            chk.observe("R07.args", fi.where(), "remove_fields wraps anything that is not a list: a tuple/array of names is treated as one name and "
                        "silently removes nothing (documentation only mentions names; outside the documented quantifier)")
            break


def add(chk, repo, fi, it, alloc):
    q = fi.qualname
    arr, addp, dflt = fi.params[0], fi.params[1], fi.params[2]
    F = ("DT", ("P", arr))
    FA = ("NPDT", ("P", addp))
    segs = alloc.d["segs"] if alloc is not None else None
    whole = [_whole_of(s) for s in segs] if segs is not None else None
    chk.ob("R07.order", q + "::starts-from-original-descr", None if whole is None else (len(whole) >= 1 and whole[0] == F), fi.where(),
           "the new descr starts as a copy of the original descr (old fields first, original order) (found: %s)" % _seg_text(segs))
    chk.ob("R07.order", q + "::appends-added-entries-in-order", None if whole is None else (len(whole) == 2 and whole[1] is not None and whole[1] != F), fi.where(),
           "added entries are appended unmodified in the order given")
    chk.ob("R07.order", q + "::added-descr-provenance", None if whole is None else (len(whole) == 2 and whole[1] == FA), fi.where(),
           "the added descr is np.dtype(<argument>).descr")
    rs = _raises(it)
    ok = any(_g(e, lambda g: g.cond[0] == "IN" and g.pol and g.cond[2] == ("NAMES", F) and g.cond[1][0] == "NAME" and g.cond[1][1] == FA
                and any(lp.id == g.cond[1][2][1] and _in_order_over(lp, FA) for lp in e.loops)) for e in rs)
    chk.ob("R07.reject", q + "::existing-name", ok, fi.where(), "adding a name that already exists is rejected")

    def lenmis(g):
        c = g.cond
        return c[0] == "EQ" and not g.pol and ("NF", FA) in c[1:] and any(x[0] == "LEN" and _param_of(x[1]) == dflt for x in c[1:])
    chk.ob("R07.reject", q + "::defaults-length", any(_g(e, lenmis) for e in rs), fi.where(), "defaults of the wrong length are rejected")
    # defaults applied by name to the new array, for the added names, only when given
    cb = it.of("copy_fields_by_name")
    tag = alloc.d["tag"] if alloc is not None else None
    ok = None
    why = "no copy_fields_by_name call was found" if not cb else ""
    if len(cb) == 1 and tag is not None:
        c = cb[0]
        a_arr, a_names, a_vals = c.d.get("a_arr"), c.d.get("a_names"), c.d.get("a_vals")
        names_ok = a_names == ("NAMES", FA) or (a_names[0] == "LIST" and [_names_of(s) for s in it.heap.get(a_names[1], [])] == [FA])
        names_bad = a_names[0] == "NAMES" and a_names[1] != FA
        guarded = _g(c, lambda g: g.cond == ("ISNONE", ("P", dflt)) and not g.pol)
        # no test of the defaults argument itself decides whether the call happens: it also happens for defaults=None
        unguarded = not any(g.cond in (("ISNONE", ("P", dflt)), ("TRUE", ("P", dflt))) for g in c.guards)
        vals_ok = _param_of(_unwrap_vals(it, a_vals)) == dflt
        good = a_arr == tag and names_ok and guarded and vals_ok
        bad = (a_arr != tag and a_arr[0] in ("P", "ALLOC")) or names_bad or unguarded or (not vals_ok and a_vals[0] == "P")
        ok = _tri(good, bad)
        why = "copy_fields_by_name(%s, %s, %s) under %s" % (_show(a_arr), _show(a_names), _show(a_vals), list(c.guards))
    elif len(cb) > 1:
        why = "%d copy_fields_by_name calls" % len(cb)
    chk.ob("R07.defaults", q + "::defaults-by-name", ok, fi.where(), "supplied defaults are written by name into the added fields of the new array, only when given (%s)" % why)
    # the defaults reach copy_fields_by_name as given (or wrapped in a list): an array conversion would coerce mixed-type defaults to one type
    ok = None
    conv = ""
    if cb:
        vs = [c.d.get("a_vals") for c in cb]
        convs = [x for v in vs for x in _subterms(v) if isinstance(x, tuple) and x and
                 (x[0] == "NORM" and x[2] in ("atleast_1d", "array") or x[0] in ("CALL", "MCALL") and x[1] in ("array", "asarray", "asanyarray", "atleast_1d", "astype"))]
        ok = _tri(all(_param_of(_unwrap_vals(it, v)) == dflt for v in vs) and not convs, bool(convs))
        conv = ": `%s`" % _show(convs[0]) if convs else ""
    chk.ob("R07.defaults", q + "::defaults-not-converted", ok, fi.where(),
           "the default values are applied one by one with their own types (only wrapped in a list, never converted to an array)%s" % conv)
    # order: copy of old data before defaults
    cps = [c for c in _copies(it) if c.d.get("a_arr2") == tag]
    if cb and cps:
        first = cps[0]
        dom = first.seq < cb[0].seq and all(g in cb[0].guards for g in _filters(first.guards))
        chk.ob("R07.defaults", q + "::old-data-copied-first", _tri(dom, first.seq > cb[0].seq), fi.where(), "old data are copied before defaults are applied")


def _names_of(seg):
    """dtype F when the segment is `the name of every entry of F in order`"""
    if len(seg.loops) != 1 or _filters(seg.guards) or seg.elem[0] != "NAME":
        return None
    F = seg.elem[1]
    return F if _in_order_over(seg.loops[0], F) and seg.elem[2] == ("K", seg.loops[0].id) else None


def _peel_conversions(v):
    """(the value behind array conversions, the explicit types it is converted to, conversions whose type is not known):
    np.array / asarray / asanyarray (with or without a dtype) and .astype(<type>)"""
    dts, rest = [], []
    for _ in range(6):
        if not (isinstance(v, tuple) and v):
            break
        if v[0] == "NORM" and v[2] == "array":
            if len(v) > 4:
                dts.append(v[4])
            v = v[1]
        elif v[0] == "MCALL" and v[1] == "astype" and len(v) == 4:
            if len(v[3]) >= 1:
                dts.append(v[3][0])
            else:
                rest.append(v)
            v = v[2]
        elif v[0] == "CALL" and v[1] in ("array", "asarray", "asanyarray", "astype") and len(v) == 3 and v[2]:
            rest.append(v)
            v = v[2][0]
        else:
            break
    return v, dts, rest


def _record_field_type(t, arr):
    """t is the type of one field as the record dtype of `arr` stores it: arr.dtype[<name>] or arr.dtype.fields[<name>][0]
    (for a sub-array field: the (base, shape) type, not the base type a view arr[<name>] has)"""
    if not (isinstance(t, tuple) and t and t[0] == "ITEM" and len(t) == 3):
        return False
    if t[1] == ("DT", arr):
        return True
    b = t[1]
    return t[2] == ("C", 0) and isinstance(b, tuple) and b and b[0] == "ITEM" and b[1] == ("FIELDS", ("DT", arr))


def _unwrap_vals(it, v):
    """the defaults value behind a list()/[x] wrapping or a None-preserving normalisation"""
    for _ in range(4):
        if v is None:
            return None
        if v[0] == "OPT":
            v = v[2]
        elif v[0] == "LIST":
            segs = it.heap.get(v[1], [])
            if len(segs) == 1 and not segs[0].loops:
                v = segs[0].elem
            elif len(segs) == 1 and len(segs[0].loops) == 1 and segs[0].elem == ("ELEM", segs[0].loops[0].src, segs[0].loops[0].id):
                v = segs[0].loops[0].src
            else:
                return v
        else:
            return v
    return v


def reorder(chk, repo, fi, it, alloc):
    q = fi.qualname
    arr, onames = fi.params[0], fi.params[1]
    F = ("DT", ("P", arr))
    segs = alloc.d["segs"] if alloc is not None else None
    two = None if segs is None else len(segs) == 2
    _seq_reorder(chk, fi, it, alloc)
    chk.ob("R07.order", q + "::two-passes", two, fi.where(), "two passes build the new order (found: %s)" % _seg_text(segs))
    if not two:
        return
    s1, s2 = segs
    # first pass: for each requested name, in the order given, the entry of that name
    ok1 = same = False
    e1 = None
    if len(s1.loops) == 1 and not s1.loops[0].broken and _param_of(s1.loops[0].src) == onames:
        e1 = ("ELEM", s1.loops[0].src, s1.loops[0].id)
        fl = _filters(s1.guards)
        same = s1.elem[0] == "ENTRY" and s1.elem[1] == F
        ok1 = s1.elem == ("ENTRY", F, ("N", e1)) and len(fl) == 1 and _is_field_test(it, fl[0], e1, F)
    # second pass: every field in original order, unless already taken
    ok2 = tracked = False
    if len(s2.loops) == 1 and _in_order_over(s2.loops[0], F):
        key = ("K", s2.loops[0].id)
        fl = _filters(s2.guards)
        if s2.elem == ("ENTRY", F, key) and len(fl) == 1 and fl[0].cond[0] == "IN" and not fl[0].pol and fl[0].cond[1] == ("NAME", F, key):
            ok2 = True
            taken = fl[0].cond[2]
            if taken[0] == "LIST" and e1 is not None:
                tsegs = it.heap.get(taken[1], [])
                first = [t for t in tsegs if t.loops == s1.loops and t.elem == e1 and [(g.cond, g.pol) for g in _filters(t.guards)] == [(g.cond, g.pol) for g in _filters(s1.guards)]]
                rest = [t for t in tsegs if t not in first and not (t.loops == s2.loops and t.elem == ("NAME", F, key))]
                tracked = len(first) == 1 and not rest
    chk.ob("R07.order", q + "::originals", same and ok2, fi.where(), "names and descr entries are taken from the same dtype (parallel order)")
    chk.ob("R07.order", q + "::named-fields-first-in-given-order", ok1, fi.where(),
           "first pass: for each requested name, in the order given, append the original entry at the position where the names match")
    chk.ob("R07.order", q + "::rest-after-in-original-order", ok2 and tracked, fi.where(),
           "second pass: remaining fields in original order, each appended once (not already taken)")
    chk.ob("R07.order", q + "::taken-names-tracked", tracked, fi.where(), "the names taken in the first pass are exactly the ones the second pass leaves out")
    chk.ob("R07.reject", q + "::missing-name-strict", _missing_strict(it, fi, F, onames), fi.where(), "strict mode rejects a requested name that is not a field")


def _is_field_test(it, g, x, F):
    """the guard says `x is the name of a field of F`, x being an element of a sequence S: written as `x in F.names`, or as
    `x not in M` with M = [n for n in S if n not in F.names] (the requested names that are missing), complete at every test on it:
    x is in S, so  x in M  <=>  x not in F.names"""
    c = g.cond
    if c == ("IN", x, ("NAMES", F)):
        return g.pol
    if c[0] != "IN" or c[1] != x or g.pol or c[2][0] != "LIST" or x[0] != "ELEM":
        return False
    segs = it.heap.get(c[2][1], [])
    if len(segs) != 1 or len(segs[0].loops) != 1 or not all(n == 1 for n in it.tested.get(c[2][1], [0])):
        return False
    sg, lp = segs[0], segs[0].loops[0]
    el = ("ELEM", lp.src, lp.id)
    fl = _filters(sg.guards)
    return not lp.broken and lp.src == x[1] and lp.src[0] != "LIST" and sg.elem == el and len(fl) == 1 and fl[0].cond == ("IN", el, ("NAMES", F)) and not fl[0].pol


def _compared_quantity(g, arrlist, e):
    """the guard says `Q(a) != Q(b)` for two different arrays a, b of the list, one of them the array visited by a loop over the list
    that encloses the raise e: ('shape', text) Q is .shape; ('weak', text) Q is a quantity that arrays of different length can share
    (.size, .ndim, .nbytes, one axis other than the first, the length of a flattened copy); ('other', text) a quantity that is not
    classified (len(), shape[0], ...); None: the guard is not such a comparison"""
    c = g.cond
    if c[0] != "EQ" or g.pol or not isinstance(c[1], tuple) or not isinstance(c[2], tuple):
        return None

    def arrays(t):
        out = []
        for x in _subterms(t):
            if isinstance(x, tuple) and len(x) == 3 and (x[0] == "ELEM" and (x[1] == arrlist or x[1][0] == "SLICE" and x[1][1] == arrlist) or
                                                         x[0] == "ITEM" and x[1] == arrlist and _const_int(x[2]) is not None) and x not in out:
                out.append(x)
        return out
    xa, xb = arrays(c[1]), arrays(c[2])
    if len(xa) != 1 or len(xb) != 1 or xa[0] == xb[0]:
        return None
    a, b = xa[0], xb[0]
    if not any(x[0] == "ELEM" and any(lp.id == x[2] and not lp.broken for lp in e.loops) for x in (a, b)):
        return None
    hole = ("ARR",)
    qa, qb = _subst(c[1], a, hole), _subst(c[2], b, hole)
    if qa != qb:
        return None
    text = _show(qa).replace("ARR()", "<array>")
    if qa == ("SHAPE", hole):
        return "shape", text
    flat = qa[0] == "LEN" and qa[1][0] == "MCALL" and qa[1][1] in ("ravel", "flatten") and qa[1][2] == hole
    prod = qa[0] in ("CALL", "MCALL") and qa[1] in ("prod", "product") and ("SHAPE", hole) in list(_subterms(qa))
    axis = qa[0] == "ITEM" and qa[1] == ("SHAPE", hole) and _const_int(qa[2]) not in (None, 0)
    if qa == ("SIZE", hole) or qa in (("ATTR", hole, "ndim"), ("ATTR", hole, "nbytes"), ("ATTR", hole, "itemsize")) or flat or prod or axis:
        return "weak", text
    return "other", text


def _walks_whole(lp, seq):
    """the loop visits every element of the sequence `seq` exactly once, in the order of the sequence, the visited element being
    ('ELEM', seq, loop id): `for a in seq`, `for i, a in enumerate(seq)`, `for i in range(len(seq)): seq[i]`"""
    if lp.broken or lp.unordered:
        return False
    return lp.src == seq or lp.src in (("ENUM", seq), ("RANGEOF", seq))


def combine(chk, repo, fi, it, alloc):
    q = fi.qualname
    arrlist = ("P", fi.params[0])
    rs = _raises(it)
    chk.ob("R07.reject", q + "::empty-list", any(_g(e, lambda g: g.cond == ("TRUE", arrlist) and not g.pol) for e in rs), fi.where(), "an empty list is rejected")

    def mismatch(e):
        """a raise under `<array of the loop over the list>.shape != <another array of the list>.shape`"""
        return any((_compared_quantity(g, arrlist, e) or ("",))[0] == "shape" for g in e.guards)
    chk.ob("R07.reject", q + "::length-mismatch", any(mismatch(e) for e in rs), fi.where(), "arrays of different length/shape are rejected")
    # R07.samelen: WHAT the rejection compares.  Arrays of different length must be rejected, and the result has the shape of one of
    # them: the test has to compare a quantity that determines the length, i.e. the arrays' .shape.  Equal .size (or ndim, or the last
    # axis) does not: shapes (n,) and (1, n), or () and (1,), agree on it and broadcast into each other, so they are silently combined
    # (size equality is what copy_fields enforces anyway).
    found = []
    for e in rs:
        for g in e.guards:
            k = _compared_quantity(g, arrlist, e)
            if k is not None:
                found.append((k, e))
    strong = [e for k, e in found if k[0] == "shape"]
    weak = [(k, e) for k, e in found if k[0] == "weak"]
    ok = True if strong else (False if weak else None)
    chk.ob("R07.samelen", q + "::rejection-compares-shape", ok, _where(fi, (strong or [e for _, e in weak] or [None])[0]),
           "the rejection of arrays of different length compares the arrays' .shape%s"
           % ("" if ok else (": it compares `%s`, which is equal for arrays of different length (shapes (n,) and (1, n); () and (1,)), so those are combined "
                             "instead of rejected" % weak[0][0][1] if weak else " (no comparison of two arrays of the list that controls a raise was recognised%s)"
                             % (": " + it.failed if it.failed else ""))))
    segs = alloc.d["segs"] if alloc is not None else None
    ok = None
    if segs is not None:
        ok = False
        if len(segs) == 1 and len(segs[0].loops) == 2 and not _filters(segs[0].guards):
            l1, l2 = segs[0].loops
            el = ("ELEM", arrlist, l1.id)
            ok = _walks_whole(l1, arrlist) and _in_order_over(l2, ("DT", el)) and segs[0].elem == ("ENTRY", ("DT", el), ("K", l2.id))
    chk.ob("R07.order", q + "::field-lists-concatenated-in-list-order", ok, fi.where(),
           "the combined descr is the concatenation of each array's dtype.descr in list order (found: %s)" % _seg_text(segs))
    chk.assume("a field name shared between combined arrays is rejected by numpy.dtype construction (duplicate field names raise ValueError)")


def copiers(chk, repo):
    fi = repo.func(NU + "copy_fields")
    chk.analysed_unit(fi.qualname)
    q = fi.qualname
    it = interp(repo, fi)
    _lookup_rule(chk, fi, it)
    src, dst = ("P", fi.params[0]), ("P", fi.params[1])
    F1, F2 = ("DT", src), ("DT", dst)
    stores = []
    unknown = []
    backwards = []      # stores into the source array
    for e in it.of("store"):
        b, k, v = e.d["base"], e.d["key"], e.d["value"]
        if b == dst:
            stores.append((e, k, v))
        elif b[0] == "ITEM" and b[1] == dst and k[0] in ("X", "C"):
            stores.append((e, b[2], v))         # arr2[name][...] = arr1[name]: a whole-field store through the field view
        elif any(x == dst for x in _subterms(b)):
            unknown.append(e)
        elif b == src or (b[0] == "ITEM" and b[1] == src):
            backwards.append(e)

    def byname(s):
        """arr2[n] = arr1[n] with one name n"""
        return s[1][0] in ("NAME", "ELEM") and s[2] == ("ITEM", src, s[1])

    def common_names(s):
        """True: n ranges over the names of one array and is tested for membership in the other's (or over the intersection);
        False: it ranges over one array's names but some are skipped or none is tested; None: the range of n is not recognised"""
        e, k = s[0], s[1]
        fl = [g for g in _filters(e.guards) if g.kind != "path" and not covered(g, e)]
        for Fa, Fb in ((F1, F2), (F2, F1)):
            if k[0] == "NAME" and k[1] == Fa and k[2][0] == "K" and len(e.loops) == 1 and e.loops[0].id == k[2][1] and _in_order_over(e.loops[0], Fa):
                ins = [g for g in fl if g.cond == ("IN", k, ("NAMES", Fb)) and g.pol]
                return bool(ins) and len(ins) == len(fl)
        if k[0] == "ELEM" and len(e.loops) == 1 and e.loops[0].id == k[2] and not e.loops[0].broken and not fl:
            d = k[1]
            both = {("NAMES", F1), ("NAMES", F2)}
            if d[0] == "BIN" and d[1] == "BitAnd" and set(d[2:]) == both:
                return True
            if d[0] == "MCALL" and d[1] == "intersection" and {d[2]} | set(d[3]) == both:
                return True
            if d[0] == "CALL" and d[1] == "intersect1d" and set(d[2]) == both:
                return True
        return None
    def same_layout(g):
        """the test says both arrays have the same fields of the same types in the same order (equal dtypes or descrs): matching the
        fields by position is then matching them by name, every field is a common one and nothing is converted"""
        c = g.cond
        return c[0] == "EQ" and g.pol and {c[1], c[2]} in ({F1, F2}, {("DESCR", F1), ("DESCR", F2)})

    def whole_record(s):
        """arr2[...] = arr1 where both arrays have the same field list: every field is copied to the field of the same name"""
        e, k, v = s
        return k == ("C", Ellipsis) and v == src and not e.loops and any(same_layout(g) for g in e.guards)
    whole = [s for s in stores if not byname(s) and whole_record(s)]

    def covered(g, e):
        """g is the outcome of a test whose other outcome copies every field in one whole-record store (a fast path for arrays of the
        same layout): taking the other way around the by-name loop e loses nothing"""
        if g.node is None:
            return False
        for w, _, _ in whole:
            own = [h for h in w.guards if not any(h is x for x in e.guards)]
            if own and all(h.node is g.node for h in own) and not any(h is g for h in w.guards) and any(same_layout(h) for h in own):
                return True
        return False
    bn = [s for s in stores if byname(s)]
    verdicts = [common_names(s) for s in bn]
    ok = True if any(v is True for v in verdicts) else (False if any(v is False for v in verdicts) or backwards else None)
    chk.ob("R07.copier", q + "::assigns-every-common-name", ok, fi.where(), "copy_fields assigns arr2[name] = arr1[name] for every name of arr1 that arr2 also has (%s)"
           % ([(_show(s[1]), list(s[0].loops), _filters(s[0].guards)) for s in bn] or it.failed or "no such store"))
    # every write into the destination is by field name, and the by-name loop is on every normal path (no positional shortcut)
    other = [s for s in stores if not byname(s) and not any(s is w for w in whole)]
    chk.ob("R07.copier", q + "::destination-written-by-name-only", _tri(bool(stores) and not other and not unknown and not backwards and it.failed is None, bool(other) or bool(backwards)),
           _where(fi, (other or stores or [(None,)])[0][0]),
           "every store into the destination is `%s[name] = %s[name]` with one name (fields are matched by name, never by position): %s"
           % (dst[1], src[1], [norm(s[0].node)[:60] for s in other] + ["%s (writes into the source)" % norm(e.node)[:60] for e in backwards] or "ok"))
    full = [s[0] for s, v in zip(bn, verdicts) if v is True]
    def nothing_to_copy(g, e):
        """an early return taken only when the loop would not run: the list it walks is empty, or the arrays are"""
        c = g.cond
        if c[0] == "TRUE" and g.pol and c[1][0] == "LIST":
            return any(tuple(sg.loops) == tuple(e.loops) for sg in it.heap.get(c[1][1], []))
        return c[0] == "TRUE" and g.pol and c[1] in (("SIZE", src), ("SIZE", dst))
    skipped = [g for e in full for g in e.guards if g.kind in ("path", "break") and not nothing_to_copy(g, e) and not covered(g, e)]
    chk.ob("R07.copier", q + "::by-name-loop-on-every-path", _tri(bool(full) and not skipped, bool(skipped)), fi.where(),
           "every normal return passes through the by-name loop (no early return around it)%s" % ("" if not skipped else ": %s" % skipped[:2]))
    sizes = lambda g: g.cond[0] == "EQ" and not g.pol and g.cond[1][0] == g.cond[2][0] and g.cond[1][0] in ("SIZE", "SHAPE") and {g.cond[1][1], g.cond[2][1]} == {src, dst}  # noqa: E731
    chk.ob("R07.reject", q + "::size-mismatch", any(_g(e, sizes) for e in _raises(it)), fi.where(), "different sizes are rejected")
    fi = repo.func(NU + "copy_fields_by_name")
    chk.analysed_unit(fi.qualname)
    q = fi.qualname
    it = interp(repo, fi)
    _lookup_rule(chk, fi, it)
    arr, pn, pv = ("P", fi.params[0]), fi.params[1], fi.params[2]
    stores = [e for e in it.of("store") if e.d["base"] == arr]
    good = bad = False
    for e in stores:
        k, v = e.d["key"], _peel_conversions(e.d["value"])[0]
        if k[0] == "ELEM" and v[0] == "ELEM":
            # both are "the element of a sequence visited by a loop": the same loop over both parameters in step, or not
            lp = [x for x in e.loops if x.id == k[2]]
            paired = k[2] == v[2] and _param_of(k[1]) == pn and _param_of(v[1]) == pv and lp and not lp[0].broken and \
                lp[0].src in (("ZIP", k[1], v[1]), ("RANGEOF", k[1]), ("RANGEOF", v[1]), ("ENUM", k[1]), ("ENUM", v[1]))
            fl = _filters(e.guards)
            if paired and all(g.cond == ("IN", k, ("NAMES", ("DT", arr))) and g.pol for g in fl):
                good = True
            else:
                bad = True
    chk.ob("R07.copier", q + "::assigns-value-by-name", _tri(good and not bad, bad), fi.where(),
           "copy_fields_by_name pairs names with values positionally and assigns arr[name] = val (%s)"
           % (it.failed or [(_show(e.d["key"]), _show(e.d["value"]), list(e.loops)) for e in stores]))
    # the value reaches the field as it was supplied.  What numpy does with `arr[name] = val` (cast to the field's base type, broadcast
    # over the array and over the field's sub-array shape) is the documented behaviour ("scalars or their shape must match the
    # underlying structure of the field").  A conversion of the value to the field's type *as the record dtype stores it*
    # (arr.dtype[name], arr.dtype.fields[name][0]) is not that: for a sub-array field this type is (base, shape), and an array
    # constructor / astype given such a type turns every element of the value into a whole sub-array, so a value of the field's
    # shape no longer fits (or lands transposed).  Conversions to any other explicit type are not decided here.
    asgiven = retyped = False
    unrec = []
    for e in stores:
        inner, dts, rest = _peel_conversions(e.d["value"])
        rec = [d for d in dts if _record_field_type(d, arr)]
        if rec:
            retyped = True
            unrec.append("`%s` is converted to `%s` before it is assigned: the record type of a sub-array field is (base, shape), which "
                         "expands every element of the value into a sub-array" % (_show(inner), _show(rec[0])))
        elif dts or rest or not (inner[0] == "ELEM" and _param_of(inner[1]) == pv):
            unrec.append("`%s` (not recognised)" % _show(e.d["value"]))
        else:
            asgiven = True
    chk.ob("R07.copier", q + "::value-stored-as-given", False if retyped else (True if asgiven and not unrec and it.failed is None else None),
           _where(fi, ([e for e in stores if any(_record_field_type(d, arr) for d in _peel_conversions(e.d["value"])[1])] or [None])[0]),
           "the supplied value itself is assigned to the field (never re-typed to the field's record type, which carries the sub-array shape)%s"
           % (": " + "; ".join(unrec[:2]) if unrec else ""))

    def lens(g):
        c = g.cond
        return c[0] == "EQ" and not g.pol and c[1][0] == "LEN" and c[2][0] == "LEN" and {_param_of(c[1][1]), _param_of(c[2][1])} == {pn, pv}
    chk.ob("R07.reject", q + "::length-mismatch", any(_g(e, lens) for e in _raises(it)), fi.where(), "name/value lists of different length are rejected")


class _Recorder:
    """collects the rule instances another module's check would report"""

    def __init__(self):
        self.items = []

    def ob(self, rule, key, ok, where="", msg="", **kw):
        self.items.append((rule, key, ok, where, msg))
        return bool(ok)


def split(chk, repo, fi):
    """the split_fields rules are checks.C02.check_split_fields (statement templates); an instance its template does not match is
    decided on the values instead: what is returned, over which iteration, under which tests"""
    from checks.C02 import check_split_fields
    rec = _Recorder()
    try:
        check_split_fields(rec, fi, "R07.split", repo=repo)
    except TypeError:           # the three-argument form of the shared check
        rec = _Recorder()
        check_split_fields(rec, fi, "R07.split")
    sem = None
    for rule, key, ok, where, msg in rec.items:
        if not ok:
            if sem is None:
                sem = _split_values(interp(repo, fi), fi)
            v = sem.get(key.split("::")[-1])
            if v is True:
                ok, msg = True, msg + " [not in the reviewed statement form; decided on the returned value: %s]" % sem["text"]
        chk.ob(rule, key, ok, where, msg)
    _seq_split(chk, fi, interp(repo, fi))


def _seq_split(chk, fi, it):
    """R07.seq for split_fields: `f1, f2 = split_fields(data, fields=[a, b])` documents that the i-th view is the i-th requested field.
    The tuple that is returned is built from a list; the loop that appends the views must walk the request (or, by default, all the
    fields) and append the view of the visited name.  A walk over the dtype's names filtered by the request, or over a sorted /
    set / reversed version of the request, gives every view but in another order."""
    q = fi.qualname
    data, req = ("P", fi.params[0]), fi.params[1]
    F = ("DT", data)
    ok, why = None, ""
    if it.failed is not None:
        why = " (not recognised: %s)" % it.failed
    else:
        lists = []
        for e in it.of("return"):
            v = e.d["value"]
            if e.d["implicit"]:
                continue
            if v[0] == "TUPLE" and len(v) == 3 and v[1][0] in ("LIST", "PHI"):
                v = v[1]
            # the list of views, or one list per way of getting here (`if fields is None: <all of them> else: <the requested ones>`)
            alts = list(v[1:]) if v[0] == "PHI" and all(isinstance(x, tuple) and x and x[0] == "LIST" for x in v[1:]) else [v]
            for x in alts:
                if x[0] == "LIST" and x not in [y for y, _ in lists]:
                    lists.append((x, e))
        by_name = lambda n: ("ITEM", data, n)  # noqa: E731
        by_visit = lambda lp: (("ITEM", data, ("NAME", F, ("K", lp.id))),)  # noqa: E731
        verdicts = []
        for lst, e in lists:
            segs = it.heap.get(lst[1], [])
            if not segs:
                verdicts.append((None, "an empty list"))
            for sg in segs:
                k, lp, t = _driver(it, sg, F, req, by_name, by_visit)
                if k == "scrambled":
                    verdicts.append((False, "the views are appended by a walk over %s; the i-th view is then not the i-th requested field" % t))
                elif k == "fields" and _request_filter(it, sg, lp, F, req):
                    verdicts.append((False, "the views are appended by a walk over the dtype's own names that keeps the requested ones (%s): they come in the "
                                            "array's field order, not in the order of `%s`" % (_seg_text([sg]), req)))
                elif k == "request" and not [g for g in _filters(sg.guards) if not any(g is h for h in e.guards)]:
                    verdicts.append((True, ""))
                elif k == "fields" and not [g for g in _filters(sg.guards) if not any(g is h for h in e.guards)] and \
                        any(g.cond == ("ISNONE", ("P", req)) and g.pol for g in tuple(it.listctx.get(lst[1], ((), ()))[1]) + tuple(sg.guards)):
                    verdicts.append((True, ""))      # no request (`fields is None`): every field, in dtype order
                else:
                    verdicts.append((None, t))
        bad = [w for v, w in verdicts if v is False]
        if bad:
            ok, why = False, ": " + bad[0]
        elif verdicts and all(v is True for v, _ in verdicts):
            ok = True
        else:
            why = " (not recognised: %s)" % ([w for v, w in verdicts if v is None][:1] or "no list of views is returned")
    chk.ob("R07.seq", q + "::views-in-request-order", ok, fi.where(),
           "the views are appended by a walk over the requested names in the order given (all fields in dtype order by default), one view per visited name%s" % why)


def _split_values(it, fi):
    out = {"text": it.failed or ""}
    if it.failed is not None:
        return out
    data, fields = ("P", fi.params[0]), ("P", fi.params[1])
    F = ("DT", data)
    rets = [e for e in it.of("return") if not e.d["implicit"]]
    views = []          # (return event, list term)
    others = []
    for e in rets:
        v = e.d["value"]
        if v[0] == "LIST":
            views.append((e, v, None))
        elif v[0] == "TUPLE" and len(v) == 3 and v[1][0] == "LIST":
            views.append((e, v[1], v[2]))
        elif v == ("TUPLE", data):
            pass
        else:
            others.append(v)
    good = bool(views)
    srcs = []
    for e, lst, names in views:
        segs = it.heap.get(lst[1], [])
        if len(segs) != 1 or len(segs[0].loops) != 1 or segs[0].loops[0].broken:
            good = False
            continue
        sg = segs[0]
        lp = sg.loops[0]
        skip = [g for g in sg.guards if g.kind != "reject" and g not in e.guards]
        if sg.elem != ("ITEM", data, it.elem_of(lp.src, lp)) or skip or not any(x == fields for x in _subterms(lp.src)):
            good = False
        if names is not None and names != lp.src:
            good = False
        srcs.append(lp)
    out["text"] = "; ".join("%s -> %s" % (_show(lp.src), "data[<element>]") for lp in srcs)
    out["one-view-per-field-in-order"] = good or None
    out["returns-tuple-of-views"] = (good and not others) or None
    out["default-all-fields"] = (good and all(lp.src[0] == "DFLT" and lp.src[1] == fields and lp.src[2] in (("FIELDS", F), ("NAMES", F)) for lp in srcs)) or None
    miss = False
    for lp in srcs:
        el = it.elem_of(lp.src, lp)
        miss = any(lp in r.loops and _g(r, lambda g: g.cond == ("IN", el, ("NAMES", F)) and not g.pol) for r in _raises(it))
        if not miss:
            break
    out["missing-field-raises"] = (good and miss) or None
    return out


def compare(chk, repo, fi):
    chk.analysed_unit(fi.qualname)
    q = fi.qualname
    it = interp(repo, fi)
    a1, a2 = ("P", fi.params[0]), ("P", fi.params[1])
    rets = [e for e in it.of("return")]
    # the counter the verdict is taken from: `return n == 0`, or `return True` / `return False` under `n == 0` / its negation
    counters = set()
    ok = None
    if it.failed is None and rets:
        ok = True
        for e in rets:
            v = e.d["value"]
            if v[0] == "COND" and v[1][0] == "EQ" and v[1][1] == ("C", 0) and v[1][2][0] == "CNT" and v[2]:
                counters.add(v[1][2][1])
            elif v[0] == "C" and isinstance(v[1], bool) and not e.d["implicit"]:
                gs = [g for g in e.guards if g.cond[0] == "EQ" and g.cond[1] == ("C", 0) and g.cond[2][0] == "CNT"]
                if len(gs) == 1 and gs[0].pol == v[1]:
                    counters.add(gs[0].cond[2][1])
                else:
                    ok = False
            else:
                ok = False
        ok = ok and len(counters) == 1
    chk.ob("R07.compare", q + "::true-iff-no-failure", ok, fi.where(), "compare_arrays returns True exactly when no difference was counted (%s)"
           % (it.failed or [(_show(e.d["value"]), [g for g in e.guards if "CNT" in repr(g.cond)]) for e in rets]))
    incs = [e for e in it.of("incr") if e.d["name"] in counters and e.d["op"] == "Add"]

    def field_of(t, arr):
        return any(isinstance(x, tuple) and len(x) == 3 and x[0] == "ITEM" and x[1] == arr for x in _subterms(t))

    def shape_diff(g):
        c = g.cond
        return c[0] == "EQ" and not g.pol and c[1][0] == "SHAPE" and c[2][0] == "SHAPE" and \
            (field_of(c[1], a1) and field_of(c[2], a2) or field_of(c[1], a2) and field_of(c[2], a1))

    def elem_diff(g):
        """the test is on the number / existence of positions where the two fields differ"""
        c = g.cond
        if c[0] != "TRUE" or not g.pol:
            return False
        for x in _subterms(c[1]):
            if isinstance(x, tuple) and len(x) == 3 and x[0] == "COND" and x[1][0] == "EQ" and x[2] is False:
                l, r = x[1][1], x[1][2]
                if field_of(l, a1) and field_of(r, a2) or field_of(l, a2) and field_of(r, a1):
                    return True
        return False
    has_shape = any(_g(e, shape_diff) for e in incs)
    has_elem = any(_g(e, elem_diff) for e in incs)
    chk.ob("R07.compare", q + "::counts-shape-and-element-differences", _tri(has_shape and has_elem, it.failed is None), fi.where(),
           "shape differences and element differences are counted (%s)" % (it.failed or [[g for g in e.guards][-1:] for e in incs]))


def run(chk):
    repo = PyRepo()
    chk.set_templates(repo, semantic=SEMANTIC)
    eng = effects.Effects(repo, c_summaries())
    chk.explanation = MANIFEST["text"]
    chk.trusted = ["numpy field assignment", "numpy.dtype duplicate-name rejection", "CPython ast"]
    chk.floor = 45
    _IT.clear()
    res = {}
    for name in ("extract_fields", "remove_fields", "add_fields", "reorder_fields", "combine_fields"):
        fi = repo.func(NU + name)
        chk.analysed_unit(fi.qualname)
        res[name] = (fi,) + common(chk, repo, eng, fi)
    for name, rule in (("extract_fields", extract), ("remove_fields", remove), ("add_fields", add), ("reorder_fields", reorder), ("combine_fields", combine)):
        fi, it, alloc = res[name]
        rule(chk, repo, fi, it, alloc)
    copiers(chk, repo)
    sf = repo.func(NU + "split_fields")
    chk.analysed_unit(sf.qualname)
    split(chk, repo, sf)
    compare(chk, repo, repo.func(NU + "compare_arrays"))
