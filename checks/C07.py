"""C07 -- structured-array field operations preserve data, types and documented order."""
import ast

from vcheck import effects, rules
from vcheck.core import PyRepo, AnalysisError, call_name, dotted_name, kwarg, norm, walk_no_nested
from vcheck.ctable import c_summaries
from vcheck.rules import cfg_of

MANIFEST = dict(
    text="Structural rule checking (not a behavioural proof) of the five field operations and the copy/split helpers: the result is "
         "allocated as zeros(<input>.shape, dtype=<new descr>) (same-shape clause); every entry put into the new descriptor is an "
         "unmodified entry of the input's dtype.descr or of the added descriptor (type, sub-array shape and byte order preserved); the "
         "iteration order that builds the descriptor is the documented one for each operation; data are copied by the per-name copier "
         "after allocation with (source, destination) in the right roles and the copier assigns every common name; each documented "
         "rejection is a raise controlled by the matching test; the returned array is fresh (alias analysis: it shares no buffer with "
         "any argument).",
    note="Not decided: element-wise equality (numpy field assignment trusted), rejection of a shared name (delegated to numpy.dtype "
         "construction, a trusted idiom). remove_fields documents only scalar/list names; tuple/array name lists are an observation.",
    technique="static analysis: AST/CFG provenance and control-dependence rules, alias analysis for freshness of the result",
)

NU = "esutil.numpy_util."


# rules that keep their verdict however the code is laid out (decided by term equality, effect analysis or dominance over
# resolved calls); every other rule of this check is a template rule (vcheck.core.Check.obt)
SEMANTIC = ('R07.alloc', 'R07.args', 'R07.copier', 'R07.defaults', 'R07.fresh')


def run(chk):
    repo = PyRepo()
    chk.set_templates(repo, semantic=SEMANTIC)
    eng = effects.Effects(repo, c_summaries())
    chk.explanation = MANIFEST["text"]
    chk.trusted = ["numpy field assignment", "numpy.dtype duplicate-name rejection", "CPython ast"]
    chk.floor = 45
    for name in ("extract_fields", "remove_fields", "add_fields", "reorder_fields", "combine_fields"):
        fi = repo.func(NU + name)
        chk.analysed_unit(fi.qualname)
        common(chk, repo, eng, fi)
    extract(chk, repo.func(NU + "extract_fields"))
    remove(chk, repo.func(NU + "remove_fields"))
    add(chk, repo.func(NU + "add_fields"))
    reorder(chk, repo.func(NU + "reorder_fields"))
    combine(chk, repo.func(NU + "combine_fields"))
    copiers(chk, repo)
    from checks.C02 import check_split_fields
    sf = repo.func(NU + "split_fields")
    chk.analysed_unit(sf.qualname)
    check_split_fields(chk, sf, "R07.split")
    compare(chk, repo.func(NU + "compare_arrays"))


def _assigns(fn):
    return [x for x in walk_no_nested(fn) if isinstance(x, ast.Assign)]


def common(chk, repo, eng, fi):
    fn = fi.node
    q = fi.qualname
    env = {}
    for a in _assigns(fn):
        if isinstance(a.targets[0], ast.Name):
            env.setdefault(a.targets[0].id, []).append(a.value)
    src = "arrlist[0]" if fi.name == "combine_fields" else "arr"
    # (a) allocation
    zs = [x for x in walk_no_nested(fn) if isinstance(x, ast.Call) and call_name(x) in ("zeros", "empty") and
          (kwarg(x, "dtype") is not None or len(x.args) > 1)]
    chk.ob("R07.alloc", q + "::single-allocation", len(zs) == 1, fi.where(), "the result is allocated once with zeros(shape, dtype=descr)")
    for z in zs:
        shp = z.args[0]
        prov = norm(shp)
        if isinstance(shp, ast.Name) and shp.id in env:
            prov = " | ".join(sorted({norm(v) for v in env[shp.id]}))
        ok = prov == src + ".shape"
        chk.ob("R07.alloc", q + "::shape-from-input", ok, fi.where(z),
               "the result's shape is the input's .shape (found `%s`): %s" % (prov, "ok" if ok else
                                                                             "a result built from .size (or anything else) is not the same shape for 0-d/2-d inputs"))
        chk.ob("R07.alloc", q + "::zero-filled", call_name(z) == "zeros", fi.where(z), "new fields start zero-filled")
    # (d) data copied by copy_fields(input, new) after the allocation
    cps = [x for x in walk_no_nested(fn) if isinstance(x, ast.Call) and call_name(x) == "copy_fields"]
    chk.ob("R07.copy", q + "::copy-call-present", len(cps) >= 1, fi.where(), "data are copied with copy_fields")
    alloc_names = [norm(a.targets[0]) for a in _assigns(fn) if a.value in zs]
    for c in cps:
        a0, a1 = (norm(c.args[0]), norm(c.args[1])) if len(c.args) == 2 else (None, None)
        src_ok = a0 == "arr"
        chk.ob("R07.copy", q + "::copy-roles", src_ok and a1 in alloc_names, fi.where(c),
               "copy_fields(source=%s, destination=%s): source is the input, destination the newly allocated array" % (a0, a1))
    # every input array is copied (combine: loop over arrlist)
    if fi.name == "combine_fields":
        lp = [x for x in walk_no_nested(fn) if isinstance(x, ast.For) and norm(x.iter) == "arrlist" and any(c in list(ast.walk(x)) for c in cps)]
        chk.ob("R07.copy", q + "::copies-every-array", len(lp) == 1 and norm(lp[0].target) == "arr", fi.where(), "copy_fields runs for every array of the list")
    # (f) freshness of the returned value
    rets = effects.return_tags_per_return(eng, fi, {})
    for n, tags in rets:
        p = sorted({t[1] for t in tags if t[0] == "P"})
        chk.ob("R07.fresh", q + "::returns-new-array::" + norm(n.ast.value), not p, fi.where(n.ast),
               "`return %s` is a new array%s" % (norm(n.ast.value), "" if not p else ": it can be (a view of) the argument %s" % p))
    # returned value is the allocated array
    for n, tags in rets:
        if not any(t[0] == "P" for t in tags):
            chk.ob("R07.fresh", q + "::returns-the-allocation", norm(n.ast.value) in alloc_names, fi.where(n.ast), "the allocated array is what is returned")


def _descr_appends(fn, listname):
    """(loop, append-arg expr, controlling ifs inside loop) for appends to listname"""
    out = []
    for lp in [x for x in walk_no_nested(fn) if isinstance(x, ast.For)]:
        def visit(stmts, conds):
            for s in stmts:
                if isinstance(s, ast.If):
                    visit(s.body, conds + [(norm(s.test), True)])
                    visit(s.orelse, conds + [(norm(s.test), False)])
                elif isinstance(s, ast.Expr) and isinstance(s.value, ast.Call) and call_name(s.value) == "append" \
                        and norm(s.value.func.value) == listname:
                    out.append((lp, s.value.args[0], conds))
                elif isinstance(s, (ast.For, ast.While)):
                    pass
        visit(lp.body, [])
    return out


def _raise_guards(fi):
    cfg = cfg_of(fi)
    view = cfg.view()
    return [(n, rules.controlling_tests(view, n)) for n in rules.raise_nodes(cfg)]


def extract(chk, fi):
    q = fi.qualname
    apps = _descr_appends(fi.node, "new_descr")
    ok = len(apps) == 1 and norm(apps[0][0].iter) == "arr.dtype.descr" and norm(apps[0][1]) == norm(apps[0][0].target) \
        and apps[0][2] == [("name in keepnames", True)]
    chk.ob("R07.order", q + "::original-order-filtered-by-membership", ok, fi.where(),
           "extraction walks arr.dtype.descr in original order and keeps the unmodified entry when its name is requested")
    nm = [a for a in _assigns(fi.node) if norm(a.targets[0]) == "name"]
    chk.ob("R07.order", q + "::name-is-entry[0]", any(norm(a.value) == "d[0]" for a in nm), fi.where(), "the tested name is the entry's own name")
    g = _raise_guards(fi)
    chk.ob("R07.reject", q + "::missing-name-strict", any(("strict", "T") in ts and ("name not in arrnames", "T") in ts for n, ts in g), fi.where(),
           "strict mode rejects a requested name that is not a field")
    chk.ob("R07.reject", q + "::no-field-left", any(("len(new_descr) == 0", "T") in ts for n, ts in g), fi.where(), "an empty result is rejected")
    wrap = [n for n in cfg_of(fi).nodes if n.kind == "branch" and "isinstance(keepnames" in norm(n.ast.test)]
    chk.ob("R07.args", q + "::scalar-name-wrapped", len(wrap) == 1 and all(t in norm(wrap[0].ast.test) for t in ("tuple", "list", "ndarray")), fi.where(),
           "a scalar name is wrapped; tuple, list and array name lists are taken as they are")


def remove(chk, fi):
    q = fi.qualname
    apps = _descr_appends(fi.node, "new_descr")
    ok = len(apps) == 1 and norm(apps[0][0].iter) in ("descr", "arr.dtype.descr") and norm(apps[0][1]) == norm(apps[0][0].target) \
        and apps[0][2] == [("name not in rmnames", True)]
    chk.ob("R07.order", q + "::original-order-filtered-by-non-membership", ok, fi.where(),
           "removal walks the original descr in order and keeps the unmodified entry when its name is not listed")
    d = [a for a in _assigns(fi.node) if norm(a.targets[0]) == "descr"]
    chk.ob("R07.order", q + "::descr-is-input-descr", (not d) or all(norm(a.value) == "arr.dtype.descr" for a in d), fi.where(), "the walked descr is arr.dtype.descr")
    g = _raise_guards(fi)
    chk.ob("R07.reject", q + "::no-field-left", any(("len(new_descr) == 0", "T") in ts for n, ts in g), fi.where(), "removing every field is rejected")
    wrap = [n for n in cfg_of(fi).nodes if n.kind == "branch" and "isinstance(rmnames" in norm(n.ast.test)]
    if wrap and not all(t in norm(wrap[0].ast.test) for t in ("tuple", "ndarray")):
        chk.observe("R07.args", fi.where(wrap[0].ast), "remove_fields wraps anything that is not a list: a tuple/array of names is treated as one name and "
                    "silently removes nothing (documentation only mentions names; outside the documented quantifier)")


def add(chk, fi):
    q = fi.qualname
    fn = fi.node
    env = {norm(a.targets[0]): norm(a.value) for a in _assigns(fn)}
    ok = env.get("old_descr") == "arr.dtype.descr" and env.get("new_descr") in ("copy.deepcopy(old_descr)", "list(old_descr)", "old_descr[:]", "copy.copy(old_descr)")
    chk.ob("R07.order", q + "::starts-from-original-descr", ok, fi.where(), "the new descr starts as a copy of the original descr (old fields first, original order)")
    apps = _descr_appends(fn, "new_descr")
    ok = len(apps) == 1 and norm(apps[0][0].iter) == "add_descr" and norm(apps[0][1]) == norm(apps[0][0].target)
    chk.ob("R07.order", q + "::appends-added-entries-in-order", ok, fi.where(), "added entries are appended unmodified in the order given")
    chk.ob("R07.order", q + "::added-descr-provenance", env.get("add_descr") == "add_dtype.descr" and env.get("add_dtype") == "np.dtype(add_dtype_or_descr)", fi.where(),
           "the added descr is np.dtype(<argument>).descr")
    g = _raise_guards(fi)
    chk.ob("R07.reject", q + "::existing-name", any(any("old_names.count(name) == 0" == t and lab == "F" or t == "name in old_names" and lab == "T" for t, lab in ts) for n, ts in g), fi.where(),
           "adding a name that already exists is rejected")
    chk.ob("R07.reject", q + "::defaults-length", any(("len(defaults) != len(add_descr)", "T") in ts for n, ts in g), fi.where(), "defaults of the wrong length are rejected")
    # defaults applied by name to the new array, for the added names, only when given
    cfg = cfg_of(fi)
    view = cfg.view()
    cb = [(n, c) for n in cfg.nodes for c in rules.stmts_calls(n) if call_name(c) == "copy_fields_by_name"]
    ok = len(cb) == 1
    if ok:
        n, c = cb[0]
        ts = rules.controlling_tests(view, n)
        ok = ("defaults is not None", "T") in ts and [norm(a) for a in c.args] == ["new_arr", "list(add_dtype.names)", "defaults"]
    chk.ob("R07.defaults", q + "::defaults-by-name", ok, fi.where(), "supplied defaults are written by name into the added fields of the new array, only when given")
    # the defaults reach copy_fields_by_name as given (or wrapped in a list): an array conversion would coerce mixed-type defaults to one type
    reb = [a for a in _assigns(fi.node) if norm(a.targets[0]) == "defaults"]
    bad = [norm(a)[:70] for a in reb if not (isinstance(a.value, ast.List) and len(a.value.elts) == 1 and norm(a.value.elts[0]) == "defaults")
           and not (isinstance(a.value, ast.Call) and call_name(a.value) in ("list", "tuple") and len(a.value.args) == 1 and norm(a.value.args[0]) == "defaults")]
    chk.ob("R07.defaults", q + "::defaults-not-converted", not bad, fi.where(),
           "the default values are applied one by one with their own types (only wrapped in a list, never converted to an array)%s" % ("" if not bad else ": `%s`" % bad[0]))
    # order: copy of old data before defaults
    cps = [(n, c) for n in cfg.nodes for c in rules.stmts_calls(n) if call_name(c) == "copy_fields"]
    if cb and cps:
        chk.ob("R07.defaults", q + "::old-data-copied-first", view.dominates(cps[0][0], cb[0][0]), fi.where(), "old data are copied before defaults are applied")


def reorder(chk, fi):
    q = fi.qualname
    fn = fi.node
    loops = sorted([x for x in walk_no_nested(fn) if isinstance(x, ast.For)], key=lambda x: x.lineno)
    chk.ob("R07.order", q + "::two-passes", len(loops) == 2, fi.where(), "two passes build the new order")
    if len(loops) != 2:
        return
    first, second = loops
    env = {norm(a.targets[0]): norm(a.value) for a in _assigns(fn)}
    chk.ob("R07.order", q + "::originals", env.get("original_descr") == "arr.dtype.descr" and env.get("original_names") == "np.array(arr.dtype.names)", fi.where(),
           "names and descr entries are taken from the same dtype (parallel order)")
    apps = _descr_appends(fn, "new_descr")
    a1 = [a for a in apps if a[0] is first]
    a2 = [a for a in apps if a[0] is second]
    ok1 = norm(first.iter) == "ordered_names" and len(a1) == 1 and norm(a1[0][1]) == "original_descr[w[0]]" and a1[0][2] == [("w.size != 0", True)]
    wdef = [a for a in ast.walk(first) if isinstance(a, ast.Assign) and isinstance(a.value, ast.Call) and call_name(a.value) == "where"]
    ok1 = ok1 and len(wdef) == 1 and norm(wdef[0].value.args[0]) == "original_names == name"
    chk.ob("R07.order", q + "::named-fields-first-in-given-order", ok1, fi.where(first),
           "first pass: for each requested name, in the order given, append the original entry at the position where the names match")
    ok2 = norm(second.iter) == "range(original_names.size)" and len(a2) == 1 and norm(a2[0][1]) == "original_descr[%s]" % norm(second.target) \
        and a2[0][2] == [("name not in new_names", True)]
    nm = [a for a in ast.walk(second) if isinstance(a, ast.Assign) and norm(a.targets[0]) == "name"]
    ok2 = ok2 and len(nm) == 1 and norm(nm[0].value) == "original_names[%s]" % norm(second.target)
    chk.ob("R07.order", q + "::rest-after-in-original-order", ok2, fi.where(second),
           "second pass: remaining fields in original order, each appended once (not already taken)")
    # new_names is kept in step with new_descr in both passes
    napps = _descr_appends(fn, "new_names")
    chk.ob("R07.order", q + "::taken-names-tracked", len(napps) == 2 and all(norm(a[1]) == "name" for a in napps) and
           sorted(str(a[2]) for a in napps) == sorted(str(a[2]) for a in apps), fi.where(), "the list of taken names grows together with the descr in both passes")
    g = _raise_guards(fi)
    chk.ob("R07.reject", q + "::missing-name-strict", any(("strict", "T") in ts and ("w.size != 0", "F") in ts for n, ts in g), fi.where(),
           "strict mode rejects a requested name that is not a field")


def combine(chk, fi):
    q = fi.qualname
    fn = fi.node
    g = _raise_guards(fi)
    chk.ob("R07.reject", q + "::empty-list", any(("len(arrlist) == 0", "T") in ts for n, ts in g), fi.where(), "an empty list is rejected")
    chk.ob("R07.reject", q + "::length-mismatch", any(any(t in ("arr.size != num", "arr.shape != shape", "arr.shape != arrlist[0].shape") and lab == "T" for t, lab in ts) for n, ts in g), fi.where(),
           "arrays of different length/shape are rejected")
    aug = [x for x in walk_no_nested(fn) if isinstance(x, ast.AugAssign) and norm(x.target) == "descr" and isinstance(x.op, ast.Add)]
    ok = len(aug) == 1 and norm(aug[0].value) == "arr.dtype.descr"
    lp = [x for x in walk_no_nested(fn) if isinstance(x, ast.For) and norm(x.iter) == "arrlist" and aug and aug[0] in list(ast.walk(x))]
    chk.ob("R07.order", q + "::field-lists-concatenated-in-list-order", ok and len(lp) == 1 and norm(lp[0].target) == "arr", fi.where(),
           "the combined descr is the concatenation of each array's dtype.descr in list order")
    chk.assume("a field name shared between combined arrays is rejected by numpy.dtype construction (duplicate field names raise ValueError)")


def copiers(chk, repo):
    fi = repo.func(NU + "copy_fields")
    chk.analysed_unit(fi.qualname)
    q = fi.qualname
    fn = fi.node
    lp = [x for x in walk_no_nested(fn) if isinstance(x, ast.For)]
    ok = False
    if len(lp) == 1:
        v = norm(lp[0].target)
        env = {norm(a.targets[0]): norm(a.value) for a in _assigns(fn)}
        it = env.get(norm(lp[0].iter), norm(lp[0].iter))
        body = lp[0].body
        ok = it == "arr1.dtype.names" and len(body) == 1 and isinstance(body[0], ast.If) and \
            env.get(norm(body[0].test.comparators[0]), "") == "arr2.dtype.names" and norm(body[0].test.left) == v and isinstance(body[0].test.ops[0], ast.In) and \
            len(body[0].body) == 1 and norm(body[0].body[0]) == "arr2[%s] = arr1[%s]" % (v, v)
    chk.ob("R07.copier", q + "::assigns-every-common-name", ok, fi.where(), "copy_fields assigns arr2[name] = arr1[name] for every name of arr1 that arr2 also has")
    # every write into the destination is by field name, and the by-name loop is on every normal path (no positional shortcut)
    cfgc = rules.cfg_of(fi)
    viewc = cfgc.view()
    dst = fi.params[1]
    stores = [n for n in cfgc.nodes if n.kind == "stmt" and isinstance(n.ast, (ast.Assign, ast.AugAssign))
              and any(isinstance(t, ast.Subscript) and norm(t.value) == dst for t in (n.ast.targets if isinstance(n.ast, ast.Assign) else [n.ast.target]))]
    byname = [n for n in stores if isinstance(n.ast, ast.Assign) and isinstance(n.ast.targets[0].slice, ast.Name) and isinstance(n.ast.value, ast.Subscript)
              and norm(n.ast.value.slice) == norm(n.ast.targets[0].slice) and norm(n.ast.value.value) == fi.params[0]]
    chk.ob("R07.copier", q + "::destination-written-by-name-only", bool(stores) and len(stores) == len(byname), fi.where(stores[0].ast) if stores else fi.where(),
           "every store into the destination is `%s[name] = %s[name]` with one name (fields are matched by name, never by position): %s"
           % (dst, fi.params[0], [norm(n.ast)[:60] for n in stores if n not in byname] or "ok"))
    loopn = [n for n in cfgc.nodes if n.kind == "loop"]
    chk.ob("R07.copier", q + "::by-name-loop-on-every-path", len(loopn) == 1 and viewc.dominates(loopn[0], cfgc.exit), fi.where(),
           "every normal return passes through the by-name loop (no early return around it)")
    g = _raise_guards(fi)
    chk.ob("R07.reject", q + "::size-mismatch", any(("arr1.size != arr2.size", "T") in ts or ("arr1.shape != arr2.shape", "T") in ts for n, ts in g), fi.where(), "different sizes are rejected")
    fi = repo.func(NU + "copy_fields_by_name")
    chk.analysed_unit(fi.qualname)
    q = fi.qualname
    lp = [x for x in walk_no_nested(fi.node) if isinstance(x, ast.For)]
    ok = len(lp) == 1 and norm(lp[0].iter) == "zip(names, vals)" and norm(lp[0].target) == "(name, val)" and \
        any(norm(s) == "arr[name] = val" for s in ast.walk(lp[0]) if isinstance(s, ast.Assign))
    chk.ob("R07.copier", q + "::assigns-value-by-name", ok, fi.where(), "copy_fields_by_name pairs names with values positionally and assigns arr[name] = val")
    g = _raise_guards(fi)
    chk.ob("R07.reject", q + "::length-mismatch", any(("len(names) != len(vals)", "T") in ts for n, ts in g), fi.where(), "name/value lists of different length are rejected")


def compare(chk, fi):
    chk.analysed_unit(fi.qualname)
    q = fi.qualname
    cfg = cfg_of(fi)
    view = cfg.view()
    rets = rules.return_nodes(cfg)
    vals = {}
    for n in rets:
        ts = dict(rules.controlling_tests(view, n))
        vals[norm(n.ast.value)] = ts.get("nfail == 0")
    chk.ob("R07.compare", q + "::true-iff-no-failure", vals == {"True": "T", "False": "F"}, fi.where(), "compare_arrays returns True exactly when no difference was counted (%s)" % vals)
    incs = [n for n in cfg.nodes if n.kind == "stmt" and isinstance(n.ast, ast.AugAssign) and norm(n.ast.target) == "nfail"]
    tests = {rules.controlling_tests(view, n)[0][0] if rules.controlling_tests(view, n) else "" for n in incs}
    need = {"w.size > 0", "arr2[n].shape != arr1[n].shape"}
    chk.ob("R07.compare", q + "::counts-shape-and-element-differences", need <= tests, fi.where(), "shape differences and element differences are counted (%s)" % sorted(tests))
